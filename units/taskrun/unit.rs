#![feature(allocator_api)]
#![allow(unused)]
// unit `taskrun`: CommandTask::run of app/run.rs - what one task hands to its two log readers and what it reports (C20, C08, C06)
use vstd::prelude::*;
use vstd::future::*;
use std::future::Future;
verus! {
//!include prelude/std_gaps.rs
//!include prelude/keymap.rs
//!include prelude/app.rs
pub mod graph { pub use super::graph_err::GraphError; }
pub mod time {
    use vstd::prelude::*;
    pub struct Instant { pub x: u8 }
    pub struct Duration { pub x: u8 }
    impl Instant { #[verifier::external_body] pub fn elapsed(&self) -> Duration { unimplemented!() } }
}
pub mod process {
    use vstd::prelude::*;
    pub struct ExitStatus { pub x: u8 }
}
// ASSUMED (tokio::process): a spawned child with piped stdout / stderr; `exit` is the status it will terminate with
pub mod tokio_process {
    use vstd::prelude::*;
    use super::*;
    pub struct ChildStdout { pub x: u8 }
    pub struct ChildStderr { pub x: u8 }
    pub struct Child { pub stdout: Option<ChildStdout>, pub stderr: Option<ChildStderr>, pub ghost exit: process::ExitStatus }
    impl Child {
        // R12 target for `async { child.wait().await.map_err(MonorailError::from) }`: Ok carries the child's exit status
        #[verifier::external_body] pub async fn wait_mapped(&mut self) -> (r: Result<process::ExitStatus, MonorailError>)
            ensures r matches Ok(s) ==> s == old(self).exit { unimplemented!() }
    }
}
// which of the two pipes a reader is attached to is visible in its type
pub trait Pipe { spec fn is_stdout() -> bool; }
impl Pipe for tokio_process::ChildStdout { open spec fn is_stdout() -> bool { true } }
impl Pipe for tokio_process::ChildStderr { open spec fn is_stdout() -> bool { false } }
pub open spec fn pipe_file<R: Pipe>() -> Seq<char> { if R::is_stdout() { log::STDOUT_FILE@ } else { log::STDERR_FILE@ } }
// R12 target for tokio::try_join!(a, b, c): Ok only when all three completed with Ok, carrying their outputs
#[verifier::external_body] pub async fn try_join3<X, Y, Z, E, A: Future<Output = Result<X, E>>, B: Future<Output = Result<Y, E>>, C: Future<Output = Result<Z, E>>>(a: A, b: B, c: C) -> (r: Result<(X, Y, Z), E>)
    ensures r matches Ok(p) ==> a.awaited() && b.awaited() && c.awaited() && a@ == Ok::<X, E>(p.0) && b@ == Ok::<Y, E>(p.1) && c@ == Ok::<Z, E>(p.2) { unimplemented!() }
impl MonorailError { #[verifier::external_body] pub fn to_string(&self) -> String { unimplemented!() } }

pub mod log {
    use vstd::prelude::*;
    use super::*;
//!const src/app/log.rs STDOUT_FILE
    pub const STDOUT_FILE: &⟦'static ⟧str = "stdout.zst";
//!end
//!const src/app/log.rs STDERR_FILE
    pub const STDERR_FILE: &⟦'static ⟧str = "stderr.zst";
//!end
    // the two client types, reduced to the fields this function reads; ASSUMED: their derived Clone copies every field
    pub struct CompressorClient { pub file_name: String, pub x: u8 }
    pub struct LogServerClient { pub args: server::LogFilterInput, pub x: u8 }
    impl Clone for CompressorClient { #[verifier::external_body] fn clone(&self) -> (r: Self) ensures r == *self { unimplemented!() } }
    impl Clone for LogServerClient { #[verifier::external_body] fn clone(&self) -> (r: Self) ensures r == *self { unimplemented!() } }
//!stub log is_log_allowed
    // C20: the listener's filters admit a (target, command)
    pub open spec fn admits(a: server::LogFilterInput, t: Seq<char>, c: Seq<char>) -> bool {
        (a.targets@ =~= Set::<Seq<char>>::empty() || a.targets@.contains(t)) && (a.commands@ =~= Set::<Seq<char>>::empty() || a.commands@.contains(c))
    }
    // ASSUMED model of a block header: it names a file (stream), a target and a command.  (get_header itself is under contract in
    // unit runexec for totality; its text is `[monorail | <file>, <target>, <command>]`)
    pub uninterp spec fn hdr_file(h: Seq<char>) -> Seq<char>;
    pub uninterp spec fn hdr_target(h: Seq<char>) -> Seq<char>;
    pub uninterp spec fn hdr_command(h: Seq<char>) -> Seq<char>;
    #[verifier::external_body] pub fn get_header(filename: &str, target: &str, command: &str, color: bool) -> (r: String)
        ensures hdr_file(r@) == filename@, hdr_target(r@) == target@, hdr_command(r@) == command@ { unimplemented!() }
    // process_reader (proved in unit log: every byte of `reader` goes to `compressor_client`, and - under `header` - to the listener when
    // one is given).  What its CALLER owes, per property:
    #[verifier::external_body]
    pub async fn process_reader<R: Pipe>(reader: tokio::io::BufReader<R>, compressor_client: CompressorClient, header: String, log_stream_client: Option<LogServerClient>, token: sync::Arc<tokio_util::sync::CancellationToken>) -> (r: Result<(), MonorailError>)
        requires
            // C20: a listener gets blocks only for the streams, targets and commands its filters admit
            log_stream_client matches Some(c) ==> admits(c.args, hdr_target(header@), hdr_command(header@)) && (if R::is_stdout() { c.args.include_stdout } else { c.args.include_stderr }), // [C20]
            // C08 / C20: the pipe being read, the file its bytes are stored in and the stream the header names are the same one
            compressor_client.file_name@ == pipe_file::<R>(), // [C08]
            hdr_file(header@) == pipe_file::<R>(), // [C20]
    { unimplemented!() }
}

//!type src/app/run.rs RunStatus
@#[derive(PartialEq, Eq, Structural, Clone, Copy)]
pub enum RunStatus {
    // task created
    Scheduled,
    // non-zero exit code, successful completion
    Success,
    // command lacks executable permission
    NotExecutable,
    // command definition not found on disk
    Undefined,
    // command return non-zero exit code
    Error,
    // command task was cancelled
    Cancelled,
    // command task panicked
    Panicked,
    // command task was not run
    Skipped,
}
//!end
//!type src/app/run.rs CommandTaskFinishInfo
pub struct CommandTaskFinishInfo {
    pub id: usize,
    pub status: process::ExitStatus,
    pub elapsed: time::Duration,
}
//!end
//!type src/app/run.rs CommandTaskCancelInfo
pub struct CommandTaskCancelInfo {
    pub id: usize,
    pub elapsed: time::Duration,
    pub status: RunStatus,
    pub error: Option<String>,
}
//!end
//!type src/app/run.rs CommandTask
pub struct CommandTask {
    pub id: usize,
    pub start_time: time::Instant,
    pub token: sync::Arc<tokio_util::sync::CancellationToken>,
    pub target: sync::Arc<String>,
    pub command: sync::Arc<String>,
    pub stdout_client: log::CompressorClient,
    pub stderr_client: log::CompressorClient,
    pub log_stream_client: Option<log::LogServerClient>,
}
//!end

impl CommandTask {
//!fn src/app/run.rs CommandTask::run rules=R1,R7,R12 props=C20,C08,C06,C15
    async fn run(
        &mut self,
        child__0: tokio_process::Child,
    ) -> ⟦(res: ⟧Result<CommandTaskFinishInfo, CommandTaskCancelInfo>⟦)⟧
@        requires
@            // ASSUMED at the spawn site (initialize_compressor registers logs.stdout_path / logs.stderr_path, whose last components are these names)
@            old(self).stdout_client.file_name@ == log::STDOUT_FILE@, old(self).stderr_client.file_name@ == log::STDERR_FILE@,
@        ensures
@            // C06: the task reports the id it was given and the exit status of its own child, and only when both pipes were read to the end
@            res matches Ok(i) ==> i.id == old(self).id && i.status == child__0.exit, // [C06]
@            res matches Err(i) ==> i.id == old(self).id && i.status == RunStatus::Error, // [C06]
    { let mut child = child__0;
        let (stdout_log_stream_client, stderr_log_stream_client) = match &self.log_stream_client {
            Some(lsc) => {
                let allowed = log::is_log_allowed(
                    &lsc.args.targets,
                    &lsc.args.commands,
                    &self.target,
                    &self.command,
                );
                let stdout_lsc = if allowed && lsc.args.include_stdout {
                    Some(lsc.clone())
                } else {
                    None
                };
                let stderr_lsc = if allowed && lsc.args.include_stderr {
                    Some(lsc.clone())
                } else {
                    None
                };
                (stdout_lsc, stderr_lsc)
            }
            None => (None, None),
        };
@        // C20: with a listener attached, each admitted stream of an admitted task does get a client (the blocks reassemble to the whole log)
@        assert(self.log_stream_client matches Some(l) ==> (stdout_log_stream_client is Some <==> (log::admits(l.args, self.target@, self.command@) && l.args.include_stdout))); // [C20]
@        assert(self.log_stream_client matches Some(l) ==> (stderr_log_stream_client is Some <==> (log::admits(l.args, self.target@, self.command@) && l.args.include_stderr))); // [C20]
@        // C15: without a listener no stream gets one
@        assert(self.log_stream_client is None ==> stdout_log_stream_client is None && stderr_log_stream_client is None); // [C15]
        let stdout_header = log::get_header(
            &self.stdout_client.file_name,
            &self.target,
            &self.command,
            true,
        );
        let stdout_fut = log::process_reader(
            tokio::io::BufReader::new(
                child
                    .stdout
                    .take()
                    .ok_or(MonorailError::from("Missing stdout task stream"))
                    .map_err(|e⟦: MonorailError⟧| ⟦-> (r: CommandTaskCancelInfo) ensures r.id == self.id, r.status == RunStatus::Error {⟧ CommandTaskCancelInfo {
                        id: self.id,
                        elapsed: self.start_time.elapsed(),
                        status: RunStatus::Error,
                        error: Some(e.to_string()),
                    }⟦}⟧)?,
            ),
            self.stdout_client.clone(),
            stdout_header,
            stdout_log_stream_client,
            self.token.clone(),
        );
        let stderr_header = log::get_header(
            &self.stderr_client.file_name,
            &self.target,
            &self.command,
            true,
        );
        let stderr_fut = log::process_reader(
            tokio::io::BufReader::new(
                child
                    .stderr
                    .take()
                    .ok_or(MonorailError::from("Missing stderr task stream"))
                    .map_err(|e⟦: MonorailError⟧| ⟦-> (r: CommandTaskCancelInfo) ensures r.id == self.id, r.status == RunStatus::Error {⟧ CommandTaskCancelInfo {
                        id: self.id,
                        elapsed: self.start_time.elapsed(),
                        status: RunStatus::Error,
                        error: Some(e.to_string()),
                    }⟦}⟧)?,
            ),
            self.stderr_client.clone(),
            stderr_header,
            stderr_log_stream_client,
            self.token.clone(),
        );
        let child_fut = child.wait_mapped();

        // todo; cancellation future
        let (_stdout_result, _stderr_result, child_result) =
            try_join3(stdout_fut, stderr_fut, child_fut).await.map_err(|e⟦: MonorailError⟧| ⟦-> (r: CommandTaskCancelInfo) ensures r.id == self.id, r.status == RunStatus::Error⟧ {
                CommandTaskCancelInfo {
                    id: self.id,
                    elapsed: self.start_time.elapsed(),
                    status: RunStatus::Error,
                    error: Some(e.to_string()),
                }
            })?;
        Ok(CommandTaskFinishInfo {
            id: self.id,
            status: child_result,
            elapsed: self.start_time.elapsed(),
        })
    }
//!end
}
} // verus!
fn main() {}
