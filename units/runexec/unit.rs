#![feature(allocator_api)]
#![allow(unused)]
// unit `runexec`: the execution core of app/run.rs over a ghost event trace (C04, C05, C06, C16)
use vstd::prelude::*;
verus! {
//!include prelude/std_gaps.rs
//!include prelude/keymap.rs
//!include prelude/app.rs
pub mod graph { pub use super::graph_err::GraphError; }
pub mod log {
    use vstd::prelude::*;
    use super::*;
    // ASSUMED here (proved in unit log on the real text): CompressorClient::shutdown never fails
    pub struct CompressorClient { pub x: u8 }
    pub struct LogServerClient { pub x: u8 }
    pub struct Compressor { pub x: u8 }
    impl Clone for CompressorClient { #[verifier::external_body] fn clone(&self) -> Self { unimplemented!() } }
    impl Clone for LogServerClient { #[verifier::external_body] fn clone(&self) -> Self { unimplemented!() } }
    impl CompressorClient {
        #[verifier::external_body] pub async fn shutdown(&self, Tracked(w): Tracked<&mut World>) -> (r: Result<(), MonorailError>)
            ensures r is Ok, *final(w) == *old(w) { unimplemented!() }
    }
    impl LogServerClient {
        #[verifier::external_body] pub async fn connect(cfg: &server::LogServerConfig) -> (r: Result<Self, MonorailError>) { unimplemented!() }
    }
}
//!include prelude/run_world.rs
pub mod core { pub(crate) use super::Config; pub(crate) use super::Target; }
pub mod file {
    use vstd::prelude::*;
    use super::*;
    pub uninterp spec fn is_exec(p: Seq<char>) -> bool;
    // ASSUMED (repo function core/file.rs, not verified): execute permission test
    #[verifier::external_body] pub fn is_executable(p: &path::PathBuf) -> (r: bool) ensures r == is_exec(p@) { unimplemented!() }
}

// ---------------- extracted types ----------------
//!type src/app/run.rs RunStatus
@#[derive(PartialEq, Eq, Structural, Clone, Copy)]
pub enum RunStatus {
    // task created
    Scheduled,
    // non-zero exit code, successful completion
    Success,
    // command lacks executable permission
    NotExecutable,
    // command definition not found on disk
    Undefined,
    // command return non-zero exit code
    Error,
    // command task was cancelled
    Cancelled,
    // command task panicked
    Panicked,
    // command task was not run
    Skipped,
}
//!end
//!type src/app/run.rs TargetRunResult
pub struct TargetRunResult {
    pub status: RunStatus,
    pub code: Option<i32>,
    pub runtime_secs: Option<f32>,
}
//!end
//!type src/app/run.rs CommandRunResult
pub struct CommandRunResult {
    pub command: String,
    pub target_groups: Vec<HashMap<String, TargetRunResult>>,
}
//!end
//!type src/app/run.rs Logs
pub struct Logs {
    pub stdout_path: path::PathBuf,
    pub stderr_path: path::PathBuf,
}
//!end
//!type src/app/run.rs PlanTarget
pub struct PlanTarget {
    pub path: String,
    pub command_work_path: path::PathBuf,
    pub command_path: Option<path::PathBuf>,
    pub command_args: Option<Vec<String>>,
    pub logs: Logs,
}
//!end
//!type src/app/run.rs PlanCommandTargetGroup
pub struct PlanCommandTargetGroup {
    pub command_index: usize,
    pub target_groups: Vec<Vec<PlanTarget>>,
}
//!end
pub struct Out { pub x: u8 }
//!type src/app/run.rs Plan
pub struct Plan {
    pub command_target_groups: Vec<PlanCommandTargetGroup>,
    pub out: Out,
}
//!end
//!type src/app/run.rs CommandTaskFinishInfo
pub struct CommandTaskFinishInfo {
    pub id: usize,
    pub status: process::ExitStatus,
    pub elapsed: time::Duration,
}
//!end
//!type src/app/run.rs CommandTaskCancelInfo
pub struct CommandTaskCancelInfo {
    pub id: usize,
    pub elapsed: time::Duration,
    pub status: RunStatus,
    pub error: Option<String>,
}
//!end
//!type src/app/run.rs CommandTask
pub struct CommandTask {
    pub id: usize,
    pub start_time: time::Instant,
    pub token: sync::Arc<tokio_util::sync::CancellationToken>,
    pub target: sync::Arc<String>,
    pub command: sync::Arc<String>,
    pub stdout_client: log::CompressorClient,
    pub stderr_client: log::CompressorClient,
    pub log_stream_client: Option<log::LogServerClient>,
}
//!end
// what a joined task reports (ties the JoinSet stub to the real result type)
impl TaskOut for Result<CommandTaskFinishInfo, CommandTaskCancelInfo> {
    open spec fn tid(&self) -> int { match self { Ok(i) => i.id as int, Err(i) => i.id as int } }
    // a failure: the process exited non-zero (or was killed), or the task itself failed
    open spec fn bad(&self) -> bool { match self { Ok(i) => !i.status.ok(), Err(i) => true } }
}

// ===================== trace vocabulary =====================
pub open spec fn is_start(e: Ev) -> bool { e is Start }
pub open spec fn ev_c(e: Ev) -> int { match e { Ev::Start { c, g, t } => c, Ev::Exit { c, g, t } => c } }
pub open spec fn ev_g(e: Ev) -> int { match e { Ev::Start { c, g, t } => g, Ev::Exit { c, g, t } => g } }
pub open spec fn ev_t(e: Ev) -> int { match e { Ev::Start { c, g, t } => t, Ev::Exit { c, g, t } => t } }
pub open spec fn lt(c1: int, g1: int, c2: int, g2: int) -> bool { c1 < c2 || (c1 == c2 && g1 < g2) }
pub open spec fn exit_of(e: Ev) -> Ev { Ev::Exit { c: ev_c(e), g: ev_g(e), t: ev_t(e) } }
pub open spec fn exited_in(tr: Seq<Ev>, i: int, j: int) -> bool { exists|k: int| i < k < j && #[trigger] tr[k] == exit_of(tr[i]) }

// C04: a Start of a later (command, group) comes after the Exit of every earlier one
pub open spec fn ordered(tr: Seq<Ev>) -> bool {
    forall|i: int, j: int| #![trigger tr[i], tr[j]] 0 <= i < j < tr.len() && is_start(tr[i]) && is_start(tr[j])
        && lt(ev_c(tr[i]), ev_g(tr[i]), ev_c(tr[j]), ev_g(tr[j])) ==> exited_in(tr, i, j)
}
// C05: no (command, group, target) is started twice
pub open spec fn uniq_starts(tr: Seq<Ev>) -> bool {
    forall|i: int, j: int| #![trigger tr[i], tr[j]] 0 <= i < j < tr.len() && is_start(tr[i]) && is_start(tr[j]) ==> tr[i] != tr[j]
}
// C16: between two Starts of one group nothing is awaited (only Starts in between)
pub open spec fn grouped(tr: Seq<Ev>) -> bool {
    forall|i: int, k: int, j: int| #![trigger tr[i], tr[k], tr[j]] 0 <= i < k < j < tr.len() && is_start(tr[i]) && is_start(tr[j])
        && ev_c(tr[i]) == ev_c(tr[j]) && ev_g(tr[i]) == ev_g(tr[j]) ==> is_start(tr[k])
}
// every Start before position b has exited before b, and belongs to a (command, group) before (c, g)
pub open spec fn settled(tr: Seq<Ev>, b: int, c: int, g: int) -> bool {
    &&& 0 <= b <= tr.len()
    &&& forall|i: int| #![trigger tr[i]] 0 <= i < b && is_start(tr[i]) ==> exited_in(tr, i, b) && lt(ev_c(tr[i]), ev_g(tr[i]), c, g)
}
// from b on, only Starts of (c, g) with target index below `upto`, strictly increasing
pub open spec fn scheduling(tr: Seq<Ev>, b: int, c: int, g: int, upto: int) -> bool {
    &&& forall|i: int| #![trigger tr[i]] b <= i < tr.len() ==> is_start(tr[i]) && ev_c(tr[i]) == c && ev_g(tr[i]) == g && 0 <= ev_t(tr[i]) < upto
    &&& forall|i: int, j: int| #![trigger tr[i], tr[j]] b <= i < j < tr.len() ==> ev_t(tr[i]) < ev_t(tr[j])
}
// C06 latch: once the run has failed no executable is started any more
pub open spec fn latched(tr: Seq<Ev>, failed: bool, fp: int) -> bool {
    &&& failed <==> fp >= 0
    &&& fp <= tr.len()
    &&& failed ==> forall|i: int| #![trigger tr[i]] fp <= i < tr.len() ==> !is_start(tr[i])
}
pub open spec fn good(tr: Seq<Ev>) -> bool { ordered(tr) && uniq_starts(tr) && grouped(tr) }


// ---------- trace lemmas ----------
proof fn lemma_push_start(tr: Seq<Ev>, b: int, c: int, g: int, id: int)
    requires good(tr), settled(tr, b, c, g), scheduling(tr, b, c, g, id), id >= 0
    ensures ({
        let tr2 = tr.push(Ev::Start { c, g, t: id });
        good(tr2) && settled(tr2, b, c, g) && scheduling(tr2, b, c, g, id + 1)
    })
{
    let e = Ev::Start { c, g, t: id };
    let tr2 = tr.push(e);
    let last = tr.len() as int;
    assert forall|i: int| #![trigger tr2[i]] 0 <= i < b && is_start(tr2[i]) implies exited_in(tr2, i, b) && lt(ev_c(tr2[i]), ev_g(tr2[i]), c, g) by {
        assert(tr2[i] == tr[i]);
        assert(exited_in(tr, i, b));
        let k = choose|k: int| i < k < b && #[trigger] tr[k] == exit_of(tr[i]);
        assert(tr2[k] == exit_of(tr2[i]));
    }
    assert(ordered(tr2)) by {
        assert forall|i: int, j: int| #![trigger tr2[i], tr2[j]] 0 <= i < j < tr2.len() && is_start(tr2[i]) && is_start(tr2[j])
            && lt(ev_c(tr2[i]), ev_g(tr2[i]), ev_c(tr2[j]), ev_g(tr2[j])) implies exited_in(tr2, i, j) by {
            assert(tr2[i] == tr[i]);
            if j < last {
                assert(tr2[j] == tr[j]);
                assert(exited_in(tr, i, j));
                let k = choose|k: int| i < k < j && #[trigger] tr[k] == exit_of(tr[i]);
                assert(tr2[k] == exit_of(tr2[i]));
            } else {
                if i >= b { assert(ev_c(tr[i]) == c && ev_g(tr[i]) == g); }
                assert(i < b);
                assert(exited_in(tr2, i, b));
                let k = choose|k: int| i < k < b && #[trigger] tr2[k] == exit_of(tr2[i]);
                assert(i < k < j);
            }
        }
    }
    assert(uniq_starts(tr2)) by {
        assert forall|i: int, j: int| #![trigger tr2[i], tr2[j]] 0 <= i < j < tr2.len() && is_start(tr2[i]) && is_start(tr2[j]) implies tr2[i] != tr2[j] by {
            assert(tr2[i] == tr[i]);
            if j < last { assert(tr2[j] == tr[j]); }
            else if i < b { assert(lt(ev_c(tr[i]), ev_g(tr[i]), c, g)); }
            else { assert(ev_t(tr[i]) < id); }
        }
    }
    assert(grouped(tr2)) by {
        assert forall|i: int, k: int, j: int| #![trigger tr2[i], tr2[k], tr2[j]] 0 <= i < k < j < tr2.len() && is_start(tr2[i]) && is_start(tr2[j])
            && ev_c(tr2[i]) == ev_c(tr2[j]) && ev_g(tr2[i]) == ev_g(tr2[j]) implies is_start(tr2[k]) by {
            assert(tr2[i] == tr[i] && tr2[k] == tr[k]);
            if j < last { assert(tr2[j] == tr[j]); }
            else {
                if i < b { assert(lt(ev_c(tr[i]), ev_g(tr[i]), c, g)); }
                assert(i >= b);
                assert(is_start(tr[k]));
            }
        }
    }
    assert forall|i: int| #![trigger tr2[i]] b <= i < tr2.len() implies is_start(tr2[i]) && ev_c(tr2[i]) == c && ev_g(tr2[i]) == g && 0 <= ev_t(tr2[i]) < id + 1 by {
        if i < last { assert(tr2[i] == tr[i]); }
    }
    assert forall|i: int, j: int| #![trigger tr2[i], tr2[j]] b <= i < j < tr2.len() implies ev_t(tr2[i]) < ev_t(tr2[j]) by {
        assert(tr2[i] == tr[i]);
        if j < last { assert(tr2[j] == tr[j]); }
    }
}

proof fn lemma_push_exit(tr: Seq<Ev>, e: Ev)
    requires good(tr), !is_start(e)
    ensures good(tr.push(e))
{
    let tr2 = tr.push(e);
    let last = tr.len() as int;
    assert forall|i: int, j: int| #![trigger tr2[i], tr2[j]] 0 <= i < j < tr2.len() && is_start(tr2[i]) && is_start(tr2[j])
        && lt(ev_c(tr2[i]), ev_g(tr2[i]), ev_c(tr2[j]), ev_g(tr2[j])) implies exited_in(tr2, i, j) by {
        assert(tr2[i] == tr[i] && tr2[j] == tr[j]);
        assert(exited_in(tr, i, j));
        let k = choose|k: int| i < k < j && #[trigger] tr[k] == exit_of(tr[i]);
        assert(tr2[k] == exit_of(tr2[i]));
    }
    assert forall|i: int, j: int| #![trigger tr2[i], tr2[j]] 0 <= i < j < tr2.len() && is_start(tr2[i]) && is_start(tr2[j]) implies tr2[i] != tr2[j] by {
        assert(tr2[i] == tr[i] && tr2[j] == tr[j]);
    }
    assert forall|i: int, k: int, j: int| #![trigger tr2[i], tr2[k], tr2[j]] 0 <= i < k < j < tr2.len() && is_start(tr2[i]) && is_start(tr2[j])
        && ev_c(tr2[i]) == ev_c(tr2[j]) && ev_g(tr2[i]) == ev_g(tr2[j]) implies is_start(tr2[k]) by {
        assert(tr2[i] == tr[i] && tr2[k] == tr[k] && tr2[j] == tr[j]);
    }
}

// draining: tr = (prefix up to b) ++ (starts of (c,g)) up to e ++ exits of (c,g)
pub open spec fn started_in(tr: Seq<Ev>, b: int, e: int, c: int, g: int, t: int) -> bool {
    exists|i: int| b <= i < e && #[trigger] tr[i] == (Ev::Start { c, g, t })
}
pub open spec fn exit_after(tr: Seq<Ev>, e: int, c: int, g: int, t: int) -> bool {
    exists|k: int| e <= k < tr.len() && #[trigger] tr[k] == (Ev::Exit { c, g, t })
}
pub open spec fn draining(tr: Seq<Ev>, b: int, e: int, c: int, g: int, pend: Set<int>) -> bool {
    &&& 0 <= b <= e <= tr.len()
    &&& forall|i: int| #![trigger tr[i]] b <= i < e ==> is_start(tr[i]) && ev_c(tr[i]) == c && ev_g(tr[i]) == g
    &&& forall|i: int| #![trigger tr[i]] e <= i < tr.len() ==> !is_start(tr[i])
    &&& forall|t: int| #![trigger started_in(tr, b, e, c, g, t)] started_in(tr, b, e, c, g, t) && !pend.contains(t) ==> exit_after(tr, e, c, g, t)
}

proof fn lemma_drain_step(tr: Seq<Ev>, b: int, e: int, c: int, g: int, pend: Set<int>, t: int)
    requires draining(tr, b, e, c, g, pend)
    ensures draining(tr.push(Ev::Exit { c, g, t }), b, e, c, g, pend.remove(t))
{
    let tr2 = tr.push(Ev::Exit { c, g, t });
    assert forall|i: int| #![trigger tr2[i]] b <= i < e implies is_start(tr2[i]) && ev_c(tr2[i]) == c && ev_g(tr2[i]) == g by { assert(tr2[i] == tr[i]); }
    assert forall|i: int| #![trigger tr2[i]] e <= i < tr2.len() implies !is_start(tr2[i]) by { if i < tr.len() { assert(tr2[i] == tr[i]); } }
    assert forall|u: int| #![trigger started_in(tr2, b, e, c, g, u)] started_in(tr2, b, e, c, g, u) && !pend.remove(t).contains(u) implies exit_after(tr2, e, c, g, u) by {
        let i = choose|i: int| b <= i < e && #[trigger] tr2[i] == (Ev::Start { c, g, t: u });
        assert(tr[i] == tr2[i]);
        assert(started_in(tr, b, e, c, g, u));
        if u == t { assert(tr2[tr.len() as int] == (Ev::Exit { c, g, t })); }
        else {
            assert(exit_after(tr, e, c, g, u));
            let k = choose|k: int| e <= k < tr.len() && #[trigger] tr[k] == (Ev::Exit { c, g, t: u });
            assert(tr2[k] == tr[k]);
        }
    }
}

proof fn lemma_drain_done(tr: Seq<Ev>, b: int, e: int, c: int, g: int, c2: int, g2: int)
    requires draining(tr, b, e, c, g, Set::<int>::empty()), settled(tr, b, c, g), lt(c, g, c2, g2)
    ensures settled(tr, tr.len() as int, c2, g2)
{
    let n = tr.len() as int;
    assert forall|i: int| #![trigger tr[i]] 0 <= i < n && is_start(tr[i]) implies exited_in(tr, i, n) && lt(ev_c(tr[i]), ev_g(tr[i]), c2, g2) by {
        if i < b {
            assert(exited_in(tr, i, b));
            let k = choose|k: int| i < k < b && #[trigger] tr[k] == exit_of(tr[i]);
            assert(i < k < n);
        } else {
            assert(i < e);
            let t = ev_t(tr[i]);
            assert(tr[i] == (Ev::Start { c, g, t }));
            assert(started_in(tr, b, e, c, g, t));
            assert(exit_after(tr, e, c, g, t));
            let k = choose|k: int| e <= k < tr.len() && #[trigger] tr[k] == (Ev::Exit { c, g, t });
            assert(tr[k] == exit_of(tr[i]));
        }
    }
}
proof fn lemma_settled_mono(tr: Seq<Ev>, b: int, c: int, g: int, c2: int, g2: int)
    requires settled(tr, b, c, g), lt(c, g, c2, g2) || (c == c2 && g == g2)
    ensures settled(tr, b, c2, g2)
{ }

// pending == the set of targets started since b
pub open spec fn pending_is_started(tr: Seq<Ev>, b: int, c: int, g: int, pend: Set<int>) -> bool {
    forall|t: int| #![trigger pend.contains(t)] #![trigger started_in(tr, b, tr.len() as int, c, g, t)] pend.contains(t) <==> started_in(tr, b, tr.len() as int, c, g, t)
}
proof fn lemma_sched_to_drain(tr: Seq<Ev>, b: int, c: int, g: int, upto: int, pend: Set<int>)
    requires scheduling(tr, b, c, g, upto), 0 <= b <= tr.len(), pending_is_started(tr, b, c, g, pend)
    ensures draining(tr, b, tr.len() as int, c, g, pend), forall|t: int| pend.contains(t) ==> 0 <= t < upto
{
    assert forall|t: int| pend.contains(t) implies 0 <= t < upto by {
        assert(started_in(tr, b, tr.len() as int, c, g, t));
        let i = choose|i: int| b <= i < tr.len() && #[trigger] tr[i] == (Ev::Start { c, g, t });
        assert(ev_t(tr[i]) == t);
    }
}
proof fn lemma_pending_push(tr: Seq<Ev>, b: int, c: int, g: int, pend: Set<int>, id: int)
    requires pending_is_started(tr, b, c, g, pend), 0 <= b <= tr.len()
    ensures pending_is_started(tr.push(Ev::Start { c, g, t: id }), b, c, g, pend.insert(id))
{
    let tr2 = tr.push(Ev::Start { c, g, t: id });
    assert forall|t: int| #![trigger pend.insert(id).contains(t)] #![trigger started_in(tr2, b, tr2.len() as int, c, g, t)]
        pend.insert(id).contains(t) <==> started_in(tr2, b, tr2.len() as int, c, g, t) by {
        if pend.insert(id).contains(t) {
            if t == id { assert(tr2[tr.len() as int] == (Ev::Start { c, g, t })); }
            else {
                assert(started_in(tr, b, tr.len() as int, c, g, t));
                let i = choose|i: int| b <= i < tr.len() && #[trigger] tr[i] == (Ev::Start { c, g, t });
                assert(tr2[i] == tr[i]);
            }
        }
        if started_in(tr2, b, tr2.len() as int, c, g, t) {
            let i = choose|i: int| b <= i < tr2.len() && #[trigger] tr2[i] == (Ev::Start { c, g, t });
            if i < tr.len() { assert(tr[i] == tr2[i]); assert(started_in(tr, b, tr.len() as int, c, g, t)); }
        }
    }
}


// the joined tasks of the current group are within the group, and the abort table maps tokio ids to them
pub open spec fn ids_ok(ids: Map<int, int>, tab: Map<int, usize>, n: int) -> bool {
    forall|k: int| #![trigger ids.dom().contains(k)] ids.dom().contains(k) ==> tab.dom().contains(k) && tab[k] == ids[k] && 0 <= ids[k] < n
}
// R12 target: `join_set.spawn(async move { task.run(child).await })`.  The OS process was started by spawn_task just before
// (no suspension point in between), so the Start event is recorded here, where the task index is known.
impl tokio::task::JoinSet<Result<CommandTaskFinishInfo, CommandTaskCancelInfo>> {
    #[verifier::external_body]
    pub fn spawn_task_run(&mut self, task: CommandTask, child: tokio_process::Child, Tracked(w): Tracked<&mut World>) -> (h: tokio::task::AbortHandle)
        ensures
            final(w).cur_c == old(w).cur_c, final(w).cur_g == old(w).cur_g, final(w).fail_point == old(w).fail_point, final(w).bad_joins == old(w).bad_joins,
            final(w).grp_begin == old(w).grp_begin, final(w).sched_end == old(w).sched_end,
            final(w).trace == old(w).trace.push(Ev::Start { c: old(w).cur_c, g: old(w).cur_g, t: task.id as int }),
            final(self).pending == old(self).pending.insert(task.id as int),
            !old(self).ids.dom().contains(h.i), final(self).ids == old(self).ids.insert(h.i, task.id as int),
    { unimplemented!() }
}
// ASSUMED (repo function, not verified here): spawn_task builds the tokio::process::Command (cwd, argv, stdin null) and starts it
#[verifier::external_body]
pub(crate) fn spawn_task(command_work_path: &path::Path, command_path: &path::Path, command_args: &Option<Vec<String>>) -> (r: Result<tokio_process::Child, MonorailError>)
    ensures r matches Err(e) ==> !from_listener(e)
{ unimplemented!() }

impl CommandRunResult {
//!fn src/app/run.rs CommandRunResult::new props=C05,C06
    fn new(command: &str) -> ⟦(r: ⟧Self⟦)⟧
@        ensures r.command@ == command@, r.target_groups@.len() == 0,
    {
@        broadcast use axiom_to_string_string;
        Self {
            command: command.to_string(),
            target_groups: vec![],
        }
    }
//!end
}

//!fn src/app/run.rs create_skipped_result rules=R1 props=C06,C05
fn create_skipped_result(command: &str, target_groups: &[Vec<PlanTarget>]) -> ⟦(crr: ⟧CommandRunResult⟦)⟧
@    ensures
@        // C06: a skipped command reports every planned target, group for group, as `skipped` and nothing else
@        crr.target_groups@.len() == target_groups@.len(), // [C06,C05]
@        forall|g: int, k: int| 0 <= g < target_groups@.len() && 0 <= k < target_groups@[g]@.len() ==>
@            crr.target_groups@[g]@.dom().contains(#[trigger] target_groups@[g]@[k].path@) && crr.target_groups@[g]@[target_groups@[g]@[k].path@].status == RunStatus::Skipped, // [C06,C05]
@        forall|g: int, p: Seq<char>| 0 <= g < target_groups@.len() && #[trigger] crr.target_groups@[g]@.dom().contains(p) ==>
@            crr.target_groups@[g]@[p].status == RunStatus::Skipped && exists|k: int| 0 <= k < target_groups@[g]@.len() && #[trigger] target_groups@[g]@[k].path@ == p, // [C06,C05]
{
@    broadcast use axiom_to_string_string;
    let mut crr = CommandRunResult::new(command);
    for plan_targets in ⟦itg: ⟧target_groups.iter()
@        invariant
@            itg.seq().len() == target_groups@.len(), forall|j: int| 0 <= j < target_groups@.len() ==> *itg.seq()[j] == target_groups@[j],
@            crr.target_groups@.len() == itg.index@,
@            forall|g: int, k: int| 0 <= g < itg.index@ && 0 <= k < target_groups@[g]@.len() ==>
@                crr.target_groups@[g]@.dom().contains(#[trigger] target_groups@[g]@[k].path@) && crr.target_groups@[g]@[target_groups@[g]@[k].path@].status == RunStatus::Skipped,
@            forall|g: int, p: Seq<char>| 0 <= g < itg.index@ && #[trigger] crr.target_groups@[g]@.dom().contains(p) ==>
@                crr.target_groups@[g]@[p].status == RunStatus::Skipped && exists|k: int| 0 <= k < target_groups@[g]@.len() && #[trigger] target_groups@[g]@[k].path@ == p,
    {
        let mut target_group⟦: HashMap<String, TargetRunResult>⟧ = HashMap::new();
        for plan_target in ⟦itt: ⟧plan_targets
@            invariant
@                itt.seq().len() == plan_targets@.len(), forall|j: int| 0 <= j < plan_targets@.len() ==> *itt.seq()[j] == plan_targets@[j],
@                forall|k: int| 0 <= k < itt.index@ ==> target_group@.dom().contains(#[trigger] plan_targets@[k].path@) && target_group@[plan_targets@[k].path@].status == RunStatus::Skipped,
@                forall|p: Seq<char>| #[trigger] target_group@.dom().contains(p) ==> target_group@[p].status == RunStatus::Skipped && exists|k: int| 0 <= k < itt.index@ && #[trigger] plan_targets@[k].path@ == p,
        {
@            broadcast use axiom_to_string_string;
            let status = RunStatus::Skipped;
@            let ghost m0 = target_group@;
@            let ghost kk = itt.index@ as int;
            target_group.insert(
                plan_target.path.to_string(),
                TargetRunResult {
                    status,
                    code: None,
                    runtime_secs: None,
                },
            );
@            assert(*plan_target == plan_targets@[kk]);
@            assert(target_group@.dom() =~= m0.dom().insert(plan_targets@[kk].path@));
@            assert(target_group@[plan_targets@[kk].path@].status == RunStatus::Skipped);
@            assert forall|p: Seq<char>| #[trigger] target_group@.dom().contains(p) implies target_group@[p].status == RunStatus::Skipped && exists|k: int| 0 <= k < kk + 1 && #[trigger] plan_targets@[k].path@ == p by {
@                if p == plan_targets@[kk].path@ { } else { assert(m0.dom().contains(p)); let k = choose|k: int| 0 <= k < kk && #[trigger] plan_targets@[k].path@ == p; assert(plan_targets@[k].path@ == p); }
@            }
        }
@        let ghost g0 = crr.target_groups@;
        crr.target_groups.push(target_group);
@        assert forall|g: int| 0 <= g < g0.len() implies crr.target_groups@[g] == g0[g] by { }
    }
    crr
}
//!end

pub open spec fn runnable(pt: PlanTarget) -> bool { pt.command_path is Some && file::is_exec(pt.command_path->Some_0@) }
pub open spec fn not_exec(pt: PlanTarget) -> bool { pt.command_path is Some && !file::is_exec(pt.command_path->Some_0@) }
//!fn src/app/run.rs schedule_task rules=R1,R7,R10 props=C05,C06,C16,C04,C15
async fn schedule_task(
    task__0: CommandTask,
    plan_target: &PlanTarget,
    join_set: &mut tokio::task::JoinSet<Result<CommandTaskFinishInfo, CommandTaskCancelInfo>>,
    abort_table: &mut HashMap<tokio::task::Id, usize>,
    result_target_group: &mut HashMap<String, TargetRunResult>,
    fail_on_undefined: bool,
 Tracked(w): Tracked<&mut World>) -> ⟦(res: ⟧Result<bool, MonorailError>⟦)⟧
@    requires
@        ids_ok(old(join_set).ids, old(abort_table)@, task__0.id as int + 1),
@    ensures
@        final(w).cur_c == old(w).cur_c, final(w).cur_g == old(w).cur_g, final(w).fail_point == old(w).fail_point, final(w).bad_joins == old(w).bad_joins,
@        final(w).grp_begin == old(w).grp_begin, final(w).sched_end == old(w).sched_end,
@        // C05 / C16: at most one Start, for this task, and no suspension on any other member (the trace gains nothing else)
@        (final(w).trace == old(w).trace && final(join_set).pending == old(join_set).pending)
@        || (final(w).trace == old(w).trace.push(Ev::Start { c: old(w).cur_c, g: old(w).cur_g, t: task__0.id as int })
@            && final(join_set).pending == old(join_set).pending.insert(task__0.id as int)), // [C05,C16]
@        // C05 / C06: an executable is started exactly when the target defines the command and the file is executable; never otherwise
@        res is Ok ==> ((final(w).trace != old(w).trace) <==> runnable(*plan_target)), // [C05,C06]
@        plan_target.command_path is None ==> final(w).trace == old(w).trace, // [C05]
@        // C06: the failure flag is exactly "not executable, or undefined under --fail-on-undefined", and then nothing was started
@        res matches Ok(f) ==> (f <==> (not_exec(*plan_target) || (plan_target.command_path is None && fail_on_undefined))), // [C06]
@        res matches Ok(f) ==> (f ==> final(w).trace == old(w).trace), // [C06]
@        // C06: `undefined` / `not_executable` entries are recorded with no process started
@        (res is Ok && plan_target.command_path is None) ==> final(result_target_group)@.dom().contains(plan_target.path@) && final(result_target_group)@[plan_target.path@].status == RunStatus::Undefined, // [C06]
@        (res is Ok && not_exec(*plan_target)) ==> final(result_target_group)@.dom().contains(plan_target.path@) && final(result_target_group)@[plan_target.path@].status == RunStatus::NotExecutable, // [C06]
@        ids_ok(final(join_set).ids, final(abort_table)@, task__0.id as int + 1),
@        res matches Err(e) ==> !from_listener(e), // [C15]
{ let mut task = task__0;
@    broadcast use axiom_to_string_string;
    let mut failed = false;
    if let Some(command_path) = &plan_target.command_path {
        // check that the command path is executable before proceeding
        if file::is_executable(command_path) {
            let status = RunStatus::Scheduled;
            let task_id = task.id;
            let child = spawn_task(
                &plan_target.command_work_path,
                command_path,
                &plan_target.command_args,
            )?;
            let handle = join_set.spawn_task_run(task, child, Tracked(w));
            abort_table.insert(handle.id(), task_id);
@            assert(w.trace != old(w).trace) by { assert(w.trace.len() == old(w).trace.len() + 1); }
        } else {
            let status = RunStatus::NotExecutable;
            result_target_group.insert(
                plan_target.path.to_string(),
                TargetRunResult {
                    status,
                    code: None,
                    runtime_secs: None,
                },
            );
            failed = true;
        }
    } else {
        let status = RunStatus::Undefined;
        result_target_group.insert(
            plan_target.path.to_string(),
            TargetRunResult {
                status,
                code: None,
                runtime_secs: None,
            },
        );
        if fail_on_undefined {
            failed = true;
        }
    }
    Ok(failed)
}
//!end

//!fn src/app/run.rs process_task_results rules=R1,R7,R10 props=C04,C06,C15,C05
async fn process_task_results(
    js__0: tokio::task::JoinSet<Result<CommandTaskFinishInfo, CommandTaskCancelInfo>>,
    target_group: &[PlanTarget],
    token: &sync::Arc<tokio_util::sync::CancellationToken>,
    abort_table: HashMap<tokio::task::Id, usize>,
    command: &str,
    result_target_group: &mut HashMap<String, TargetRunResult>,
 Tracked(w): Tracked<&mut World>) -> ⟦(res: ⟧Result<bool, MonorailError>⟦)⟧
@    requires
@        good(old(w).trace), old(w).sched_end == old(w).trace.len(),
@        draining(old(w).trace, old(w).grp_begin, old(w).sched_end, old(w).cur_c, old(w).cur_g, js__0.pending),
@        forall|t: int| js__0.pending.contains(t) ==> 0 <= t < target_group@.len(),
@        ids_ok(js__0.ids, abort_table@, target_group@.len() as int),
@    ensures
@        final(w).cur_c == old(w).cur_c, final(w).cur_g == old(w).cur_g, final(w).fail_point == old(w).fail_point,
@        final(w).grp_begin == old(w).grp_begin, final(w).sched_end == old(w).sched_end,
@        good(final(w).trace),
@        final(w).trace.len() >= old(w).trace.len(),
@        forall|i: int| 0 <= i < old(w).trace.len() ==> final(w).trace[i] == old(w).trace[i],
@        // C04: on return every task spawned into the set has exited (the set was drained)
@        res is Ok ==> draining(final(w).trace, old(w).grp_begin, old(w).sched_end, old(w).cur_c, old(w).cur_g, Set::<int>::empty()), // [C04]
@        // C04 / C16: joining starts nothing
@        forall|i: int| #![trigger final(w).trace[i]] old(w).trace.len() <= i < final(w).trace.len() ==> !is_start(final(w).trace[i]), // [C04,C16]
@        // C06: the group is reported failed exactly when some joined task failed (non-zero exit, or a task error)
@        res matches Ok(f) ==> (f <==> final(w).bad_joins > old(w).bad_joins), // [C06]
@        final(w).bad_joins >= old(w).bad_joins,
@        res matches Err(e) ==> !from_listener(e), // [C15]
{ let mut js = js__0;
    let mut failed = false;
@    let ghost tr0 = w.trace;
@    let ghost c = w.cur_c;
@    let ghost g = w.cur_g;
@    let ghost b = w.grp_begin;
@    let ghost e = w.sched_end;
@    let ghost bj0 = w.bad_joins;
@    let ghost mut trb = w.trace;
@    let ghost mut pb = js.pending;
@    let ghost mut bjb = w.bad_joins;
@    let ghost mut okj: Set<int> = Set::empty();
    while let Some(join_res) = js.join_next(Tracked(w)).await
@        invariant
@            // C05: every task whose future completed (whatever it reports: success, a non-zero exit, a task error such as a cancelled
@            // log reader) has its entry in the group's result table - a planned (command, target) pair never goes missing
@            forall|t: int| #![trigger okj.contains(t)] okj.contains(t) ==> 0 <= t < target_group@.len() && result_target_group@.dom().contains(target_group@[t].path@), // [C05]
@            trb == w.trace, pb == js.pending, bjb == w.bad_joins, w.fail_point == old(w).fail_point,
@            w.cur_c == c, w.cur_g == g, c == old(w).cur_c, g == old(w).cur_g, tr0 == old(w).trace, bj0 == old(w).bad_joins,
@            w.grp_begin == b, w.sched_end == e, b == old(w).grp_begin, e == old(w).sched_end,
@            good(w.trace), draining(w.trace, b, e, c, g, js.pending),
@            w.trace.len() >= tr0.len(),
@            forall|i: int| 0 <= i < tr0.len() ==> w.trace[i] == tr0[i],
@            forall|i: int| #![trigger w.trace[i]] tr0.len() <= i < w.trace.len() ==> !is_start(w.trace[i]),
@            forall|t: int| js.pending.contains(t) ==> 0 <= t < target_group@.len(),
@            js.ids == js__0.ids, ids_ok(js.ids, abort_table@, target_group@.len() as int),
@            w.bad_joins >= bj0, failed <==> w.bad_joins > bj0,
@        ensures js.pending == Set::<int>::empty(),
@        decreases js.pending.len(),
    {
@        broadcast use axiom_to_string_string;
@        let ghost tj: int;
@        proof {
@            let t = choose|t: int| #![trigger pb.contains(t)] pb.contains(t) && js.pending == pb.remove(t)
@                && w.trace == trb.push(Ev::Exit { c, g, t })
@                && (join_res matches Ok(v) ==> v.tid() == t && w.bad_joins == bjb + (if v.bad() { 1nat } else { 0nat }))
@                && (join_res matches Err(er) ==> js.ids.dom().contains(er.i) && js.ids[er.i] == t && w.bad_joins == bjb);
@            tj = t;
@            if join_res is Ok { okj = okj.insert(t); }
@            lemma_push_exit(trb, Ev::Exit { c, g, t });
@            lemma_drain_step(trb, b, e, c, g, pb, t);
@            trb = w.trace; pb = js.pending; bjb = w.bad_joins;
@        }
        match join_res {
            Ok(task_res) => {
                match task_res {
                    Ok(info) => {
                        let plan_target = &target_group[info.id];
                        if info.status.success() {
                            let status = RunStatus::Success;
                            result_target_group.insert(
                                plan_target.path.to_string(),
                                TargetRunResult {
                                    status,
                                    code: info.status.code(),
                                    runtime_secs: Some(info.elapsed.as_secs_f32()),
                                },
                            );
                        } else {
                            // TODO: --cancel-on-error option
                            token.cancel();
                            failed = true;
                            let status = RunStatus::Error;
                            result_target_group.insert(
                                plan_target.path.to_string(),
                                TargetRunResult {
                                    status,
                                    code: info.status.code(),
                                    runtime_secs: Some(info.elapsed.as_secs_f32()),
                                },
                            );
                        }
                    }
                    Err(info) => {
                        // TODO: --cancel-on-error option
                        token.cancel();
                        failed = true;

                        let plan_target = &target_group[info.id];
                        result_target_group.insert(
                            plan_target.path.to_string(),
                            TargetRunResult {
                                status: info.status,
                                code: None,
                                runtime_secs: Some(info.elapsed.as_secs_f32()),
                            },
                        );
                    }
                }
            }
            Err(e) => {
                if e.is_cancelled() {
                    let run_data_index = abort_table
                        .get(&e.id())
                        .ok_or(MonorailError::from("Task id missing from abort table"))?;
                    let plan_target = &target_group[*run_data_index];
                    let status = RunStatus::Cancelled;

                    result_target_group.insert(
                        plan_target.path.to_string(),
                        TargetRunResult {
                            status,
                            code: None,
                            runtime_secs: None,
                        },
                    );
                }
            }
        }
    }
    Ok(failed)
}
//!end

// ASSUMED here (initialize_compressor is under contract in unit compress: the i-th pair routes into the i-th target's two archives): one client pair per target
#[verifier::external_body]
fn initialize_compressor(plan_targets: &[PlanTarget], num_threads: usize) -> (r: Result<(log::Compressor, Vec<(log::CompressorClient, log::CompressorClient)>), MonorailError>)
    ensures r matches Ok(p) ==> p.1@.len() == plan_targets@.len(), r matches Err(e) ==> !from_listener(e)
{ unimplemented!() }

//!fn src/app/run.rs initialize_log_stream rules=R1 props=C15
async fn initialize_log_stream(cfg: &server::LogServerConfig) -> ⟦(r: ⟧Option<log::LogServerClient>⟦)⟧
@    ensures true, // C15: never an error: a failed connect only disables streaming
{
    match log::LogServerClient::connect(cfg).await {
        Ok(client) => Some(client),
        Err(e) => {
            None
        }
    }
}
//!end

//!fn src/app/run.rs process_plan rules=R1,R3,R10,R13 props=C04,C05,C06,C16,C15
async fn process_plan(
    cfg: &core::Config,
    plan: &Plan,
    all_commands: &[&String],
    fail_on_undefined: bool,
 Tracked(w): Tracked<&mut World>) -> ⟦(res: ⟧Result<(Vec<CommandRunResult>, bool), MonorailError>⟦)⟧
@    requires
@        old(w).trace.len() == 0, old(w).fail_point < 0, old(w).bad_joins == 0,
@        forall|i: int| 0 <= i < plan.command_target_groups@.len() ==> (#[trigger] plan.command_target_groups@[i]).command_index < all_commands@.len(),
@    ensures
@        // on every exit path (including every `?`):
@        // C04: a Start of a later (command, group) comes after the Exit of every Start of an earlier one
@        ordered(final(w).trace), // [C04]
@        // C05: no (command, group, target) is started twice
@        uniq_starts(final(w).trace), // [C05]
@        // C16: between two Starts of one group there are only Starts - nothing is awaited until all members are started
@        grouped(final(w).trace), // [C16]
@        // C06: once the run has failed no executable is started any more, and the reported flag is the latch
@        res matches Ok(p) ==> latched(final(w).trace, p.1, final(w).fail_point), // [C06]
@        res matches Ok(p) ==> (!p.1 ==> final(w).bad_joins == 0), // [C06]
@        // C05: one result per planned command
@        res matches Ok(p) ==> p.0@.len() == plan.command_target_groups@.len(), // [C05]
@        // C15: whatever makes the run fail with an error, it is not the optional log listener (absent, unreachable, or failing mid-handshake)
@        res matches Err(e) ==> !from_listener(e), // [C15]
{
    // TODO: parameterize addr from cfg
    let log_stream_client = initialize_log_stream(&cfg.server.log).await;

    let mut results⟦: Vec<CommandRunResult>⟧ = Vec::new();
    let mut failed = false;
@    proof { assert(good(w.trace)); assert(settled(w.trace, 0, 0, 0)); }

    for plan_command_target_group in ⟦itc: ⟧&plan.command_target_groups
@        invariant
@            good(w.trace), settled(w.trace, w.trace.len() as int, itc.index@ as int, 0), latched(w.trace, failed, w.fail_point),
@            !failed ==> w.bad_joins == 0,
@            results@.len() == itc.index@,
@            itc.seq().len() == plan.command_target_groups@.len(),
@            forall|j: int| 0 <= j < itc.seq().len() ==> *itc.seq()[j] == plan.command_target_groups@[j],
@            forall|i: int| 0 <= i < plan.command_target_groups@.len() ==> (#[trigger] plan.command_target_groups@[i]).command_index < all_commands@.len(),
    {
@        let ghost ci = itc.index@ as int;
        let command = &all_commands[plan_command_target_group.command_index];
        if failed {
            results.push(create_skipped_result(
                command,
                &plan_command_target_group.target_groups,
            ));
@            proof { lemma_settled_mono(w.trace, w.trace.len() as int, ci, 0, ci + 1, 0); }
        } else {

        let mut crr = CommandRunResult::new(command);

@        let ghost mut gi_end: int = 0;
        for plan_targets in ⟦itg: ⟧plan_command_target_group.target_groups.iter()
@            invariant
@                good(w.trace), settled(w.trace, w.trace.len() as int, ci, itg.index@ as int), gi_end == itg.index@, latched(w.trace, failed, w.fail_point),
@                !failed ==> w.bad_joins == 0,
        {
@            let ghost gi = itg.index@ as int;
@            proof { w.cur_c = ci; w.cur_g = gi; w.grp_begin = w.trace.len() as int; }
@            let ghost b = w.trace.len() as int;
            let token = sync::Arc::new(tokio_util::sync::CancellationToken::new());
            let mut abort_table⟦: HashMap<tokio::task::Id, usize>⟧ = HashMap::new();
            let mut result_target_group⟦: HashMap<String, TargetRunResult>⟧ = HashMap::new();
            let mut js⟦: tokio::task::JoinSet<Result<CommandTaskFinishInfo, CommandTaskCancelInfo>>⟧ = tokio::task::JoinSet::new();
            let (mut compressor, compressor_clients) = initialize_compressor(plan_targets, 2)?;
            let compressor_handle = thread::spawn_compressor_run(compressor);
            // schedule all plantargets for this command
@            proof { assert(pending_is_started(w.trace, b, ci, gi, js.pending)); }
            for id in 0..plan_targets.len()
@                invariant
@                    w.cur_c == ci, w.cur_g == gi, w.grp_begin == b, 0 <= b <= w.trace.len(),
@                    good(w.trace), settled(w.trace, b, ci, gi), scheduling(w.trace, b, ci, gi, id as int),
@                    pending_is_started(w.trace, b, ci, gi, js.pending), latched(w.trace, failed, w.fail_point),
@                    !failed ==> w.bad_joins == 0,
@                    compressor_clients@.len() == plan_targets@.len(),
@                    ids_ok(js.ids, abort_table@, id as int),
            { let plan_target = &plan_targets[id];
                let target = sync::Arc::new(plan_target.path.clone());
                if !failed {
                    let command = sync::Arc::new(command.to_string());
                    let clients = &compressor_clients[id];
                    let ct = CommandTask {
                        id,
                        token: token.clone(),
                        target,
                        command,
                        stdout_client: clients.0.clone(),
                        stderr_client: clients.1.clone(),
                        log_stream_client: log_stream_client.clone(),
                        start_time: time::Instant::now(),
                    };
@                    proof {
@                        lemma_push_start(w.trace, b, ci, gi, id as int);
@                        lemma_pending_push(w.trace, b, ci, gi, js.pending, id as int);
@                    }
                    if schedule_task(
                        ct,
                        plan_target,
                        &mut js,
                        &mut abort_table,
                        &mut result_target_group,
                        fail_on_undefined,
                    Tracked(w))
                    .await?
                    {
                        // prevent any additional tasks from being scheduled
                        failed = true;
@                        proof { if w.fail_point < 0 { w.fail_point = w.trace.len() as int; } }
                    }
                } else {
                    result_target_group.insert(
                        target.to_string(),
                        TargetRunResult {
                            status: RunStatus::Skipped,
                            code: None,
                            runtime_secs: None,
                        },
                    );
                }
            }
@            proof { lemma_sched_to_drain(w.trace, b, ci, gi, plan_targets@.len() as int, js.pending); w.sched_end = w.trace.len() as int; }
@            let ghost tr_s = w.trace;
@            let ghost e_s = w.trace.len() as int;
            if process_task_results(
                js,
                plan_targets,
                &token,
                abort_table,
                command,
                &mut result_target_group,
            Tracked(w))
            .await?
            {
                failed = true;
@                proof { if w.fail_point < 0 { w.fail_point = w.trace.len() as int; } }
            }
@            proof {
@                // the scheduling-phase facts about the prefix survive: the prefix is unchanged
@                assert(settled(w.trace, b, ci, gi)) by {
@                    assert forall|i: int| #![trigger w.trace[i]] 0 <= i < b && is_start(w.trace[i]) implies exited_in(w.trace, i, b) && lt(ev_c(w.trace[i]), ev_g(w.trace[i]), ci, gi) by {
@                        assert(w.trace[i] == tr_s[i]);
@                        assert(exited_in(tr_s, i, b));
@                        let k = choose|k: int| i < k < b && #[trigger] tr_s[k] == exit_of(tr_s[i]);
@                        assert(w.trace[k] == tr_s[k]);
@                    }
@                }
@                lemma_drain_done(w.trace, b, e_s, ci, gi, ci, gi + 1);
@            }

            crr.target_groups.push(result_target_group);

            for client in ⟦itk: ⟧compressor_clients
@                invariant good(w.trace), settled(w.trace, w.trace.len() as int, ci, gi + 1), latched(w.trace, failed, w.fail_point), !failed ==> w.bad_joins == 0,
            {
                client.0.shutdown(Tracked(w)).await?;
                client.1.shutdown(Tracked(w)).await?;
            }
            // Unwrap for thread dyn Any panic contents, which isn't easily mapped to a MonorailError
            // because it doesn't impl Error; however, the internals of this handle do, so they
            // will get propagated.
            compressor_handle.join().unwrap()?;
@            proof { gi_end = gi_end + 1; }
        }
        results.push(crr);
@        proof { lemma_settled_mono(w.trace, w.trace.len() as int, ci, gi_end, ci + 1, 0); }
        }
    }

    Ok((results, failed))
}
//!end

// ---- get_header: total (never panics) whatever the names are; it runs inside every task after the process was started ----
//!const src/app/log.rs STDOUT_FILE
pub const STDOUT_FILE: &⟦'static ⟧str = "stdout.zst";
//!end
//!const src/app/log.rs STDERR_FILE
pub const STDERR_FILE: &⟦'static ⟧str = "stderr.zst";
//!end
//!const src/app/log.rs RESET_COLOR
pub const RESET_COLOR: &⟦'static ⟧str = "\x1b[0m";
//!end
//!fn src/app/log.rs get_header rules=R16 props=C04,C20
pub(crate) fn get_header(filename: &str, target: &str, command: &str, color: bool) -> String {
    if color {
        let filename_color = match filename {
            STDOUT_FILE => "\x1b[38;5;81m",
            STDERR_FILE => "\x1b[38;5;214m",
            _ => "",
        };
        fmt_opaque()
    } else {
        fmt_opaque()
    }
}
//!end
} // verus!
fn main() {}
