// Run-time finder for unit `runexec` (child module of app::run in a scratch copy of the crate; never the deciding step).
// Drives the REAL handle_run / process_plan with shell children that record their start and end, and checks the executable
// form of the trace contracts: ordered (C04), each pair once (C05), failure latch and statuses (C06), group rendezvous (C16).
use super::*;
use std::os::unix::fs::PermissionsExt;

fn script(dir: &std::path::Path, name: &str, body: &str) {
    std::fs::create_dir_all(dir).unwrap();
    let p = dir.join(name);
    std::fs::write(&p, format!("#!/bin/bash\n{}\n", body)).unwrap();
    let mut perm = std::fs::metadata(&p).unwrap().permissions();
    perm.set_mode(0o755);
    std::fs::set_permissions(&p, perm).unwrap();
}
fn input<'a>(commands: Vec<&'a String>) -> HandleRunInput<'a> {
    HandleRunInput { git_opts: git::GitOptions::default(), commands, sequences: vec![], targets: HashSet::new(), args: vec![], argmaps: vec![],
        include_deps: false, fail_on_undefined: false, use_base_argmaps: false }
}

#[tokio::test(flavor = "multi_thread", worker_threads = 4)]
async fn vf_group_rendezvous() {
    // C16: every member of a group waits until all members have started; the group must complete for any size
    let (mut checked, mut bad) = (0u64, 0u64);
    // the last case: 300 members that report progress on stderr for ~3 s (no rendezvous): more flushes than a compressor channel
    // holds (1000), so stderr must be drained while the group runs
    for (n, noisy) in [(2usize, false), (12, false), (40, false), (3, true), (300, false)] {
        checked += 1;
        let td = crate::core::testing::new_testdir().unwrap();
        let wp = td.path();
        let marks = wp.join("marks");
        std::fs::create_dir_all(&marks).unwrap();
        let mut targets = vec![];
        for i in 0..n {
            let t = format!("t{:03}", i);
            // noisy: a member fills far more than a pipe buffer on stderr (and some stdout) BEFORE it checks in - its output must be
            // drained concurrently, or it never reaches the rendezvous
            let pre = if noisy { "head -c 300000 /dev/zero | tr '\\0' 'e' 1>&2\necho started\n" } else { "" };
            if n == 300 { script(&wp.join(&t).join("monorail/cmd"), "meet.sh", "for k in 1 2 3 4 5 6 7; do echo \"progress $k\" 1>&2; sleep 0.45; done\nexit 0"); targets.push(format!("{{\"path\":\"{}\"}}", t)); continue; }
            // in the group of 12 every third member's command file is a symbolic link to one shared script (it finds its own name
            // from its working directory): such a member is a member like any other
            if n == 12 && i % 3 == 1 {
                script(&wp.join("shared"), "meet_shared.sh", &format!(
                    "t=$(basename \"$PWD\")\ntouch '{m}'/\"$t\"\nfor k in $(seq 1 160); do c=$(ls '{m}' | wc -l); if [ \"$c\" -ge {n} ]; then exit 0; fi; sleep 0.05; done\nexit 1", m = marks.display(), n = n));
                std::fs::create_dir_all(wp.join(&t).join("monorail/cmd")).unwrap();
                std::os::unix::fs::symlink(wp.join("shared/meet_shared.sh"), wp.join(&t).join("monorail/cmd/meet.sh")).unwrap();
                targets.push(format!("{{\"path\":\"{}\"}}", t));
                continue;
            }
            script(&wp.join(&t).join("monorail/cmd"), "meet.sh", &format!(
                "{pre}touch '{m}/{t}'\nfor k in $(seq 1 160); do c=$(ls '{m}' | wc -l); if [ \"$c\" -ge {n} ]; then exit 0; fi; sleep 0.05; done\nexit 1", m = marks.display(), t = t, n = n, pre = pre));
            // ... and every third member's command file is executable for its owner only (0700 / 0744 / 0750): it is a member like any other
            if n == 12 && i % 3 == 2 {
                let p = wp.join(&t).join("monorail/cmd/meet.sh");
                let mut perm = std::fs::metadata(&p).unwrap().permissions(); perm.set_mode([0o700, 0o744, 0o750][(i / 3) % 3]); std::fs::set_permissions(&p, perm).unwrap();
            }
            targets.push(format!("{{\"path\":\"{}\"}}", t));
        }
        let cfg: core::Config = serde_json::from_str(&format!("{{\"targets\":[{}]}}", targets.join(","))).unwrap();
        let cmd = "meet".to_string();
        let o = match tokio::time::timeout(std::time::Duration::from_secs(25), handle_run(&cfg, &input(vec![&cmd]), "x", wp)).await {
            Ok(o) => o, Err(_) => Err(MonorailError::from("the run did not return within 25 s")) };
        let ok = matches!(&o, Ok(out) if !out.failed);
        if !ok {
            bad += 1;
            println!("VF-FAIL one group of {} targets{}, each waiting until all {} have started :: the group did not complete (failed={:?}); members must be started without waiting for one another (C16)", n, if noisy { " (each writing 300 KB to stderr first)" } else { "" }, n, o.as_ref().map(|x| x.failed).map_err(|e| e.to_string()));
        }
    }
    println!("VF-SUMMARY test=group_rendezvous checked={} nontrivial={} bad={}", checked, checked, bad);
}

fn parse_trace(p: &std::path::Path) -> Vec<(String, String, String)> {
    std::fs::read_to_string(p).unwrap_or_default().lines().filter_map(|l| { let v: Vec<&str> = l.split_whitespace().collect(); if v.len() == 3 { Some((v[0].to_string(), v[1].to_string(), v[2].to_string())) } else { None } }).collect()
}

#[tokio::test(flavor = "multi_thread", worker_threads = 4)]
async fn vf_order_latch_and_statuses() {
    // chain: app uses lib, lib uses base (so groups are [base], [lib], [app]) plus an independent `side` (in the first group);
    // dependencies are SLOWER than dependents. Commands: first, second.
    let (mut checked, mut bad) = (0u64, 0u64);
    // an injected code of -9 means: the process kills itself with SIGKILL (no exit code at all)
    for fail in [None, Some(("first", "lib", 3)), Some(("first", "base", 7)), Some(("second", "app", 1)), Some(("first", "lib", -9)), Some(("second", "base", -9))] {
        checked += 1;
        let td = crate::core::testing::new_testdir().unwrap();
        let wp = td.path();
        let trace = wp.join("trace.txt");
        let tnames = ["base", "lib", "app", "side"];
        for t in tnames {
            for c in ["first", "second"] {
                let delay = match t { "base" => "0.30", "lib" => "0.15", _ => "0.01" };
                let code = match fail { Some((fc, ft, code)) if fc == c && ft == t => code, _ => 0 };
                script(&wp.join(t).join("monorail/cmd"), &format!("{}.sh", c), &(if code == -9 { format!("echo \"S {c} {t}\" >> '{tr}'\nsleep {d}\nkill -9 $$\nsleep 5", c = c, t = t, tr = trace.display(), d = delay) } else { format!("echo \"S {c} {t}\" >> '{tr}'\nsleep {d}\necho \"E {c} {t}\" >> '{tr}'\nexit {code}", c = c, t = t, tr = trace.display(), d = delay, code = code) }));
            }
        }
        let cfg: core::Config = serde_json::from_str(r#"{"targets":[{"path":"app","uses":["lib"]},{"path":"side"},{"path":"lib","uses":["base"]},{"path":"base"}]}"#).unwrap();
        let (c1, c2) = ("first".to_string(), "second".to_string());
        let o = handle_run(&cfg, &input(vec![&c1, &c2]), "x", wp).await;
        let tr = parse_trace(&trace);
        let deps = |t: &str| -> Vec<&str> { match t { "app" => vec!["lib", "base"], "lib" => vec!["base"], _ => vec![] } };
        // the failure latch is judged on the groups the run itself reports (order of out.results[..].target_groups)
        let cidx = |c: &str| if c == "first" { 0 } else { 1 };
        let mut why: Option<String> = None;
        // C04: a target starts only after everything it depends on has exited (same command), and after every executable of the previous command has exited
        for (i, (k, c, t)) in tr.iter().enumerate() {
            if k != "S" { continue; }
            for (k2, c2n, t2) in tr.iter() {
                if k2 != "S" { continue; }
                let earlier = cidx(c2n) < cidx(c) || (c2n == c && deps(t).contains(&t2.as_str()));
                if earlier {
                    let ended_before = tr[..i].iter().any(|(k3, c3, t3)| k3 == "E" && c3 == c2n && t3 == t2);
                    if !ended_before { why = Some(format!("`{} {}` started before `{} {}` had exited (C04)", c, t, c2n, t2)); }
                }
            }
        }
        // C05: no pair started twice
        for (i, a) in tr.iter().enumerate() { if a.0 == "S" && tr[..i].iter().any(|b| b == a) { why = Some(format!("`{} {}` was started twice (C05)", a.1, a.2)); } }
        match &o {
            Ok(out) => {
                // C06: failed flag, latch, statuses
                let expect_failed = fail.is_some();
                if out.failed != expect_failed { why = Some(format!("failed={} reported but a child exit code {:?} was injected (C06)", out.failed, fail)); }
                if let Some((fc, ft, code)) = fail {
                    let crr = &out.results[cidx(fc)];
                    let gidx = |t: &str| crr.target_groups.iter().position(|g| g.contains_key(t)).unwrap_or(usize::MAX);
                    for (k, c, t) in tr.iter() { if k == "S" && (cidx(c) > cidx(fc) || (c == fc && gidx(t) > gidx(ft) && gidx(t) != usize::MAX)) { why = Some(format!("`{} {}` was started after `{} {}` had failed (C06)", c, t, fc, ft)); } }
                    let trr = crr.target_groups.iter().find_map(|g| g.get(ft));
                    if code == -9 { if !matches!(trr, Some(r) if r.status == RunStatus::Error && r.code.is_none()) { why = Some(format!("the entry `{} {}` of a process killed by SIGKILL is reported as {:?}; it did not run to completion and has no exit code (C06)", fc, ft, trr.map(|r| (format!("{:?}", r.status), r.code)))); } }
                    else if !matches!(trr, Some(r) if r.status == RunStatus::Error && r.code == Some(code)) { why = Some(format!("the failing entry `{} {}` is not reported as error with code {} (C06)", fc, ft, code)); }
                }
                for (ci, crr) in out.results.iter().enumerate() {
                    let cname = if ci == 0 { "first" } else { "second" };
                    let mut seen: Vec<&String> = vec![];
                    for g in &crr.target_groups { for (t, r) in g {
                        if seen.contains(&t) { why = Some(format!("`{} {}` appears twice in the result document (C05)", cname, t)); }
                        seen.push(t);
                        let started = tr.iter().any(|(k, c, tt)| k == "S" && c == cname && tt == t);
                        let ended = tr.iter().any(|(k, c, tt)| k == "E" && c == cname && tt == t);
                        match r.status {
                            RunStatus::Success => if !(started && ended) || r.code != Some(0) { why = Some(format!("`{} {}` reported success without a completed process with exit code 0 (C06)", cname, t)); },
                            RunStatus::Skipped | RunStatus::Undefined | RunStatus::NotExecutable => if started { why = Some(format!("`{} {}` reported {:?} but a process was started (C06)", cname, t, r.status)); },
                            _ => {}
                        }
                    } }
                    if seen.len() != tnames.len() { why = Some(format!("command `{}` reports {} targets, {} were planned (C05)", cname, seen.len(), tnames.len())); }
                }
            }
            Err(e) => { why = Some(format!("handle_run failed: {} (C06)", e)); }
        }
        if let Some(w) = why { bad += 1; println!("VF-FAIL chain base<-lib<-app + side, commands first,second, injected failure {:?} :: {}", fail, w); }
    }
    println!("VF-SUMMARY test=order_latch_and_statuses checked={} nontrivial={} bad={}", checked, checked, bad);
}

#[tokio::test(flavor = "multi_thread", worker_threads = 4)]
async fn vf_listener_failures_at_connect() {
    // C15: the optional log listener being absent, or answering and then failing at any stage of the handshake, never fails the run
    let (mut checked, mut bad) = (0u64, 0u64);
    for mode in ["no listener", "accepts and closes at once", "accepts and sends a line that is not the expected JSON", "accepts and sends half a line, then closes",
                 "accepts, sends valid arguments, then closes", "accepts, sends valid arguments asking for stdout, then closes",
                 "accepts, asks for both streams of everything, then reads to the end",
                 "accepts, sends long target and command filters in a non-Latin script, then reads to the end",
                 "accepts, sends long target and command filters in a non-Latin script (shifted by one byte), then reads to the end",
                 "accepts, sends long target and command filters in a non-Latin script (shifted by two bytes), then reads to the end"] {
        checked += 1;
        let td = crate::core::testing::new_testdir().unwrap();
        let wp = td.path();
        // the command also writes one line far longer than any staging buffer a client of the listener might use
        script(&wp.join("t1/monorail/cmd"), "hello.sh", "echo hello; echo err 1>&2; head -c 70000 /dev/zero | tr '\\0' 'L'; echo; exit 0");
        let l = std::net::TcpListener::bind("127.0.0.1:0").unwrap();
        let port = l.local_addr().unwrap().port();
        let m = mode.to_string();
        let server = if mode == "no listener" { drop(l); None } else {
            Some(std::thread::spawn(move || {
                use std::io::Write;
                l.set_nonblocking(false).unwrap();
                if let Ok((mut s, _)) = l.accept() {
                    match m.as_str() {
                        "accepts and closes at once" => {}
                        "accepts and sends a line that is not the expected JSON" => { let _ = s.write_all(b"hello there\n"); }
                        "accepts and sends half a line, then closes" => { let _ = s.write_all(b"{\"commands\":[\"a\"],"); }
                        "accepts, sends valid arguments, then closes" => { let _ = s.write_all(b"{\"commands\":[],\"targets\":[],\"include_stdout\":false,\"include_stderr\":false}\n"); }
                        "accepts, asks for both streams of everything, then reads to the end" => {
                            let _ = s.write_all(b"{\"commands\":[],\"targets\":[],\"include_stdout\":true,\"include_stderr\":true}\n");
                            use std::io::Read; let mut sink = Vec::new(); let _ = s.read_to_end(&mut sink);
                        }
                        x if x.starts_with("accepts, sends long target and command filters in a non-Latin script") => {
                            // filters a listener may well have: one long name that is not ASCII (the banner the client sends back names it); with
                            // 0, 1 or 2 ASCII bytes in front, every byte offset falls inside a character in one of the three
                            let shift = if x.contains("one byte") { "a" } else if x.contains("two bytes") { "ab" } else { "" };
                            let name = format!("\"{}{}\"", shift, "\u{30b5}\u{30fc}\u{30d3}\u{30b9}\u{6a5f}\u{80fd}\u{30e2}\u{30b8}\u{30e5}\u{30fc}\u{30eb}".repeat(5));
                            let _ = s.write_all(format!("{{\"commands\":[{}],\"targets\":[{}],\"include_stdout\":true,\"include_stderr\":true}}\n", name, name).as_bytes());
                            use std::io::Read; let mut sink = Vec::new(); let _ = s.read_to_end(&mut sink);
                        }
                        _ => { let _ = s.write_all(b"{\"commands\":[],\"targets\":[],\"include_stdout\":true,\"include_stderr\":true}\n"); }
                    }
                    drop(s);
                }
            }))
        };
        let cfg: core::Config = serde_json::from_str(&format!("{{\"targets\":[{{\"path\":\"t1\"}}],\"server\":{{\"log\":{{\"port\":{}}},\"lock\":{{}}}}}}", port)).unwrap();
        let cmd = "hello".to_string();
        // the run is driven on a thread of its own, so that a panic inside it is an outcome to report, not the end of the finder
        let wp2 = wp.to_path_buf();
        let joined = std::thread::spawn(move || {
            let rt = tokio::runtime::Builder::new_multi_thread().worker_threads(2).enable_all().build().unwrap();
            rt.block_on(async { match tokio::time::timeout(std::time::Duration::from_secs(20), handle_run(&cfg, &input(vec![&cmd]), "x", &wp2)).await {
                Ok(o) => o.map(|x| (x.failed, x.results.iter().flat_map(|c| c.target_groups.iter()).flat_map(|g| g.iter().map(|(t, r)| format!("{}={}", t, r.status.as_str()))).collect::<Vec<_>>())).map_err(|e| e.to_string()),
                Err(_) => Err("the run did not return within 20 s".to_string()) } })
        }).join();
        let o: Result<(bool, Vec<String>), String> = match joined { Ok(r) => r, Err(_) => Err("the run PANICKED".to_string()) };
        // the one target must be reported, as a success: a task that dies on the way (say inside the code that streams to the listener)
        // leaves no entry at all
        let ok = matches!(&o, Ok((false, st)) if *st == vec!["t1=success".to_string()]);
        if !ok {
            bad += 1;
            println!("VF-FAIL run of one succeeding command with the log listener in state `{}` :: the run did not succeed ({:?}); a listener - whatever it sends, whatever becomes of it - must only affect streaming (C15)", mode, o);
        }
        if let Some(h) = server { if mode != "no listener" && !h.is_finished() { let _ = std::net::TcpStream::connect(("127.0.0.1", port)); } let _ = h.join(); }
    }
    println!("VF-SUMMARY test=listener_failures_at_connect checked={} nontrivial={} bad={}", checked, checked - 1, bad);
}

#[tokio::test(flavor = "multi_thread", worker_threads = 4)]
async fn vf_order_with_unusual_target_paths() {
    // C04 / C06 for target paths that are long and not ASCII (they appear in log headers, digests, directory names): the dependent still
    // starts only after its dependency has exited, both are reported, the run does not fail
    let (mut checked, mut bad) = (0u64, 0u64);
    for dep in ["libs/データ変換パイプライン共通部品", "libs/a-very-long-directory-name-that-goes-on-and-on-well-past-forty-bytes/ünïcödé", "libs/短い"] {
        checked += 1;
        let td = crate::core::testing::new_testdir().unwrap();
        let wp = td.path();
        let trace = wp.join("trace.txt");
        for (t, d) in [(dep, "0.4"), ("app", "0.01")] {
            script(&wp.join(t).join("monorail/cmd"), "first.sh", &format!("echo \"S first {n}\" >> '{tr}'\necho out; echo err 1>&2\nsleep {d}\necho \"E first {n}\" >> '{tr}'\nexit 0", n = if t == "app" { "app" } else { "dep" }, tr = trace.display(), d = d));
        }
        let cfg: core::Config = serde_json::from_str(&format!("{{\"targets\":[{{\"path\":\"app\",\"uses\":[\"{}\"]}},{{\"path\":\"{}\"}}]}}", dep, dep)).unwrap();
        let c1 = "first".to_string();
        let o = match tokio::time::timeout(std::time::Duration::from_secs(30), handle_run(&cfg, &input(vec![&c1]), "x", wp)).await { Ok(o) => o, Err(_) => Err(MonorailError::from("the run did not return within 30 s")) };
        let tr = parse_trace(&trace);
        let pos = |k: &str, n: &str| tr.iter().position(|(a, _, c)| a == k && c == n);
        let mut why = None;
        match (pos("S", "app"), pos("E", "dep")) { (Some(sa), Some(ed)) => if sa < ed { why = Some(format!("`app` started before its dependency had exited (events {:?}) (C04)", tr.iter().map(|(a, _, c)| format!("{} {}", a, c)).collect::<Vec<_>>())); }, _ => { why = Some(format!("not both executables ran to completion (events {:?}) (C04)", tr.iter().map(|(a, _, c)| format!("{} {}", a, c)).collect::<Vec<_>>())); } }
        match &o { Ok(out) => { if out.failed { why = Some("the run reports failed=true although both executables exit 0 (C06)".to_string()); }
                let listed: usize = out.results.iter().map(|c| c.target_groups.iter().map(|g| g.len()).sum::<usize>()).sum();
                if listed != 2 && why.is_none() { why = Some(format!("the result document lists {} targets for the command, 2 were run (C05)", listed)); } }
            Err(e) => { why = Some(format!("handle_run failed: {} (C06)", e)); } }
        if let Some(w) = why { bad += 1; println!("VF-FAIL `app` uses `{}` (a {}-byte, non-ASCII target path), one command :: {}", dep, dep.len(), w); }
    }
    println!("VF-SUMMARY test=order_with_unusual_target_paths checked={} nontrivial={} bad={}", checked, checked, bad);
}

// C15 / C14: the log stream address and the lock address are two different endpoints in every spelling of the `server` section that leaves
// ports out: a run (which holds the lock's port for its whole duration) must still be able to reach a listener on the log port.
#[test]
fn vf_server_section_defaults() {
    let (mut checked, mut bad) = (0u64, 0u64);
    let spellings = [
        r#"{"targets":[]}"#,
        r#"{"targets":[],"server":{"log":{},"lock":{}}}"#,
        r#"{"targets":[],"server":{"log":{"host":"127.0.0.1"},"lock":{"host":"127.0.0.1"}}}"#,
        r#"{"targets":[],"server":{"log":{"bind_timeout_ms":500},"lock":{"bind_timeout_ms":500}}}"#,
    ];
    for s in spellings {
        checked += 1;
        match serde_json::from_str::<core::Config>(s) {
            Ok(c) => {
                let (l, k) = (format!("{}:{}", c.server.log.host, c.server.log.port), format!("{}:{}", c.server.lock.host, c.server.lock.port));
                if c.server.log.port != 5918 || l == k {
                    bad += 1;
                    println!("VF-FAIL configuration {} :: log stream address {} (documented default port 5918), lock address {}: the log port must default to 5918 and differ from the lock's (C15) (C14)", s, l, k);
                }
            }
            Err(_) => { checked -= 1; } // a spelling the parser does not accept says nothing about the defaults
        }
    }
    println!("VF-SUMMARY test=server_section_defaults checked={} nontrivial={} bad={}", checked, checked, bad);
}
