// ================= vocabulary: graphs, counting, layering, acyclicity (no repository code) =================
pub open spec fn rows(adj: Seq<Vec<usize>>) -> Seq<Seq<usize>> { adj.map_values(|r: Vec<usize>| r@) }

pub open spec fn wf(adj: Seq<Seq<usize>>, vis: Seq<bool>) -> bool {
    &&& adj.len() == vis.len()
    &&& forall|u: int| 0 <= u < adj.len() ==> (#[trigger] adj[u]).len() <= usize::MAX
    &&& forall|u: int, k: int| 0 <= u < adj.len() && 0 <= k < adj[u].len() ==> (#[trigger] adj[u][k]) < adj.len()
}

pub open spec fn cnt_row(row: Seq<usize>, v: int) -> nat
    decreases row.len()
{
    if row.len() == 0 { 0 } else { cnt_row(row.drop_last(), v) + if row.last() == v { 1nat } else { 0nat } }
}

pub open spec fn cnt(adj: Seq<Seq<usize>>, act: Seq<bool>, v: int, upto: int) -> nat
    decreases upto
{
    if upto <= 0 { 0 } else { cnt(adj, act, v, upto - 1) + if act[upto - 1] { cnt_row(adj[upto - 1], v) } else { 0nat } }
}

proof fn lemma_cnt_row_take(row: Seq<usize>, k: int, v: int)
    requires 0 <= k < row.len()
    ensures cnt_row(row.take(k + 1), v) == cnt_row(row.take(k), v) + if row[k] == v { 1nat } else { 0nat },
{
    assert(row.take(k + 1).drop_last() =~= row.take(k));
}

proof fn lemma_cnt_row_mono(row: Seq<usize>, k: int, v: int)
    requires 0 <= k <= row.len()
    ensures cnt_row(row.take(k), v) <= cnt_row(row, v)
    decreases row.len() - k
{
    if k == row.len() { assert(row.take(k) =~= row); } else {
        lemma_cnt_row_take(row, k, v);
        lemma_cnt_row_mono(row, k + 1, v);
    }
}

proof fn lemma_cnt_row_pos(row: Seq<usize>, v: int)
    requires cnt_row(row, v) > 0
    ensures exists|k: int| 0 <= k < row.len() && row[k] == v
    decreases row.len()
{
    if row.len() == 0 { } else if row.last() == v { assert(row[row.len() - 1] == v); } else {
        lemma_cnt_row_pos(row.drop_last(), v);
        let k = choose|k: int| 0 <= k < row.drop_last().len() && row.drop_last()[k] == v;
        assert(row[k] == v);
    }
}

proof fn lemma_cnt_row_zero(row: Seq<usize>, v: int, k: int)
    requires cnt_row(row, v) == 0, 0 <= k < row.len()
    ensures row[k] != v
    decreases row.len()
{
    if k == row.len() - 1 { } else { lemma_cnt_row_zero(row.drop_last(), v, k); }
}

// deactivating node x removes exactly its row's contribution
proof fn lemma_cnt_deact(adj: Seq<Seq<usize>>, act: Seq<bool>, x: int, v: int, upto: int)
    requires 0 <= x < act.len(), act[x], 0 <= upto <= act.len(), adj.len() == act.len()
    ensures cnt(adj, act, v, upto) == cnt(adj, act.update(x, false), v, upto) + if x < upto { cnt_row(adj[x], v) } else { 0nat }
    decreases upto
{
    if upto > 0 { lemma_cnt_deact(adj, act, x, v, upto - 1); }
}

proof fn lemma_cnt_mono(adj: Seq<Seq<usize>>, act: Seq<bool>, v: int, a: int, b: int)
    requires 0 <= a <= b
    ensures cnt(adj, act, v, a) <= cnt(adj, act, v, b)
    decreases b - a
{
    if a < b { lemma_cnt_mono(adj, act, v, a, b - 1); }
}

// cnt == 0 means no active node has an edge to v
proof fn lemma_cnt_zero(adj: Seq<Seq<usize>>, act: Seq<bool>, v: int, upto: int, u: int, k: int)
    requires cnt(adj, act, v, upto) == 0, 0 <= u < upto, act[u], 0 <= k < adj[u].len()
    ensures adj[u][k] != v
    decreases upto
{
    if u == upto - 1 { lemma_cnt_row_zero(adj[u], v, k); } else { lemma_cnt_zero(adj, act, v, upto - 1, u, k); }
}

// cnt > 0 means some active node has an edge to v
proof fn lemma_cnt_pos(adj: Seq<Seq<usize>>, act: Seq<bool>, v: int, upto: int)
    requires cnt(adj, act, v, upto) > 0
    ensures exists|u: int, k: int| 0 <= u < upto && act[u] && 0 <= k < adj[u].len() && adj[u][k] == v
    decreases upto
{
    if upto <= 0 { } else if act[upto - 1] && cnt_row(adj[upto - 1], v) > 0 {
        let r = adj[upto - 1];
        lemma_cnt_row_pos(r, v);
        let k = choose|k: int| 0 <= k < r.len() && r[k] == v;
        let u = upto - 1;
        assert(0 <= u < upto && act[u] && 0 <= k < adj[u].len() && adj[u][k] == v);
    } else {
        lemma_cnt_pos(adj, act, v, upto - 1);
        let (u, k) = choose|u: int, k: int| 0 <= u < upto - 1 && act[u] && 0 <= k < adj[u].len() && adj[u][k] == v;
        assert(0 <= u < upto && act[u] && 0 <= k < adj[u].len() && adj[u][k] == v);
    }
}

// The layering property of a level assignment (lvl[u] < 0 means "not placed").
pub open spec fn edge_ok(adj: Seq<Seq<usize>>, vis: Seq<bool>, lvl: Seq<int>, u: int, k: int) -> bool {
    (vis[u] && vis[adj[u][k] as int] && lvl[adj[u][k] as int] >= 0) ==> (0 <= lvl[u] < lvl[adj[u][k] as int])
}

proof fn lemma_nfalse_update(d: Seq<bool>, x: int, upto: int)
    requires 0 <= x < d.len(), !d[x], 0 <= upto <= d.len()
    ensures nfalse(d, upto) == nfalse(d.update(x, true), upto) + if x < upto { 1nat } else { 0nat }
    decreases upto
{ if upto > 0 { lemma_nfalse_update(d, x, upto - 1); } }

pub open spec fn act(vis: Seq<bool>, done: Seq<bool>) -> Seq<bool> { Seq::new(vis.len(), |i: int| vis[i] && !done[i]) }
pub open spec fn mem(s: Seq<usize>, v: int) -> bool { exists|i: int| 0 <= i < s.len() && s[i] == v }
pub open spec fn nodup(s: Seq<usize>) -> bool { forall|i: int, j: int| 0 <= i < j < s.len() ==> s[i] != s[j] }
pub open spec fn nfalse(d: Seq<bool>, upto: int) -> nat decreases upto { if upto <= 0 { 0 } else { nfalse(d, upto - 1) + if d[upto - 1] { 0nat } else { 1nat } } }

pub open spec fn edge_inv(adj: Seq<Seq<usize>>, vis: Seq<bool>, done: Seq<bool>, lvl: Seq<int>, u: int, k: int) -> bool {
    let v = adj[u][k] as int;
    (vis[u] && vis[v] && lvl[v] >= 0) ==> (done[u] && lvl[u] < lvl[v])
}

// facts that hold at every loop head; `top` is the largest level that may have been handed out
pub open spec fn core_inv(adj: Seq<Seq<usize>>, vis: Seq<bool>, ind: Seq<usize>, done: Seq<bool>, lvl: Seq<int>, top: int) -> bool {
    let n = adj.len() as int;
    &&& forall|v: int| 0 <= v < n ==> ind[v] == cnt(adj, act(vis, done), v, n)
    &&& forall|v: int| #![trigger lvl[v]] #![trigger ind[v]] 0 <= v < n && lvl[v] >= 0 ==> vis[v] && ind[v] == 0 && lvl[v] <= top
    &&& forall|v: int| #![trigger lvl[v]] #![trigger done[v]] 0 <= v < n && done[v] ==> lvl[v] >= 0
    &&& forall|v: int| #![trigger lvl[v]] #![trigger ind[v]] 0 <= v < n && vis[v] && ind[v] == 0 ==> lvl[v] >= 0
    &&& forall|u: int, k: int| 0 <= u < n && 0 <= k < adj[u].len() ==> edge_inv(adj, vis, done, lvl, u, k)
}

// a queue holding not-yet-done nodes of level l
pub open spec fn queue_ok(q: Seq<usize>, done: Seq<bool>, lvl: Seq<int>, l: int, n: int) -> bool {
    &&& nodup(q)
    &&& forall|i: int| 0 <= i < q.len() ==> q[i] < n && lvl[q[i] as int] == l && !done[q[i] as int]
}
// inserting a fresh node of level l at either end of a queue of level-l nodes keeps it a queue and keeps every
// level-l node in it (written for both ends so that push_front / push_back are interchangeable)
proof fn lemma_queue_insert(q0: Seq<usize>, q1: Seq<usize>, x: usize, done: Seq<bool>, lvl: Seq<int>, l: int, n: int)
    requires
        q1 =~= seq![x].add(q0) || q1 =~= q0.push(x),
        x < n, n == lvl.len(), n == done.len(), lvl[x as int] == l, !done[x as int],
        nodup(q0),
        forall|i: int| 0 <= i < q0.len() ==> q0[i] < n && #[trigger] q0[i] != x && lvl[q0[i] as int] == l && !done[q0[i] as int],
        forall|v: int| 0 <= v < n && v != x && lvl[v] == l ==> mem(q0, v),
    ensures
        queue_ok(q1, done, lvl, l, n),
        forall|v: int| 0 <= v < n && lvl[v] == l ==> mem(q1, v),
{
    if q1 =~= seq![x].add(q0) {
        assert forall|i: int, j: int| 0 <= i < j < q1.len() implies q1[i] != q1[j] by {
            if i == 0 { assert(q1[j] == q0[j - 1]); } else { assert(q1[i] == q0[i - 1] && q1[j] == q0[j - 1]); }
        }
        assert forall|i: int| 0 <= i < q1.len() implies q1[i] < n && lvl[q1[i] as int] == l && !done[q1[i] as int] by {
            if i > 0 { assert(q1[i] == q0[i - 1]); }
        }
        assert forall|v: int| 0 <= v < n && lvl[v] == l implies mem(q1, v) by {
            if v == x { assert(q1[0] == x); }
            else { let i = choose|i: int| 0 <= i < q0.len() && q0[i] == v; assert(q1[i + 1] == v); }
        }
    } else {
        assert forall|i: int, j: int| 0 <= i < j < q1.len() implies q1[i] != q1[j] by {
            if j == q0.len() { assert(q1[i] == q0[i]); } else { assert(q1[i] == q0[i] && q1[j] == q0[j]); }
        }
        assert forall|i: int| 0 <= i < q1.len() implies q1[i] < n && lvl[q1[i] as int] == l && !done[q1[i] as int] by {
            if i < q0.len() { assert(q1[i] == q0[i]); }
        }
        assert forall|v: int| 0 <= v < n && lvl[v] == l implies mem(q1, v) by {
            if v == x { assert(q1[q0.len() as int] == x); }
            else { let i = choose|i: int| 0 <= i < q0.len() && q0[i] == v; assert(q1[i] == v); }
        }
    }
}
// a finished (or in-progress) group of level l
pub open spec fn group_ok(g: Seq<usize>, done: Seq<bool>, lvl: Seq<int>, l: int, n: int) -> bool {
    &&& nodup(g)
    &&& forall|i: int| 0 <= i < g.len() ==> g[i] < n && lvl[g[i] as int] == l && done[g[i] as int]
}
pub open spec fn groups_inv(groups: Seq<Vec<usize>>, done: Seq<bool>, lvl: Seq<int>, top: int) -> bool {
    let n = done.len() as int;
    &&& groups.len() == top
    &&& forall|g: int| 0 <= g < top ==> group_ok(groups[g]@, done, lvl, g, n) && groups[g]@.len() > 0
    &&& forall|v: int| 0 <= v < n && done[v] && lvl[v] < top ==> mem(groups[lvl[v]]@, v)
}


// ---------- acyclicity vocabulary and the two directions ----------
pub open spec fn ranked(adj: Seq<Seq<usize>>, vis: Seq<bool>, rank: Seq<int>) -> bool {
    &&& rank.len() == adj.len()
    &&& forall|u: int, k: int| 0 <= u < adj.len() && 0 <= k < adj[u].len() && vis[u] && vis[adj[u][k] as int]
            ==> 0 <= #[trigger] rank[u] < rank[(#[trigger] adj[u][k]) as int]
}
pub open spec fn acyclic(adj: Seq<Seq<usize>>, vis: Seq<bool>) -> bool { exists|rank: Seq<int>| ranked(adj, vis, rank) }

// a cycle in the usual sense: a closed walk of visible nodes, length >= 1
pub open spec fn is_cycle(adj: Seq<Seq<usize>>, vis: Seq<bool>, p: Seq<int>) -> bool {
    &&& p.len() >= 2 && p[0] == p[p.len() - 1]
    &&& forall|i: int| 0 <= i < p.len() ==> 0 <= #[trigger] p[i] < adj.len() && vis[p[i]]
    &&& forall|i: int| 0 <= i < p.len() - 1 ==> has_edge(adj, #[trigger] p[i], p[i + 1])
}

pub open spec fn has_edge(adj: Seq<Seq<usize>>, u: int, v: int) -> bool { exists|k: int| 0 <= k < adj[u].len() && #[trigger] adj[u][k] == v }

proof fn lemma_walk_rank(adj: Seq<Seq<usize>>, vis: Seq<bool>, rank: Seq<int>, p: Seq<int>, i: int)
    requires wf(adj, vis), ranked(adj, vis, rank), is_cycle(adj, vis, p), 0 <= i < p.len()
    ensures rank[p[0]] + i <= rank[p[i]]
    decreases i
{
    if i > 0 {
        lemma_walk_rank(adj, vis, rank, p, i - 1);
        let a = p[i - 1];
        let b = p[i];
        assert(has_edge(adj, p[i - 1], p[i - 1 + 1]));
        let k = choose|k: int| 0 <= k < adj[a].len() && #[trigger] adj[a][k] == b;
        assert(rank[a] < rank[adj[a][k] as int]);
    }
}
pub proof fn lemma_cycle_not_acyclic(adj: Seq<Seq<usize>>, vis: Seq<bool>, p: Seq<int>)
    requires wf(adj, vis), is_cycle(adj, vis, p)
    ensures !acyclic(adj, vis)
{
    if acyclic(adj, vis) {
        let rank = choose|rank: Seq<int>| ranked(adj, vis, rank);
        lemma_walk_rank(adj, vis, rank, p, p.len() - 1);
    }
}

// Kahn finished with every visible node placed  ==>  the levels are a rank function
proof fn lemma_done_acyclic(adj: Seq<Seq<usize>>, vis: Seq<bool>, ind: Seq<usize>, done: Seq<bool>, lvl: Seq<int>, top: int)
    requires wf(adj, vis), ind.len() == adj.len(), done.len() == adj.len(), lvl.len() == adj.len(),
        core_inv(adj, vis, ind, done, lvl, top),
        forall|v: int| 0 <= v < adj.len() && vis[v] ==> done[v],
    ensures ranked(adj, vis, lvl), acyclic(adj, vis)
{
    assert forall|u: int, k: int| 0 <= u < adj.len() && 0 <= k < adj[u].len() && vis[u] && vis[adj[u][k] as int]
        implies 0 <= #[trigger] lvl[u] < lvl[(#[trigger] adj[u][k]) as int] by {
        let v = adj[u][k] as int;
        assert(0 <= v < adj.len());
        assert(done[v] && done[u]);
        assert(lvl[v] >= 0 && lvl[u] >= 0);
        assert(edge_inv(adj, vis, done, lvl, u, k));
    }
    assert(ranked(adj, vis, lvl));
}

// Kahn stuck with a visible node unplaced  ==>  no rank function exists
proof fn lemma_descent(adj: Seq<Seq<usize>>, vis: Seq<bool>, ind: Seq<usize>, done: Seq<bool>, lvl: Seq<int>, top: int, rank: Seq<int>, x: int)
    requires wf(adj, vis), ind.len() == adj.len(), done.len() == adj.len(), lvl.len() == adj.len(),
        core_inv(adj, vis, ind, done, lvl, top),
        forall|v: int| 0 <= v < adj.len() ==> (lvl[v] >= 0 <==> done[v]),
        ranked(adj, vis, rank),
        0 <= x < adj.len(), vis[x], !done[x],
    ensures false
    decreases rank[x]
{
    let n = adj.len() as int;
    let a = act(vis, done);
    // x is visible and unplaced, so its in-degree is non-zero: some active node points at it
    assert(ind[x] != 0);
    lemma_cnt_pos(adj, a, x, n);
    let (u, k) = choose|u: int, k: int| 0 <= u < n && a[u] && 0 <= k < adj[u].len() && adj[u][k] == x;
    assert(vis[u] && !done[u]);
    assert(0 <= rank[u] < rank[adj[u][k] as int]);
    lemma_descent(adj, vis, ind, done, lvl, top, rank, u);
}
proof fn lemma_stuck_cyclic(adj: Seq<Seq<usize>>, vis: Seq<bool>, ind: Seq<usize>, done: Seq<bool>, lvl: Seq<int>, top: int, x: int)
    requires wf(adj, vis), ind.len() == adj.len(), done.len() == adj.len(), lvl.len() == adj.len(),
        core_inv(adj, vis, ind, done, lvl, top),
        forall|v: int| 0 <= v < adj.len() ==> (lvl[v] >= 0 <==> done[v]),
        0 <= x < adj.len(), vis[x], !done[x],
    ensures !acyclic(adj, vis)
{
    if acyclic(adj, vis) {
        let rank = choose|rank: Seq<int>| ranked(adj, vis, rank);
        lemma_descent(adj, vis, ind, done, lvl, top, rank, x);
    }
}

// ---------- the user-facing statement of a layering ----------
pub open spec fn at(groups: Seq<Vec<usize>>, g: int, k: int, v: int) -> bool { 0 <= g < groups.len() && 0 <= k < groups[g]@.len() && groups[g]@[k] == v }
pub open spec fn layered(adj: Seq<Seq<usize>>, vis: Seq<bool>, groups: Seq<Vec<usize>>) -> bool {
    let n = adj.len() as int;
    // only visible nodes, every visible node, no node twice, no empty group
    &&& forall|g: int, k: int| 0 <= g < groups.len() && 0 <= k < groups[g]@.len() ==> (#[trigger] groups[g]@[k]) < n && vis[groups[g]@[k] as int]
    &&& forall|v: int| 0 <= v < n && vis[v] ==> exists|g: int, k: int| #[trigger] at(groups, g, k, v)
    &&& forall|g1: int, k1: int, g2: int, k2: int, v: int| #![trigger at(groups, g1, k1, v), at(groups, g2, k2, v)] at(groups, g1, k1, v) && at(groups, g2, k2, v) ==> g1 == g2 && k1 == k2
    &&& forall|g: int| 0 <= g < groups.len() ==> (#[trigger] groups[g])@.len() > 0
    // every dependency edge between visible nodes goes from an earlier group to a strictly later one
    &&& forall|u: int, j: int, gu: int, ku: int, gv: int, kv: int| #![trigger at(groups, gu, ku, u), at(groups, gv, kv, adj[u][j] as int)]
          0 <= u < n && 0 <= j < adj[u].len() && at(groups, gu, ku, u) && at(groups, gv, kv, adj[u][j] as int) ==> gu < gv
}
proof fn lemma_layered(adj: Seq<Seq<usize>>, vis: Seq<bool>, ind: Seq<usize>, done: Seq<bool>, lvl: Seq<int>, groups: Seq<Vec<usize>>)
    requires wf(adj, vis), ind.len() == adj.len(), done.len() == adj.len(), lvl.len() == adj.len(),
        core_inv(adj, vis, ind, done, lvl, groups.len() as int), groups_inv(groups, done, lvl, groups.len() as int),
        forall|v: int| 0 <= v < adj.len() ==> (lvl[v] >= 0 <==> done[v]),
        forall|v: int| 0 <= v < adj.len() && vis[v] ==> done[v],
        forall|v: int| 0 <= v < adj.len() && done[v] ==> lvl[v] < groups.len(),
    ensures layered(adj, vis, groups)
{
    let n = adj.len() as int;
    let top = groups.len() as int;
    assert forall|g: int, k: int| 0 <= g < groups.len() && 0 <= k < groups[g]@.len() implies (#[trigger] groups[g]@[k]) < n && vis[groups[g]@[k] as int] by {
        assert(group_ok(groups[g]@, done, lvl, g, n));
        let x = groups[g]@[k] as int;
        assert(lvl[x] == g);
    }
    assert forall|v: int| 0 <= v < n && vis[v] implies exists|g: int, k: int| #[trigger] at(groups, g, k, v) by {
        assert(done[v] && 0 <= lvl[v] < top);
        assert(mem(groups[lvl[v]]@, v));
        let k = choose|k: int| 0 <= k < groups[lvl[v]]@.len() && groups[lvl[v]]@[k] == v;
        assert(at(groups, lvl[v], k, v));
    }
    assert forall|g1: int, k1: int, g2: int, k2: int, v: int| #![trigger at(groups, g1, k1, v), at(groups, g2, k2, v)] at(groups, g1, k1, v) && at(groups, g2, k2, v) implies g1 == g2 && k1 == k2 by {
        assert(group_ok(groups[g1]@, done, lvl, g1, n));
        assert(group_ok(groups[g2]@, done, lvl, g2, n));
        assert(lvl[groups[g1]@[k1] as int] == g1 && lvl[groups[g2]@[k2] as int] == g2);
        if k1 != k2 { if k1 < k2 { assert(groups[g1]@[k1] != groups[g1]@[k2]); } else { assert(groups[g1]@[k2] != groups[g1]@[k1]); } }
    }
    assert forall|g: int| 0 <= g < groups.len() implies (#[trigger] groups[g])@.len() > 0 by { assert(group_ok(groups[g]@, done, lvl, g, n) && groups[g]@.len() > 0); }
    assert forall|u: int, j: int, gu: int, ku: int, gv: int, kv: int| #![trigger at(groups, gu, ku, u), at(groups, gv, kv, adj[u][j] as int)]
          0 <= u < n && 0 <= j < adj[u].len() && at(groups, gu, ku, u) && at(groups, gv, kv, adj[u][j] as int) implies gu < gv by {
        let v = adj[u][j] as int;
        assert(group_ok(groups[gu]@, done, lvl, gu, n));
        assert(group_ok(groups[gv]@, done, lvl, gv, n));
        assert(lvl[groups[gu]@[ku] as int] == gu && lvl[groups[gv]@[kv] as int] == gv);
        assert(edge_inv(adj, vis, done, lvl, u, j));
        assert(vis[u] && vis[v]) by { assert(lvl[u] >= 0 && lvl[v] >= 0); }
    }
}
// ---------- labelled groups (get_labeled_groups): reverse order, label for node ----------
pub open spec fn labels_of(labels: Seq<String>, group: Seq<usize>, n2l: Map<usize, String>) -> bool {
    &&& labels.len() == group.len()
    &&& forall|k: int| 0 <= k < group.len() ==> n2l.dom().contains(#[trigger] group[k]) && labels[k] == n2l[group[k]]
}
pub open spec fn labeled_rev(o: Seq<Vec<String>>, groups: Seq<Vec<usize>>, n2l: Map<usize, String>) -> bool {
    &&& o.len() == groups.len()
    &&& forall|a: int| 0 <= a < o.len() ==> #[trigger] labels_of(o[a]@, groups[groups.len() - 1 - a]@, n2l)
}
pub open spec fn labeled_layering(o: Seq<Vec<String>>, adj: Seq<Seq<usize>>, vis: Seq<bool>, n2l: Map<usize, String>) -> bool {
    exists|groups: Seq<Vec<usize>>| #[trigger] layered(adj, vis, groups) && labeled_rev(o, groups, n2l)
}
proof fn lemma_layered_bounds(adj: Seq<Seq<usize>>, vis: Seq<bool>, groups: Seq<Vec<usize>>)
    requires layered(adj, vis, groups)
    ensures forall|g: int, k: int| 0 <= g < groups.len() && 0 <= k < groups[g]@.len() ==> (#[trigger] groups[g]@[k]) < adj.len()
{ }

// ================= vocabulary: depth-first marking (reachability, stack invariant) =================
pub open spec fn is_walk(adj: Seq<Seq<usize>>, p: Seq<int>) -> bool {
    &&& p.len() >= 1
    &&& forall|i: int| 0 <= i < p.len() ==> 0 <= #[trigger] p[i] < adj.len()
    &&& forall|i: int| 0 <= i < p.len() - 1 ==> has_edge(adj, #[trigger] p[i], p[i + 1])
}
pub open spec fn reachable(adj: Seq<Seq<usize>>, r: int, v: int) -> bool {
    exists|p: Seq<int>| is_walk(adj, p) && p[0] == r && p[p.len() - 1] == v
}
pub open spec fn closed_walk(adj: Seq<Seq<usize>>, p: Seq<int>) -> bool { is_walk(adj, p) && p.len() >= 2 && p[0] == p[p.len() - 1] }


// remaining children to look at, summed over the stack
pub open spec fn rem(adj: Seq<Seq<usize>>, st: Seq<(usize, usize)>) -> int decreases st.len() {
    if st.len() == 0 { 0 } else { rem(adj, st.drop_last()) + (adj[st.last().0 as int].len() - st.last().1) }
}
proof fn lemma_rem_push(adj: Seq<Seq<usize>>, st: Seq<(usize, usize)>, e: (usize, usize))
    ensures rem(adj, st.push(e)) == rem(adj, st) + (adj[e.0 as int].len() - e.1)
{ assert(st.push(e).drop_last() =~= st); }
proof fn lemma_rem_update_last(adj: Seq<Seq<usize>>, st: Seq<(usize, usize)>, e: (usize, usize))
    requires st.len() > 0
    ensures rem(adj, st.update(st.len() - 1, e)) == rem(adj, st.drop_last()) + (adj[e.0 as int].len() - e.1)
{ assert(st.update(st.len() - 1, e).drop_last() =~= st.drop_last()); }

proof fn lemma_rem_nonneg(adj: Seq<Seq<usize>>, st: Seq<(usize, usize)>)
    requires forall|t: int| 0 <= t < st.len() ==> #[trigger] entry_ok(adj, st, t)
    ensures rem(adj, st) >= 0
    decreases st.len()
{
    if st.len() > 0 {
        assert(entry_ok(adj, st, st.len() - 1));
        assert forall|t: int| 0 <= t < st.drop_last().len() implies #[trigger] entry_ok(adj, st.drop_last(), t) by { assert(entry_ok(adj, st, t)); }
        lemma_rem_nonneg(adj, st.drop_last());
    }
}

pub open spec fn on_stack(st: Seq<(usize, usize)>, x: int) -> bool { exists|t: int| 0 <= t < st.len() && #[trigger] st[t].0 == x }

pub open spec fn entry_ok(adj: Seq<Seq<usize>>, st: Seq<(usize, usize)>, t: int) -> bool {
    st[t].0 < adj.len() && st[t].1 <= adj[st[t].0 as int].len()
}
pub open spec fn link(adj: Seq<Seq<usize>>, st: Seq<(usize, usize)>, t: int) -> bool {
    st[t].1 >= 1 && adj[st[t].0 as int][st[t].1 - 1] == st[t + 1].0
}
pub open spec fn stack_ok(adj: Seq<Seq<usize>>, st: Seq<(usize, usize)>) -> bool {
    &&& forall|t: int| 0 <= t < st.len() ==> #[trigger] entry_ok(adj, st, t)
    &&& forall|t: int| 0 <= t < st.len() - 1 ==> #[trigger] link(adj, st, t)
    &&& forall|s: int, t: int| 0 <= s < t < st.len() ==> (#[trigger] st[s]).0 != (#[trigger] st[t]).0
}

// a closed set that contains r contains everything reachable from r
proof fn lemma_closed_contains_reach(adj: Seq<Seq<usize>>, seen: Seq<bool>, r: int, p: Seq<int>, i: int)
    requires seen.len() == adj.len(), is_walk(adj, p), p[0] == r, 0 <= r < adj.len(), seen[r], 0 <= i < p.len(),
        forall|x: int, k: int| 0 <= x < adj.len() && seen[x] && 0 <= k < adj[x].len() ==> seen[(#[trigger] adj[x][k]) as int],
    ensures seen[p[i]]
    decreases i
{
    if i > 0 {
        lemma_closed_contains_reach(adj, seen, r, p, i - 1);
        assert(has_edge(adj, p[i - 1], p[i - 1 + 1]));
        let a = p[i - 1];
        let k = choose|k: int| 0 <= k < adj[a].len() && #[trigger] adj[a][k] == p[i];
        assert(seen[adj[a][k] as int]);
    }
}

proof fn lemma_reach_step(adj: Seq<Seq<usize>>, r: int, x: int, k: int)
    requires reachable(adj, r, x), 0 <= x < adj.len(), 0 <= k < adj[x].len(), adj[x][k] < adj.len()
    ensures reachable(adj, r, adj[x][k] as int)
{
    let p = choose|p: Seq<int>| is_walk(adj, p) && p[0] == r && p[p.len() - 1] == x;
    let y = adj[x][k] as int;
    let q = p.push(y);
    assert forall|i: int| 0 <= i < q.len() - 1 implies has_edge(adj, #[trigger] q[i], q[i + 1]) by {
        if i < p.len() - 1 { assert(has_edge(adj, p[i], p[i + 1])); assert(q[i] == p[i] && q[i + 1] == p[i + 1]); }
        else { assert(q[i] == x && q[i + 1] == y); }
    }
    assert(is_walk(adj, q) && q[0] == r && q[q.len() - 1] == y);
}


#[verifier::opaque]
pub open spec fn inv(adj: Seq<Seq<usize>>, vis0: Seq<bool>, vis: Seq<bool>, seen: Seq<bool>, st: Seq<(usize, usize)>, node: int, visible: bool) -> bool {
    let n = adj.len() as int;
    &&& seen.len() == n && vis.len() == n && vis0.len() == n && 0 <= node < n
    &&& stack_ok(adj, st)
    &&& forall|x: int| 0 <= x < n && on_stack(st, x) ==> #[trigger] seen[x]
    &&& forall|x: int| 0 <= x < n && #[trigger] seen[x] ==> reachable(adj, node, x) && vis[x] == visible
    &&& forall|x: int| 0 <= x < n && !#[trigger] seen[x] ==> vis[x] == vis0[x]
    &&& forall|x: int, k: int| 0 <= x < n && seen[x] && !on_stack(st, x) && 0 <= k < adj[x].len() ==> seen[(#[trigger] adj[x][k]) as int]
    &&& forall|t: int, k: int| 0 <= t < st.len() && 0 <= k < st[t].1 ==> seen[(#[trigger] adj[st[t].0 as int][k]) as int]
    &&& seen[node]
}

proof fn lemma_init(adj: Seq<Seq<usize>>, vis0: Seq<bool>, nd: usize, visible: bool)
    requires wf(adj, vis0), 0 <= nd < adj.len()
    ensures inv(adj, vis0, vis0.update(nd as int, visible), Seq::new(adj.len(), |i: int| false).update(nd as int, true), seq![(nd, 0usize)], nd as int, visible)
{
    reveal(inv);
    let node = nd as int;
    let st = seq![(nd, 0usize)];
    let p = seq![node];
    assert(is_walk(adj, p) && p[0] == node && p[p.len() - 1] == node);
    assert(reachable(adj, node, node));
    assert(st[0].0 == node);
    assert(on_stack(st, node));
    assert(entry_ok(adj, st, 0));
}

// the top entry looked at a child that was already seen and is not on the path
proof fn lemma_advance(adj: Seq<Seq<usize>>, vis0: Seq<bool>, vis: Seq<bool>, seen: Seq<bool>, st: Seq<(usize, usize)>, node: int, visible: bool)
    requires wf(adj, vis0), inv(adj, vis0, vis, seen, st, node, visible), st.len() > 0,
        st.last().1 < adj[st.last().0 as int].len(),
        seen[adj[st.last().0 as int][st.last().1 as int] as int],
    ensures ({
        let e = (st.last().0, (st.last().1 + 1) as usize);
        let st2 = st.update(st.len() - 1, e);
        &&& inv(adj, vis0, vis, seen, st2, node, visible)
        &&& rem(adj, st2) == rem(adj, st) - 1
        &&& forall|x: int| on_stack(st2, x) <==> on_stack(st, x)
    })
{
    reveal(inv);
    let top = st.len() - 1;
    let e = (st.last().0, (st.last().1 + 1) as usize);
    let st2 = st.update(top, e);
    assert forall|x: int| on_stack(st2, x) <==> on_stack(st, x) by {
        if on_stack(st2, x) { let t = choose|t: int| 0 <= t < st2.len() && #[trigger] st2[t].0 == x; assert(st[t].0 == x); }
        if on_stack(st, x) { let t = choose|t: int| 0 <= t < st.len() && #[trigger] st[t].0 == x; assert(st2[t].0 == x); }
    }
    assert(stack_ok(adj, st2)) by {
        assert forall|t: int| 0 <= t < st2.len() implies #[trigger] entry_ok(adj, st2, t) by {
            assert(entry_ok(adj, st, t));
        }
        assert forall|t: int| 0 <= t < st2.len() - 1 implies #[trigger] link(adj, st2, t) by {
            assert(link(adj, st, t));
            assert(st2[t] == st[t]);
        }
        assert forall|s: int, t: int| 0 <= s < t < st2.len() implies (#[trigger] st2[s]).0 != (#[trigger] st2[t]).0 by {
            assert(st[s].0 != st[t].0);
        }
    }
    assert(entry_ok(adj, st, top));
    assert forall|t: int, k: int| 0 <= t < st2.len() && 0 <= k < st2[t].1 implies seen[(#[trigger] adj[st2[t].0 as int][k]) as int] by {
        if t == top && k == st.last().1 { } else { assert(seen[adj[st[t].0 as int][k] as int]); }
    }
    lemma_rem_update_last(adj, st, e);
}

// the top entry looked at a fresh child: it is marked and pushed
proof fn lemma_push(adj: Seq<Seq<usize>>, vis0: Seq<bool>, vis: Seq<bool>, seen: Seq<bool>, st: Seq<(usize, usize)>, node: int, visible: bool)
    requires wf(adj, vis0), inv(adj, vis0, vis, seen, st, node, visible), st.len() > 0,
        st.last().1 < adj[st.last().0 as int].len(),
        !seen[adj[st.last().0 as int][st.last().1 as int] as int],
    ensures ({
        let d = adj[st.last().0 as int][st.last().1 as int];
        let e = (st.last().0, (st.last().1 + 1) as usize);
        let st2 = st.update(st.len() - 1, e).push((d, 0usize));
        &&& inv(adj, vis0, vis.update(d as int, visible), seen.update(d as int, true), st2, node, visible)
        &&& nfalse(seen.update(d as int, true), adj.len() as int) < nfalse(seen, adj.len() as int)
        &&& forall|x: int| on_stack(st2, x) <==> (on_stack(st, x) || x == d)
    })
{
    reveal(inv);
    let top = st.len() - 1;
    let n1 = st.last().0 as int;
    let d = adj[n1][st.last().1 as int];
    let e = (st.last().0, (st.last().1 + 1) as usize);
    let st1 = st.update(top, e);
    let st2 = st1.push((d, 0usize));
    let seen2 = seen.update(d as int, true);
    let vis2 = vis.update(d as int, visible);
    assert(entry_ok(adj, st, top));
    assert(d < adj.len());
    assert(on_stack(st, n1)) by { assert(st[top].0 == n1); }
    assert(!on_stack(st, d as int));
    assert forall|x: int| on_stack(st2, x) <==> (on_stack(st, x) || x == d) by {
        if on_stack(st2, x) { let t = choose|t: int| 0 <= t < st2.len() && #[trigger] st2[t].0 == x; if t < st.len() { assert(st[t].0 == x); } }
        if on_stack(st, x) { let t = choose|t: int| 0 <= t < st.len() && #[trigger] st[t].0 == x; assert(st2[t].0 == x); }
        if x == d { assert(st2[st.len() as int].0 == d); }
    }
    assert(stack_ok(adj, st2)) by {
        assert forall|t: int| 0 <= t < st2.len() implies #[trigger] entry_ok(adj, st2, t) by {
            if t < st.len() { assert(entry_ok(adj, st, t)); }
        }
        assert forall|t: int| 0 <= t < st2.len() - 1 implies #[trigger] link(adj, st2, t) by {
            if t < top { assert(link(adj, st, t)); assert(st2[t] == st[t]); assert(st2[t + 1].0 == st[t + 1].0); }
            else { assert(st2[t] == e); assert(st2[t + 1] == (d, 0usize)); assert(adj[n1].len() <= usize::MAX); }
        }
        assert forall|s: int, t: int| 0 <= s < t < st2.len() implies (#[trigger] st2[s]).0 != (#[trigger] st2[t]).0 by {
            if t < st.len() { assert(st[s].0 != st[t].0); } else { assert(st[s].0 == st2[s].0); assert(on_stack(st, st[s].0 as int)); }
        }
    }
    assert(seen[n1]);
    lemma_reach_step(adj, node, n1, st.last().1 as int);
    assert forall|x: int, k: int| 0 <= x < adj.len() && seen2[x] && !on_stack(st2, x) && 0 <= k < adj[x].len() implies seen2[(#[trigger] adj[x][k]) as int] by {
        assert(seen[x] && !on_stack(st, x));
        assert(seen[adj[x][k] as int]);
    }
    assert forall|t: int, k: int| 0 <= t < st2.len() && 0 <= k < st2[t].1 implies seen2[(#[trigger] adj[st2[t].0 as int][k]) as int] by {
        if t == top && k == st.last().1 { } else if t < st.len() { assert(seen[adj[st[t].0 as int][k] as int]); }
    }
    lemma_nfalse_update(seen, d as int, adj.len() as int);
}

// the top entry has no child left
proof fn lemma_pop(adj: Seq<Seq<usize>>, vis0: Seq<bool>, vis: Seq<bool>, seen: Seq<bool>, st: Seq<(usize, usize)>, node: int, visible: bool)
    requires wf(adj, vis0), inv(adj, vis0, vis, seen, st, node, visible), st.len() > 0,
        st.last().1 == adj[st.last().0 as int].len(),
    ensures ({
        let st2 = st.drop_last();
        &&& inv(adj, vis0, vis, seen, st2, node, visible)
        &&& rem(adj, st2) == rem(adj, st)
        &&& forall|x: int| on_stack(st2, x) <==> (on_stack(st, x) && x != st.last().0)
    })
{
    reveal(inv);
    let top = st.len() - 1;
    let n1 = st.last().0 as int;
    let st2 = st.drop_last();
    assert forall|x: int| on_stack(st2, x) <==> (on_stack(st, x) && x != n1) by {
        if on_stack(st2, x) { let t = choose|t: int| 0 <= t < st2.len() && #[trigger] st2[t].0 == x; assert(st[t].0 == x); assert(st[t].0 != st[top].0); }
        if on_stack(st, x) && x != n1 { let t = choose|t: int| 0 <= t < st.len() && #[trigger] st[t].0 == x; assert(st2[t].0 == x); }
    }
    assert(stack_ok(adj, st2)) by {
        assert forall|t: int| 0 <= t < st2.len() implies #[trigger] entry_ok(adj, st2, t) by { assert(entry_ok(adj, st, t)); }
        assert forall|t: int| 0 <= t < st2.len() - 1 implies #[trigger] link(adj, st2, t) by { assert(link(adj, st, t)); }
        assert forall|s: int, t: int| 0 <= s < t < st2.len() implies (#[trigger] st2[s]).0 != (#[trigger] st2[t]).0 by { assert(st[s].0 != st[t].0); }
    }
    assert(entry_ok(adj, st, top));
    assert forall|x: int, k: int| 0 <= x < adj.len() && seen[x] && !on_stack(st2, x) && 0 <= k < adj[x].len() implies seen[(#[trigger] adj[x][k]) as int] by {
        if x == n1 { assert(seen[adj[st[top].0 as int][k] as int]); } else { assert(!on_stack(st, x)); }
    }
    assert forall|t: int, k: int| 0 <= t < st2.len() && 0 <= k < st2[t].1 implies seen[(#[trigger] adj[st2[t].0 as int][k]) as int] by {
        assert(seen[adj[st[t].0 as int][k] as int]);
    }
    assert forall|x: int| 0 <= x < adj.len() && on_stack(st2, x) implies #[trigger] seen[x] by { assert(on_stack(st, x)); }
}

proof fn lemma_inv_top(adj: Seq<Seq<usize>>, vis0: Seq<bool>, vis: Seq<bool>, seen: Seq<bool>, st: Seq<(usize, usize)>, node: int, visible: bool)
    requires wf(adj, vis0), inv(adj, vis0, vis, seen, st, node, visible), st.len() > 0
    ensures stack_ok(adj, st), entry_ok(adj, st, st.len() - 1), vis.len() == adj.len(), seen.len() == adj.len(),
        adj[st.last().0 as int].len() <= usize::MAX,
        st.last().1 < adj[st.last().0 as int].len() ==> adj[st.last().0 as int][st.last().1 as int] < adj.len(),
{
    reveal(inv);
    assert(entry_ok(adj, st, st.len() - 1));
}

// reaching a node of the current path closes a walk
proof fn lemma_cycle(adj: Seq<Seq<usize>>, st: Seq<(usize, usize)>, d: int)
    requires stack_ok(adj, st), st.len() > 0, st.last().1 < adj[st.last().0 as int].len(),
        adj[st.last().0 as int][st.last().1 as int] == d, on_stack(st, d),
        forall|u: int, k: int| 0 <= u < adj.len() && 0 <= k < adj[u].len() ==> (#[trigger] adj[u][k]) < adj.len(),
    ensures exists|p: Seq<int>| closed_walk(adj, p)
{
    let t0 = choose|t: int| 0 <= t < st.len() && #[trigger] st[t].0 == d;
    let top = st.len() - 1;
    lemma_stack_walk(adj, st, t0, top);
    let q = choose|q: Seq<int>| is_walk(adj, q) && q[0] == st[t0].0 && q[q.len() - 1] == st[top].0;
    let p = q.push(d);
    assert(entry_ok(adj, st, top));
    assert(entry_ok(adj, st, t0));
    assert forall|i: int| 0 <= i < p.len() - 1 implies has_edge(adj, #[trigger] p[i], p[i + 1]) by {
        if i < q.len() - 1 { assert(has_edge(adj, q[i], q[i + 1])); assert(p[i] == q[i] && p[i + 1] == q[i + 1]); }
        else { let u = st[top].0 as int; let k = st.last().1 as int; assert(adj[u][k] == d); assert(p[i] == u && p[i + 1] == d); }
    }
    assert(closed_walk(adj, p));
}

// the nodes st[a..=b] of the stack form a walk
proof fn lemma_stack_walk(adj: Seq<Seq<usize>>, st: Seq<(usize, usize)>, a: int, b: int)
    requires stack_ok(adj, st), 0 <= a <= b < st.len()
    ensures exists|q: Seq<int>| is_walk(adj, q) && q[0] == st[a].0 && q[q.len() - 1] == st[b].0
    decreases b - a
{
    if a == b {
        let q = seq![st[a].0 as int];
        assert(entry_ok(adj, st, a));
        assert(is_walk(adj, q) && q[0] == st[a].0 && q[q.len() - 1] == st[b].0);
    } else {
        lemma_stack_walk(adj, st, a, b - 1);
        let q0 = choose|q: Seq<int>| is_walk(adj, q) && q[0] == st[a].0 && q[q.len() - 1] == st[b - 1].0;
        let q = q0.push(st[b].0 as int);
        assert(link(adj, st, b - 1));
        assert(entry_ok(adj, st, b - 1));
        assert(entry_ok(adj, st, b));
        assert forall|i: int| 0 <= i < q.len() - 1 implies has_edge(adj, #[trigger] q[i], q[i + 1]) by {
            if i < q0.len() - 1 { assert(has_edge(adj, q0[i], q0[i + 1])); assert(q[i] == q0[i] && q[i + 1] == q0[i + 1]); }
            else { let u = st[b - 1].0 as int; let k = st[b - 1].1 - 1; assert(adj[u][k] == st[b].0); assert(q[i] == u); }
        }
        assert(is_walk(adj, q) && q[0] == st[a].0 && q[q.len() - 1] == st[b].0);
    }
}

proof fn lemma_final(adj: Seq<Seq<usize>>, vis0: Seq<bool>, vis: Seq<bool>, seen: Seq<bool>, node: int, visible: bool)
    requires wf(adj, vis0), inv(adj, vis0, vis, seen, Seq::<(usize, usize)>::empty(), node, visible)
    ensures forall|v: int| 0 <= v < adj.len() ==> vis[v] == (if reachable(adj, node, v) { visible } else { vis0[v] })
{
    reveal(inv);
    let st = Seq::<(usize, usize)>::empty();
    assert forall|x: int| !on_stack(st, x) by { }
    assert forall|x: int, k: int| 0 <= x < adj.len() && seen[x] && 0 <= k < adj[x].len() implies seen[(#[trigger] adj[x][k]) as int] by {
        assert(!on_stack(st, x));
    }
    assert forall|v: int| 0 <= v < adj.len() implies vis[v] == (if reachable(adj, node, v) { visible } else { vis0[v] }) by {
        if reachable(adj, node, v) {
            let p = choose|p: Seq<int>| is_walk(adj, p) && p[0] == node && p[p.len() - 1] == v;
            lemma_closed_contains_reach(adj, seen, node, p, p.len() - 1);
            assert(seen[v]);
            assert(vis[v] == visible);
        } else {
            assert(!seen[v]);
            assert(vis[v] == vis0[v]);
        }
    }
}

