// Replay finder / run-time cross-check for unit `graph` (C03, C09).  Not the deciding step.
// Runs the REAL compiled core/graph.rs (included by #[path], substituted by the driver) against the executable
// form of the contracts proved in units/graph/unit.rs:
//   set_subtree_visibility(root): Ok => exactly reach(root) becomes visible; Err => the part reachable from root has a cycle
//   get_groups(): Ok(g) => g is a layering of exactly the visible nodes; acyclic(visible) <=> Ok
//   get_labeled_groups(): the same groups reversed, label for node
// modes:  all <max_n>            every digraph on 1..=max_n nodes x every non-empty root list of size <= 2
//         random <seed> <count> <max_n>
//         case <n>;<row>|<row>|..;<root>,<root>     (a row is a comma separated list)
#[path = "@GRAPH_RS@"]
#[allow(dead_code)]
mod graph;
use graph::Dag;

fn reach_into(adj: &Vec<Vec<usize>>, r: usize, seen: &mut Vec<bool>) {
    let mut st = vec![r];
    seen[r] = true;
    while let Some(u) = st.pop() {
        for &v in &adj[u] {
            if !seen[v] {
                seen[v] = true;
                st.push(v);
            }
        }
    }
}
// oracle, independent of the code under test: repeated removal of sources of the induced subgraph
fn acyclic(adj: &Vec<Vec<usize>>, vis: &Vec<bool>) -> bool {
    let n = adj.len();
    let mut alive: Vec<bool> = vis.clone();
    loop {
        let mut removed = false;
        for u in 0..n {
            if alive[u] && !(0..n).any(|w| alive[w] && adj[w].contains(&u)) {
                alive[u] = false;
                removed = true;
            }
        }
        if !removed {
            break;
        }
    }
    !alive.iter().any(|b| *b)
}
fn layered(adj: &Vec<Vec<usize>>, vis: &Vec<bool>, groups: &Vec<Vec<usize>>) -> Result<(), String> {
    let n = adj.len();
    let mut pos = vec![usize::MAX; n];
    for (gi, g) in groups.iter().enumerate() {
        if g.is_empty() {
            return Err(format!("empty group {}", gi));
        }
        for &x in g {
            if x >= n || !vis[x] {
                return Err(format!("node {} in groups but not requested", x));
            }
            if pos[x] != usize::MAX {
                return Err(format!("node {} placed twice", x));
            }
            pos[x] = gi;
        }
    }
    for u in 0..n {
        if vis[u] {
            if pos[u] == usize::MAX {
                return Err(format!("requested node {} missing from groups", u));
            }
            for &v in &adj[u] {
                if vis[v] && !(pos[u] < pos[v]) {
                    return Err(format!("edge {}->{} not from an earlier to a strictly later group", u, v));
                }
            }
        }
    }
    Ok(())
}
fn build(adj: &Vec<Vec<usize>>) -> Dag {
    let n = adj.len();
    let mut dag = Dag::new(n);
    for i in 0..n {
        dag.set_label(&format!("t{}", i), i).unwrap();
        dag.set(i, adj[i].clone());
    }
    dag
}
fn check_case(adj: &Vec<Vec<usize>>, roots: &Vec<usize>) -> Result<(), String> {
    let n = adj.len();
    let mut vis = vec![false; n];
    let mut dag = build(adj);
    for &r in roots {
        let mut sub = vec![false; n];
        reach_into(adj, r, &mut sub);
        let sub_acyclic = acyclic(adj, &sub);
        match dag.set_subtree_visibility(r, true) {
            Ok(()) => {
                reach_into(adj, r, &mut vis);
            }
            Err(_) => {
                if sub_acyclic {
                    return Err(format!("set_subtree_visibility({}) returned Err although everything reachable from it is acyclic (C03)", r));
                }
                return Ok(()); // truthful cycle report; callers stop here
            }
        }
    }
    let expect_ok = acyclic(adj, &vis);
    let mut dag2 = build(adj);
    for &r in roots {
        let _ = dag2.set_subtree_visibility(r, true);
    }
    match dag.get_groups() {
        Ok(groups) => {
            if !expect_ok {
                return Err("get_groups returned Ok for a cyclic visible subgraph (C09)".to_string());
            }
            layered(adj, &vis, &groups).map_err(|e| format!("get_groups: {} (C03)", e))?;
            match dag2.get_labeled_groups() {
                Ok(lg) => {
                    let want: Vec<Vec<String>> = groups.iter().rev().map(|g| g.iter().map(|x| format!("t{}", x)).collect()).collect();
                    let norm = |v: &Vec<Vec<String>>| -> Vec<Vec<String>> { v.iter().map(|g| { let mut g = g.clone(); g.sort(); g }).collect() };
                    if norm(&lg) != norm(&want) {
                        return Err(format!("get_labeled_groups {:?} is not the reverse of get_groups {:?} (C03)", lg, groups));
                    }
                }
                Err(_) => return Err("get_labeled_groups failed where get_groups succeeded (C03)".to_string()),
            }
        }
        Err(e) => {
            if expect_ok {
                return Err(format!("get_groups returned Err({}) for an acyclic visible subgraph (C03)", e));
            }
            let s = format!("{}", e);
            if !s.starts_with("Cycle detected") {
                return Err(format!("cyclic graph rejected with a non-cycle error: {} (C09)", s));
            }
            if dag2.get_labeled_groups().is_ok() {
                return Err("get_labeled_groups returned Ok for a cyclic visible subgraph (C09)".to_string());
            }
        }
    }
    Ok(())
}
fn fmt_case(adj: &Vec<Vec<usize>>, roots: &Vec<usize>) -> String {
    let rows: Vec<String> = adj.iter().map(|r| r.iter().map(|x| x.to_string()).collect::<Vec<_>>().join(",")).collect();
    format!("{};{};{}", adj.len(), rows.join("|"), roots.iter().map(|x| x.to_string()).collect::<Vec<_>>().join(","))
}
struct Rng(u64);
impl Rng {
    fn next(&mut self) -> u64 {
        self.0 ^= self.0 << 13;
        self.0 ^= self.0 >> 7;
        self.0 ^= self.0 << 17;
        self.0
    }
}
fn main() {
    let args: Vec<String> = std::env::args().collect();
    let mut checked = 0u64;
    let mut bad = 0u64;
    let mut nontrivial = 0u64;
    let mut report = |adj: &Vec<Vec<usize>>, roots: &Vec<usize>, checked: &mut u64, bad: &mut u64, nontrivial: &mut u64| {
        *checked += 1;
        if adj.iter().map(|r| r.len()).sum::<usize>() >= 2 {
            *nontrivial += 1;
        }
        if let Err(e) = check_case(adj, roots) {
            *bad += 1;
            if *bad <= 5 {
                println!("FAIL case={} why={}", fmt_case(adj, roots), e);
            }
        }
    };
    match args.get(1).map(|s| s.as_str()) {
        Some("all") => {
            let max_n: usize = args[2].parse().unwrap();
            for n in 1..=max_n {
                let pairs: Vec<(usize, usize)> = (0..n).flat_map(|i| (0..n).filter(move |&j| j != i).map(move |j| (i, j))).collect();
                for mask in 0u32..(1u32 << pairs.len()) {
                    let mut adj = vec![vec![]; n];
                    for (b, &(i, j)) in pairs.iter().enumerate() {
                        if mask >> b & 1 == 1 {
                            adj[i].push(j);
                        }
                    }
                    for r1 in 0..n {
                        report(&adj, &vec![r1], &mut checked, &mut bad, &mut nontrivial);
                        for r2 in 0..n {
                            if r2 != r1 {
                                report(&adj, &vec![r1, r2], &mut checked, &mut bad, &mut nontrivial);
                            }
                        }
                    }
                }
            }
        }
        Some("random") => {
            let seed: u64 = args[2].parse().unwrap();
            let count: u64 = args[3].parse().unwrap();
            let max_n: usize = args[4].parse().unwrap();
            let mut rng = Rng(seed.wrapping_mul(0x9E3779B97F4A7C15) | 1);
            for _ in 0..count {
                let n = 5 + (rng.next() as usize) % (max_n - 4);
                // mostly-acyclic graphs: edges go from lower to higher rank of a random permutation, plus an occasional back edge
                let mut perm: Vec<usize> = (0..n).collect();
                for i in (1..n).rev() {
                    let j = (rng.next() as usize) % (i + 1);
                    perm.swap(i, j);
                }
                let mut adj = vec![vec![]; n];
                let dens = 1 + rng.next() % 4;
                let back = rng.next() % 3 == 0;
                for a in 0..n {
                    for b in (a + 1)..n {
                        if rng.next() % 8 < dens {
                            adj[perm[a]].push(perm[b]);
                        }
                    }
                }
                if back {
                    let a = (rng.next() as usize) % n;
                    let b = (rng.next() as usize) % n;
                    if a != b && !adj[perm[a.max(b)]].contains(&perm[a.min(b)]) {
                        adj[perm[a.max(b)]].push(perm[a.min(b)]);
                    }
                }
                let k = 1 + (rng.next() as usize) % 3;
                let roots: Vec<usize> = (0..k).map(|_| (rng.next() as usize) % n).collect();
                report(&adj, &roots, &mut checked, &mut bad, &mut nontrivial);
            }
        }
        Some("case") => {
            let parts: Vec<&str> = args[2].split(';').collect();
            let n: usize = parts[0].parse().unwrap();
            let mut adj: Vec<Vec<usize>> = parts[1].split('|').map(|r| r.split(',').filter(|s| !s.is_empty()).map(|s| s.parse().unwrap()).collect()).collect();
            adj.resize(n, vec![]);
            let roots: Vec<usize> = parts[2].split(',').filter(|s| !s.is_empty()).map(|s| s.parse().unwrap()).collect();
            report(&adj, &roots, &mut checked, &mut bad, &mut nontrivial);
        }
        _ => {
            eprintln!("usage: finder all <max_n> | random <seed> <count> <max_n> | case <n>;<rows>;<roots>");
            std::process::exit(2);
        }
    }
    println!("checked={} nontrivial={} bad={}", checked, nontrivial, bad);
    std::process::exit(if bad > 0 { 1 } else { 0 });
}
