#![feature(allocator_api)]
#![allow(unused)]
// unit `graph`: core/graph.rs under contract (C03, C09).  Generated per run from /repo by vfw; see DESIGN.md.
use vstd::prelude::*;
use std::collections::VecDeque;
verus! {
//!include prelude/std_gaps.rs
//!include prelude/keymap.rs

// ================= vocabulary: graphs, counting, layering, acyclicity (no repository code) =================
pub open spec fn rows(adj: Seq<Vec<usize>>) -> Seq<Seq<usize>> { adj.map_values(|r: Vec<usize>| r@) }

pub open spec fn wf(adj: Seq<Seq<usize>>, vis: Seq<bool>) -> bool {
    &&& adj.len() == vis.len()
    &&& forall|u: int| 0 <= u < adj.len() ==> (#[trigger] adj[u]).len() <= usize::MAX
    &&& forall|u: int, k: int| 0 <= u < adj.len() && 0 <= k < adj[u].len() ==> (#[trigger] adj[u][k]) < adj.len()
}

pub open spec fn cnt_row(row: Seq<usize>, v: int) -> nat
    decreases row.len()
{
    if row.len() == 0 { 0 } else { cnt_row(row.drop_last(), v) + if row.last() == v { 1nat } else { 0nat } }
}

pub open spec fn cnt(adj: Seq<Seq<usize>>, act: Seq<bool>, v: int, upto: int) -> nat
    decreases upto
{
    if upto <= 0 { 0 } else { cnt(adj, act, v, upto - 1) + if act[upto - 1] { cnt_row(adj[upto - 1], v) } else { 0nat } }
}

proof fn lemma_cnt_row_take(row: Seq<usize>, k: int, v: int)
    requires 0 <= k < row.len()
    ensures cnt_row(row.take(k + 1), v) == cnt_row(row.take(k), v) + if row[k] == v { 1nat } else { 0nat },
{
    assert(row.take(k + 1).drop_last() =~= row.take(k));
}

proof fn lemma_cnt_row_mono(row: Seq<usize>, k: int, v: int)
    requires 0 <= k <= row.len()
    ensures cnt_row(row.take(k), v) <= cnt_row(row, v)
    decreases row.len() - k
{
    if k == row.len() { assert(row.take(k) =~= row); } else {
        lemma_cnt_row_take(row, k, v);
        lemma_cnt_row_mono(row, k + 1, v);
    }
}

proof fn lemma_cnt_row_pos(row: Seq<usize>, v: int)
    requires cnt_row(row, v) > 0
    ensures exists|k: int| 0 <= k < row.len() && row[k] == v
    decreases row.len()
{
    if row.len() == 0 { } else if row.last() == v { assert(row[row.len() - 1] == v); } else {
        lemma_cnt_row_pos(row.drop_last(), v);
        let k = choose|k: int| 0 <= k < row.drop_last().len() && row.drop_last()[k] == v;
        assert(row[k] == v);
    }
}

proof fn lemma_cnt_row_zero(row: Seq<usize>, v: int, k: int)
    requires cnt_row(row, v) == 0, 0 <= k < row.len()
    ensures row[k] != v
    decreases row.len()
{
    if k == row.len() - 1 { } else { lemma_cnt_row_zero(row.drop_last(), v, k); }
}

// deactivating node x removes exactly its row's contribution
proof fn lemma_cnt_deact(adj: Seq<Seq<usize>>, act: Seq<bool>, x: int, v: int, upto: int)
    requires 0 <= x < act.len(), act[x], 0 <= upto <= act.len(), adj.len() == act.len()
    ensures cnt(adj, act, v, upto) == cnt(adj, act.update(x, false), v, upto) + if x < upto { cnt_row(adj[x], v) } else { 0nat }
    decreases upto
{
    if upto > 0 { lemma_cnt_deact(adj, act, x, v, upto - 1); }
}

proof fn lemma_cnt_mono(adj: Seq<Seq<usize>>, act: Seq<bool>, v: int, a: int, b: int)
    requires 0 <= a <= b
    ensures cnt(adj, act, v, a) <= cnt(adj, act, v, b)
    decreases b - a
{
    if a < b { lemma_cnt_mono(adj, act, v, a, b - 1); }
}

// cnt == 0 means no active node has an edge to v
proof fn lemma_cnt_zero(adj: Seq<Seq<usize>>, act: Seq<bool>, v: int, upto: int, u: int, k: int)
    requires cnt(adj, act, v, upto) == 0, 0 <= u < upto, act[u], 0 <= k < adj[u].len()
    ensures adj[u][k] != v
    decreases upto
{
    if u == upto - 1 { lemma_cnt_row_zero(adj[u], v, k); } else { lemma_cnt_zero(adj, act, v, upto - 1, u, k); }
}

// cnt > 0 means some active node has an edge to v
proof fn lemma_cnt_pos(adj: Seq<Seq<usize>>, act: Seq<bool>, v: int, upto: int)
    requires cnt(adj, act, v, upto) > 0
    ensures exists|u: int, k: int| 0 <= u < upto && act[u] && 0 <= k < adj[u].len() && adj[u][k] == v
    decreases upto
{
    if upto <= 0 { } else if act[upto - 1] && cnt_row(adj[upto - 1], v) > 0 {
        let r = adj[upto - 1];
        lemma_cnt_row_pos(r, v);
        let k = choose|k: int| 0 <= k < r.len() && r[k] == v;
        let u = upto - 1;
        assert(0 <= u < upto && act[u] && 0 <= k < adj[u].len() && adj[u][k] == v);
    } else {
        lemma_cnt_pos(adj, act, v, upto - 1);
        let (u, k) = choose|u: int, k: int| 0 <= u < upto - 1 && act[u] && 0 <= k < adj[u].len() && adj[u][k] == v;
        assert(0 <= u < upto && act[u] && 0 <= k < adj[u].len() && adj[u][k] == v);
    }
}

// The layering property of a level assignment (lvl[u] < 0 means "not placed").
pub open spec fn edge_ok(adj: Seq<Seq<usize>>, vis: Seq<bool>, lvl: Seq<int>, u: int, k: int) -> bool {
    (vis[u] && vis[adj[u][k] as int] && lvl[adj[u][k] as int] >= 0) ==> (0 <= lvl[u] < lvl[adj[u][k] as int])
}

proof fn lemma_nfalse_update(d: Seq<bool>, x: int, upto: int)
    requires 0 <= x < d.len(), !d[x], 0 <= upto <= d.len()
    ensures nfalse(d, upto) == nfalse(d.update(x, true), upto) + if x < upto { 1nat } else { 0nat }
    decreases upto
{ if upto > 0 { lemma_nfalse_update(d, x, upto - 1); } }

pub open spec fn act(vis: Seq<bool>, done: Seq<bool>) -> Seq<bool> { Seq::new(vis.len(), |i: int| vis[i] && !done[i]) }
pub open spec fn mem(s: Seq<usize>, v: int) -> bool { exists|i: int| 0 <= i < s.len() && s[i] == v }
pub open spec fn nodup(s: Seq<usize>) -> bool { forall|i: int, j: int| 0 <= i < j < s.len() ==> s[i] != s[j] }
pub open spec fn nfalse(d: Seq<bool>, upto: int) -> nat decreases upto { if upto <= 0 { 0 } else { nfalse(d, upto - 1) + if d[upto - 1] { 0nat } else { 1nat } } }

pub open spec fn edge_inv(adj: Seq<Seq<usize>>, vis: Seq<bool>, done: Seq<bool>, lvl: Seq<int>, u: int, k: int) -> bool {
    let v = adj[u][k] as int;
    (vis[u] && vis[v] && lvl[v] >= 0) ==> (done[u] && lvl[u] < lvl[v])
}

// facts that hold at every loop head; `top` is the largest level that may have been handed out
pub open spec fn core_inv(adj: Seq<Seq<usize>>, vis: Seq<bool>, ind: Seq<usize>, done: Seq<bool>, lvl: Seq<int>, top: int) -> bool {
    let n = adj.len() as int;
    &&& forall|v: int| 0 <= v < n ==> ind[v] == cnt(adj, act(vis, done), v, n)
    &&& forall|v: int| #![trigger lvl[v]] #![trigger ind[v]] 0 <= v < n && lvl[v] >= 0 ==> vis[v] && ind[v] == 0 && lvl[v] <= top
    &&& forall|v: int| #![trigger lvl[v]] #![trigger done[v]] 0 <= v < n && done[v] ==> lvl[v] >= 0
    &&& forall|v: int| #![trigger lvl[v]] #![trigger ind[v]] 0 <= v < n && vis[v] && ind[v] == 0 ==> lvl[v] >= 0
    &&& forall|u: int, k: int| 0 <= u < n && 0 <= k < adj[u].len() ==> edge_inv(adj, vis, done, lvl, u, k)
}

// a queue holding not-yet-done nodes of level l
pub open spec fn queue_ok(q: Seq<usize>, done: Seq<bool>, lvl: Seq<int>, l: int, n: int) -> bool {
    &&& nodup(q)
    &&& forall|i: int| 0 <= i < q.len() ==> q[i] < n && lvl[q[i] as int] == l && !done[q[i] as int]
}
// inserting a fresh node of level l at either end of a queue of level-l nodes keeps it a queue and keeps every
// level-l node in it (written for both ends so that push_front / push_back are interchangeable)
proof fn lemma_queue_insert(q0: Seq<usize>, q1: Seq<usize>, x: usize, done: Seq<bool>, lvl: Seq<int>, l: int, n: int)
    requires
        q1 =~= seq![x].add(q0) || q1 =~= q0.push(x),
        x < n, n == lvl.len(), n == done.len(), lvl[x as int] == l, !done[x as int],
        nodup(q0),
        forall|i: int| 0 <= i < q0.len() ==> q0[i] < n && #[trigger] q0[i] != x && lvl[q0[i] as int] == l && !done[q0[i] as int],
        forall|v: int| 0 <= v < n && v != x && lvl[v] == l ==> mem(q0, v),
    ensures
        queue_ok(q1, done, lvl, l, n),
        forall|v: int| 0 <= v < n && lvl[v] == l ==> mem(q1, v),
{
    if q1 =~= seq![x].add(q0) {
        assert forall|i: int, j: int| 0 <= i < j < q1.len() implies q1[i] != q1[j] by {
            if i == 0 { assert(q1[j] == q0[j - 1]); } else { assert(q1[i] == q0[i - 1] && q1[j] == q0[j - 1]); }
        }
        assert forall|i: int| 0 <= i < q1.len() implies q1[i] < n && lvl[q1[i] as int] == l && !done[q1[i] as int] by {
            if i > 0 { assert(q1[i] == q0[i - 1]); }
        }
        assert forall|v: int| 0 <= v < n && lvl[v] == l implies mem(q1, v) by {
            if v == x { assert(q1[0] == x); }
            else { let i = choose|i: int| 0 <= i < q0.len() && q0[i] == v; assert(q1[i + 1] == v); }
        }
    } else {
        assert forall|i: int, j: int| 0 <= i < j < q1.len() implies q1[i] != q1[j] by {
            if j == q0.len() { assert(q1[i] == q0[i]); } else { assert(q1[i] == q0[i] && q1[j] == q0[j]); }
        }
        assert forall|i: int| 0 <= i < q1.len() implies q1[i] < n && lvl[q1[i] as int] == l && !done[q1[i] as int] by {
            if i < q0.len() { assert(q1[i] == q0[i]); }
        }
        assert forall|v: int| 0 <= v < n && lvl[v] == l implies mem(q1, v) by {
            if v == x { assert(q1[q0.len() as int] == x); }
            else { let i = choose|i: int| 0 <= i < q0.len() && q0[i] == v; assert(q1[i] == v); }
        }
    }
}
// a finished (or in-progress) group of level l
pub open spec fn group_ok(g: Seq<usize>, done: Seq<bool>, lvl: Seq<int>, l: int, n: int) -> bool {
    &&& nodup(g)
    &&& forall|i: int| 0 <= i < g.len() ==> g[i] < n && lvl[g[i] as int] == l && done[g[i] as int]
}
pub open spec fn groups_inv(groups: Seq<Vec<usize>>, done: Seq<bool>, lvl: Seq<int>, top: int) -> bool {
    let n = done.len() as int;
    &&& groups.len() == top
    &&& forall|g: int| 0 <= g < top ==> group_ok(groups[g]@, done, lvl, g, n) && groups[g]@.len() > 0
    &&& forall|v: int| 0 <= v < n && done[v] && lvl[v] < top ==> mem(groups[lvl[v]]@, v)
}


// ---------- acyclicity vocabulary and the two directions ----------
pub open spec fn ranked(adj: Seq<Seq<usize>>, vis: Seq<bool>, rank: Seq<int>) -> bool {
    &&& rank.len() == adj.len()
    &&& forall|u: int, k: int| 0 <= u < adj.len() && 0 <= k < adj[u].len() && vis[u] && vis[adj[u][k] as int]
            ==> 0 <= #[trigger] rank[u] < rank[(#[trigger] adj[u][k]) as int]
}
pub open spec fn acyclic(adj: Seq<Seq<usize>>, vis: Seq<bool>) -> bool { exists|rank: Seq<int>| ranked(adj, vis, rank) }

// a cycle in the usual sense: a closed walk of visible nodes, length >= 1
pub open spec fn is_cycle(adj: Seq<Seq<usize>>, vis: Seq<bool>, p: Seq<int>) -> bool {
    &&& p.len() >= 2 && p[0] == p[p.len() - 1]
    &&& forall|i: int| 0 <= i < p.len() ==> 0 <= #[trigger] p[i] < adj.len() && vis[p[i]]
    &&& forall|i: int| 0 <= i < p.len() - 1 ==> has_edge(adj, #[trigger] p[i], p[i + 1])
}

pub open spec fn has_edge(adj: Seq<Seq<usize>>, u: int, v: int) -> bool { exists|k: int| 0 <= k < adj[u].len() && #[trigger] adj[u][k] == v }

proof fn lemma_walk_rank(adj: Seq<Seq<usize>>, vis: Seq<bool>, rank: Seq<int>, p: Seq<int>, i: int)
    requires wf(adj, vis), ranked(adj, vis, rank), is_cycle(adj, vis, p), 0 <= i < p.len()
    ensures rank[p[0]] + i <= rank[p[i]]
    decreases i
{
    if i > 0 {
        lemma_walk_rank(adj, vis, rank, p, i - 1);
        let a = p[i - 1];
        let b = p[i];
        assert(has_edge(adj, p[i - 1], p[i - 1 + 1]));
        let k = choose|k: int| 0 <= k < adj[a].len() && #[trigger] adj[a][k] == b;
        assert(rank[a] < rank[adj[a][k] as int]);
    }
}
pub proof fn lemma_cycle_not_acyclic(adj: Seq<Seq<usize>>, vis: Seq<bool>, p: Seq<int>)
    requires wf(adj, vis), is_cycle(adj, vis, p)
    ensures !acyclic(adj, vis)
{
    if acyclic(adj, vis) {
        let rank = choose|rank: Seq<int>| ranked(adj, vis, rank);
        lemma_walk_rank(adj, vis, rank, p, p.len() - 1);
    }
}

// Kahn finished with every visible node placed  ==>  the levels are a rank function
proof fn lemma_done_acyclic(adj: Seq<Seq<usize>>, vis: Seq<bool>, ind: Seq<usize>, done: Seq<bool>, lvl: Seq<int>, top: int)
    requires wf(adj, vis), ind.len() == adj.len(), done.len() == adj.len(), lvl.len() == adj.len(),
        core_inv(adj, vis, ind, done, lvl, top),
        forall|v: int| 0 <= v < adj.len() && vis[v] ==> done[v],
    ensures ranked(adj, vis, lvl), acyclic(adj, vis)
{
    assert forall|u: int, k: int| 0 <= u < adj.len() && 0 <= k < adj[u].len() && vis[u] && vis[adj[u][k] as int]
        implies 0 <= #[trigger] lvl[u] < lvl[(#[trigger] adj[u][k]) as int] by {
        let v = adj[u][k] as int;
        assert(0 <= v < adj.len());
        assert(done[v] && done[u]);
        assert(lvl[v] >= 0 && lvl[u] >= 0);
        assert(edge_inv(adj, vis, done, lvl, u, k));
    }
    assert(ranked(adj, vis, lvl));
}

// Kahn stuck with a visible node unplaced  ==>  no rank function exists
proof fn lemma_descent(adj: Seq<Seq<usize>>, vis: Seq<bool>, ind: Seq<usize>, done: Seq<bool>, lvl: Seq<int>, top: int, rank: Seq<int>, x: int)
    requires wf(adj, vis), ind.len() == adj.len(), done.len() == adj.len(), lvl.len() == adj.len(),
        core_inv(adj, vis, ind, done, lvl, top),
        forall|v: int| 0 <= v < adj.len() ==> (lvl[v] >= 0 <==> done[v]),
        ranked(adj, vis, rank),
        0 <= x < adj.len(), vis[x], !done[x],
    ensures false
    decreases rank[x]
{
    let n = adj.len() as int;
    let a = act(vis, done);
    // x is visible and unplaced, so its in-degree is non-zero: some active node points at it
    assert(ind[x] != 0);
    lemma_cnt_pos(adj, a, x, n);
    let (u, k) = choose|u: int, k: int| 0 <= u < n && a[u] && 0 <= k < adj[u].len() && adj[u][k] == x;
    assert(vis[u] && !done[u]);
    assert(0 <= rank[u] < rank[adj[u][k] as int]);
    lemma_descent(adj, vis, ind, done, lvl, top, rank, u);
}
proof fn lemma_stuck_cyclic(adj: Seq<Seq<usize>>, vis: Seq<bool>, ind: Seq<usize>, done: Seq<bool>, lvl: Seq<int>, top: int, x: int)
    requires wf(adj, vis), ind.len() == adj.len(), done.len() == adj.len(), lvl.len() == adj.len(),
        core_inv(adj, vis, ind, done, lvl, top),
        forall|v: int| 0 <= v < adj.len() ==> (lvl[v] >= 0 <==> done[v]),
        0 <= x < adj.len(), vis[x], !done[x],
    ensures !acyclic(adj, vis)
{
    if acyclic(adj, vis) {
        let rank = choose|rank: Seq<int>| ranked(adj, vis, rank);
        lemma_descent(adj, vis, ind, done, lvl, top, rank, x);
    }
}

// ---------- the user-facing statement of a layering ----------
pub open spec fn at(groups: Seq<Vec<usize>>, g: int, k: int, v: int) -> bool { 0 <= g < groups.len() && 0 <= k < groups[g]@.len() && groups[g]@[k] == v }
pub open spec fn layered(adj: Seq<Seq<usize>>, vis: Seq<bool>, groups: Seq<Vec<usize>>) -> bool {
    let n = adj.len() as int;
    // only visible nodes, every visible node, no node twice, no empty group
    &&& forall|g: int, k: int| 0 <= g < groups.len() && 0 <= k < groups[g]@.len() ==> (#[trigger] groups[g]@[k]) < n && vis[groups[g]@[k] as int]
    &&& forall|v: int| 0 <= v < n && vis[v] ==> exists|g: int, k: int| #[trigger] at(groups, g, k, v)
    &&& forall|g1: int, k1: int, g2: int, k2: int, v: int| #![trigger at(groups, g1, k1, v), at(groups, g2, k2, v)] at(groups, g1, k1, v) && at(groups, g2, k2, v) ==> g1 == g2 && k1 == k2
    &&& forall|g: int| 0 <= g < groups.len() ==> (#[trigger] groups[g])@.len() > 0
    // every dependency edge between visible nodes goes from an earlier group to a strictly later one
    &&& forall|u: int, j: int, gu: int, ku: int, gv: int, kv: int| #![trigger at(groups, gu, ku, u), at(groups, gv, kv, adj[u][j] as int)]
          0 <= u < n && 0 <= j < adj[u].len() && at(groups, gu, ku, u) && at(groups, gv, kv, adj[u][j] as int) ==> gu < gv
}
proof fn lemma_layered(adj: Seq<Seq<usize>>, vis: Seq<bool>, ind: Seq<usize>, done: Seq<bool>, lvl: Seq<int>, groups: Seq<Vec<usize>>)
    requires wf(adj, vis), ind.len() == adj.len(), done.len() == adj.len(), lvl.len() == adj.len(),
        core_inv(adj, vis, ind, done, lvl, groups.len() as int), groups_inv(groups, done, lvl, groups.len() as int),
        forall|v: int| 0 <= v < adj.len() ==> (lvl[v] >= 0 <==> done[v]),
        forall|v: int| 0 <= v < adj.len() && vis[v] ==> done[v],
        forall|v: int| 0 <= v < adj.len() && done[v] ==> lvl[v] < groups.len(),
    ensures layered(adj, vis, groups)
{
    let n = adj.len() as int;
    let top = groups.len() as int;
    assert forall|g: int, k: int| 0 <= g < groups.len() && 0 <= k < groups[g]@.len() implies (#[trigger] groups[g]@[k]) < n && vis[groups[g]@[k] as int] by {
        assert(group_ok(groups[g]@, done, lvl, g, n));
        let x = groups[g]@[k] as int;
        assert(lvl[x] == g);
    }
    assert forall|v: int| 0 <= v < n && vis[v] implies exists|g: int, k: int| #[trigger] at(groups, g, k, v) by {
        assert(done[v] && 0 <= lvl[v] < top);
        assert(mem(groups[lvl[v]]@, v));
        let k = choose|k: int| 0 <= k < groups[lvl[v]]@.len() && groups[lvl[v]]@[k] == v;
        assert(at(groups, lvl[v], k, v));
    }
    assert forall|g1: int, k1: int, g2: int, k2: int, v: int| #![trigger at(groups, g1, k1, v), at(groups, g2, k2, v)] at(groups, g1, k1, v) && at(groups, g2, k2, v) implies g1 == g2 && k1 == k2 by {
        assert(group_ok(groups[g1]@, done, lvl, g1, n));
        assert(group_ok(groups[g2]@, done, lvl, g2, n));
        assert(lvl[groups[g1]@[k1] as int] == g1 && lvl[groups[g2]@[k2] as int] == g2);
        if k1 != k2 { if k1 < k2 { assert(groups[g1]@[k1] != groups[g1]@[k2]); } else { assert(groups[g1]@[k2] != groups[g1]@[k1]); } }
    }
    assert forall|g: int| 0 <= g < groups.len() implies (#[trigger] groups[g])@.len() > 0 by { assert(group_ok(groups[g]@, done, lvl, g, n) && groups[g]@.len() > 0); }
    assert forall|u: int, j: int, gu: int, ku: int, gv: int, kv: int| #![trigger at(groups, gu, ku, u), at(groups, gv, kv, adj[u][j] as int)]
          0 <= u < n && 0 <= j < adj[u].len() && at(groups, gu, ku, u) && at(groups, gv, kv, adj[u][j] as int) implies gu < gv by {
        let v = adj[u][j] as int;
        assert(group_ok(groups[gu]@, done, lvl, gu, n));
        assert(group_ok(groups[gv]@, done, lvl, gv, n));
        assert(lvl[groups[gu]@[ku] as int] == gu && lvl[groups[gv]@[kv] as int] == gv);
        assert(edge_inv(adj, vis, done, lvl, u, j));
        assert(vis[u] && vis[v]) by { assert(lvl[u] >= 0 && lvl[v] >= 0); }
    }
}
// ---------- labelled groups (get_labeled_groups): reverse order, label for node ----------
pub open spec fn labels_of(labels: Seq<String>, group: Seq<usize>, n2l: Map<usize, String>) -> bool {
    &&& labels.len() == group.len()
    &&& forall|k: int| 0 <= k < group.len() ==> n2l.dom().contains(#[trigger] group[k]) && labels[k] == n2l[group[k]]
}
pub open spec fn labeled_rev(o: Seq<Vec<String>>, groups: Seq<Vec<usize>>, n2l: Map<usize, String>) -> bool {
    &&& o.len() == groups.len()
    &&& forall|a: int| 0 <= a < o.len() ==> #[trigger] labels_of(o[a]@, groups[groups.len() - 1 - a]@, n2l)
}
pub open spec fn labeled_layering(o: Seq<Vec<String>>, adj: Seq<Seq<usize>>, vis: Seq<bool>, n2l: Map<usize, String>) -> bool {
    exists|groups: Seq<Vec<usize>>| #[trigger] layered(adj, vis, groups) && labeled_rev(o, groups, n2l)
}
proof fn lemma_layered_bounds(adj: Seq<Seq<usize>>, vis: Seq<bool>, groups: Seq<Vec<usize>>)
    requires layered(adj, vis, groups)
    ensures forall|g: int, k: int| 0 <= g < groups.len() && 0 <= k < groups[g]@.len() ==> (#[trigger] groups[g]@[k]) < adj.len()
{ }

// ================= vocabulary: depth-first marking (reachability, stack invariant) =================
pub open spec fn is_walk(adj: Seq<Seq<usize>>, p: Seq<int>) -> bool {
    &&& p.len() >= 1
    &&& forall|i: int| 0 <= i < p.len() ==> 0 <= #[trigger] p[i] < adj.len()
    &&& forall|i: int| 0 <= i < p.len() - 1 ==> has_edge(adj, #[trigger] p[i], p[i + 1])
}
pub open spec fn reachable(adj: Seq<Seq<usize>>, r: int, v: int) -> bool {
    exists|p: Seq<int>| is_walk(adj, p) && p[0] == r && p[p.len() - 1] == v
}
pub open spec fn closed_walk(adj: Seq<Seq<usize>>, p: Seq<int>) -> bool { is_walk(adj, p) && p.len() >= 2 && p[0] == p[p.len() - 1] }


// remaining children to look at, summed over the stack
pub open spec fn rem(adj: Seq<Seq<usize>>, st: Seq<(usize, usize)>) -> int decreases st.len() {
    if st.len() == 0 { 0 } else { rem(adj, st.drop_last()) + (adj[st.last().0 as int].len() - st.last().1) }
}
proof fn lemma_rem_push(adj: Seq<Seq<usize>>, st: Seq<(usize, usize)>, e: (usize, usize))
    ensures rem(adj, st.push(e)) == rem(adj, st) + (adj[e.0 as int].len() - e.1)
{ assert(st.push(e).drop_last() =~= st); }
proof fn lemma_rem_update_last(adj: Seq<Seq<usize>>, st: Seq<(usize, usize)>, e: (usize, usize))
    requires st.len() > 0
    ensures rem(adj, st.update(st.len() - 1, e)) == rem(adj, st.drop_last()) + (adj[e.0 as int].len() - e.1)
{ assert(st.update(st.len() - 1, e).drop_last() =~= st.drop_last()); }

proof fn lemma_rem_nonneg(adj: Seq<Seq<usize>>, st: Seq<(usize, usize)>)
    requires forall|t: int| 0 <= t < st.len() ==> #[trigger] entry_ok(adj, st, t)
    ensures rem(adj, st) >= 0
    decreases st.len()
{
    if st.len() > 0 {
        assert(entry_ok(adj, st, st.len() - 1));
        assert forall|t: int| 0 <= t < st.drop_last().len() implies #[trigger] entry_ok(adj, st.drop_last(), t) by { assert(entry_ok(adj, st, t)); }
        lemma_rem_nonneg(adj, st.drop_last());
    }
}

pub open spec fn on_stack(st: Seq<(usize, usize)>, x: int) -> bool { exists|t: int| 0 <= t < st.len() && #[trigger] st[t].0 == x }

pub open spec fn entry_ok(adj: Seq<Seq<usize>>, st: Seq<(usize, usize)>, t: int) -> bool {
    st[t].0 < adj.len() && st[t].1 <= adj[st[t].0 as int].len()
}
pub open spec fn link(adj: Seq<Seq<usize>>, st: Seq<(usize, usize)>, t: int) -> bool {
    st[t].1 >= 1 && adj[st[t].0 as int][st[t].1 - 1] == st[t + 1].0
}
pub open spec fn stack_ok(adj: Seq<Seq<usize>>, st: Seq<(usize, usize)>) -> bool {
    &&& forall|t: int| 0 <= t < st.len() ==> #[trigger] entry_ok(adj, st, t)
    &&& forall|t: int| 0 <= t < st.len() - 1 ==> #[trigger] link(adj, st, t)
    &&& forall|s: int, t: int| 0 <= s < t < st.len() ==> (#[trigger] st[s]).0 != (#[trigger] st[t]).0
}

// a closed set that contains r contains everything reachable from r
proof fn lemma_closed_contains_reach(adj: Seq<Seq<usize>>, seen: Seq<bool>, r: int, p: Seq<int>, i: int)
    requires seen.len() == adj.len(), is_walk(adj, p), p[0] == r, 0 <= r < adj.len(), seen[r], 0 <= i < p.len(),
        forall|x: int, k: int| 0 <= x < adj.len() && seen[x] && 0 <= k < adj[x].len() ==> seen[(#[trigger] adj[x][k]) as int],
    ensures seen[p[i]]
    decreases i
{
    if i > 0 {
        lemma_closed_contains_reach(adj, seen, r, p, i - 1);
        assert(has_edge(adj, p[i - 1], p[i - 1 + 1]));
        let a = p[i - 1];
        let k = choose|k: int| 0 <= k < adj[a].len() && #[trigger] adj[a][k] == p[i];
        assert(seen[adj[a][k] as int]);
    }
}

proof fn lemma_reach_step(adj: Seq<Seq<usize>>, r: int, x: int, k: int)
    requires reachable(adj, r, x), 0 <= x < adj.len(), 0 <= k < adj[x].len(), adj[x][k] < adj.len()
    ensures reachable(adj, r, adj[x][k] as int)
{
    let p = choose|p: Seq<int>| is_walk(adj, p) && p[0] == r && p[p.len() - 1] == x;
    let y = adj[x][k] as int;
    let q = p.push(y);
    assert forall|i: int| 0 <= i < q.len() - 1 implies has_edge(adj, #[trigger] q[i], q[i + 1]) by {
        if i < p.len() - 1 { assert(has_edge(adj, p[i], p[i + 1])); assert(q[i] == p[i] && q[i + 1] == p[i + 1]); }
        else { assert(q[i] == x && q[i + 1] == y); }
    }
    assert(is_walk(adj, q) && q[0] == r && q[q.len() - 1] == y);
}


#[verifier::opaque]
pub open spec fn inv(adj: Seq<Seq<usize>>, vis0: Seq<bool>, vis: Seq<bool>, seen: Seq<bool>, st: Seq<(usize, usize)>, node: int, visible: bool) -> bool {
    let n = adj.len() as int;
    &&& seen.len() == n && vis.len() == n && vis0.len() == n && 0 <= node < n
    &&& stack_ok(adj, st)
    &&& forall|x: int| 0 <= x < n && on_stack(st, x) ==> #[trigger] seen[x]
    &&& forall|x: int| 0 <= x < n && #[trigger] seen[x] ==> reachable(adj, node, x) && vis[x] == visible
    &&& forall|x: int| 0 <= x < n && !#[trigger] seen[x] ==> vis[x] == vis0[x]
    &&& forall|x: int, k: int| 0 <= x < n && seen[x] && !on_stack(st, x) && 0 <= k < adj[x].len() ==> seen[(#[trigger] adj[x][k]) as int]
    &&& forall|t: int, k: int| 0 <= t < st.len() && 0 <= k < st[t].1 ==> seen[(#[trigger] adj[st[t].0 as int][k]) as int]
    &&& seen[node]
}

proof fn lemma_init(adj: Seq<Seq<usize>>, vis0: Seq<bool>, nd: usize, visible: bool)
    requires wf(adj, vis0), 0 <= nd < adj.len()
    ensures inv(adj, vis0, vis0.update(nd as int, visible), Seq::new(adj.len(), |i: int| false).update(nd as int, true), seq![(nd, 0usize)], nd as int, visible)
{
    reveal(inv);
    let node = nd as int;
    let st = seq![(nd, 0usize)];
    let p = seq![node];
    assert(is_walk(adj, p) && p[0] == node && p[p.len() - 1] == node);
    assert(reachable(adj, node, node));
    assert(st[0].0 == node);
    assert(on_stack(st, node));
    assert(entry_ok(adj, st, 0));
}

// the top entry looked at a child that was already seen and is not on the path
proof fn lemma_advance(adj: Seq<Seq<usize>>, vis0: Seq<bool>, vis: Seq<bool>, seen: Seq<bool>, st: Seq<(usize, usize)>, node: int, visible: bool)
    requires wf(adj, vis0), inv(adj, vis0, vis, seen, st, node, visible), st.len() > 0,
        st.last().1 < adj[st.last().0 as int].len(),
        seen[adj[st.last().0 as int][st.last().1 as int] as int],
    ensures ({
        let e = (st.last().0, (st.last().1 + 1) as usize);
        let st2 = st.update(st.len() - 1, e);
        &&& inv(adj, vis0, vis, seen, st2, node, visible)
        &&& rem(adj, st2) == rem(adj, st) - 1
        &&& forall|x: int| on_stack(st2, x) <==> on_stack(st, x)
    })
{
    reveal(inv);
    let top = st.len() - 1;
    let e = (st.last().0, (st.last().1 + 1) as usize);
    let st2 = st.update(top, e);
    assert forall|x: int| on_stack(st2, x) <==> on_stack(st, x) by {
        if on_stack(st2, x) { let t = choose|t: int| 0 <= t < st2.len() && #[trigger] st2[t].0 == x; assert(st[t].0 == x); }
        if on_stack(st, x) { let t = choose|t: int| 0 <= t < st.len() && #[trigger] st[t].0 == x; assert(st2[t].0 == x); }
    }
    assert(stack_ok(adj, st2)) by {
        assert forall|t: int| 0 <= t < st2.len() implies #[trigger] entry_ok(adj, st2, t) by {
            assert(entry_ok(adj, st, t));
        }
        assert forall|t: int| 0 <= t < st2.len() - 1 implies #[trigger] link(adj, st2, t) by {
            assert(link(adj, st, t));
            assert(st2[t] == st[t]);
        }
        assert forall|s: int, t: int| 0 <= s < t < st2.len() implies (#[trigger] st2[s]).0 != (#[trigger] st2[t]).0 by {
            assert(st[s].0 != st[t].0);
        }
    }
    assert(entry_ok(adj, st, top));
    assert forall|t: int, k: int| 0 <= t < st2.len() && 0 <= k < st2[t].1 implies seen[(#[trigger] adj[st2[t].0 as int][k]) as int] by {
        if t == top && k == st.last().1 { } else { assert(seen[adj[st[t].0 as int][k] as int]); }
    }
    lemma_rem_update_last(adj, st, e);
}

// the top entry looked at a fresh child: it is marked and pushed
proof fn lemma_push(adj: Seq<Seq<usize>>, vis0: Seq<bool>, vis: Seq<bool>, seen: Seq<bool>, st: Seq<(usize, usize)>, node: int, visible: bool)
    requires wf(adj, vis0), inv(adj, vis0, vis, seen, st, node, visible), st.len() > 0,
        st.last().1 < adj[st.last().0 as int].len(),
        !seen[adj[st.last().0 as int][st.last().1 as int] as int],
    ensures ({
        let d = adj[st.last().0 as int][st.last().1 as int];
        let e = (st.last().0, (st.last().1 + 1) as usize);
        let st2 = st.update(st.len() - 1, e).push((d, 0usize));
        &&& inv(adj, vis0, vis.update(d as int, visible), seen.update(d as int, true), st2, node, visible)
        &&& nfalse(seen.update(d as int, true), adj.len() as int) < nfalse(seen, adj.len() as int)
        &&& forall|x: int| on_stack(st2, x) <==> (on_stack(st, x) || x == d)
    })
{
    reveal(inv);
    let top = st.len() - 1;
    let n1 = st.last().0 as int;
    let d = adj[n1][st.last().1 as int];
    let e = (st.last().0, (st.last().1 + 1) as usize);
    let st1 = st.update(top, e);
    let st2 = st1.push((d, 0usize));
    let seen2 = seen.update(d as int, true);
    let vis2 = vis.update(d as int, visible);
    assert(entry_ok(adj, st, top));
    assert(d < adj.len());
    assert(on_stack(st, n1)) by { assert(st[top].0 == n1); }
    assert(!on_stack(st, d as int));
    assert forall|x: int| on_stack(st2, x) <==> (on_stack(st, x) || x == d) by {
        if on_stack(st2, x) { let t = choose|t: int| 0 <= t < st2.len() && #[trigger] st2[t].0 == x; if t < st.len() { assert(st[t].0 == x); } }
        if on_stack(st, x) { let t = choose|t: int| 0 <= t < st.len() && #[trigger] st[t].0 == x; assert(st2[t].0 == x); }
        if x == d { assert(st2[st.len() as int].0 == d); }
    }
    assert(stack_ok(adj, st2)) by {
        assert forall|t: int| 0 <= t < st2.len() implies #[trigger] entry_ok(adj, st2, t) by {
            if t < st.len() { assert(entry_ok(adj, st, t)); }
        }
        assert forall|t: int| 0 <= t < st2.len() - 1 implies #[trigger] link(adj, st2, t) by {
            if t < top { assert(link(adj, st, t)); assert(st2[t] == st[t]); assert(st2[t + 1].0 == st[t + 1].0); }
            else { assert(st2[t] == e); assert(st2[t + 1] == (d, 0usize)); assert(adj[n1].len() <= usize::MAX); }
        }
        assert forall|s: int, t: int| 0 <= s < t < st2.len() implies (#[trigger] st2[s]).0 != (#[trigger] st2[t]).0 by {
            if t < st.len() { assert(st[s].0 != st[t].0); } else { assert(st[s].0 == st2[s].0); assert(on_stack(st, st[s].0 as int)); }
        }
    }
    assert(seen[n1]);
    lemma_reach_step(adj, node, n1, st.last().1 as int);
    assert forall|x: int, k: int| 0 <= x < adj.len() && seen2[x] && !on_stack(st2, x) && 0 <= k < adj[x].len() implies seen2[(#[trigger] adj[x][k]) as int] by {
        assert(seen[x] && !on_stack(st, x));
        assert(seen[adj[x][k] as int]);
    }
    assert forall|t: int, k: int| 0 <= t < st2.len() && 0 <= k < st2[t].1 implies seen2[(#[trigger] adj[st2[t].0 as int][k]) as int] by {
        if t == top && k == st.last().1 { } else if t < st.len() { assert(seen[adj[st[t].0 as int][k] as int]); }
    }
    lemma_nfalse_update(seen, d as int, adj.len() as int);
}

// the top entry has no child left
proof fn lemma_pop(adj: Seq<Seq<usize>>, vis0: Seq<bool>, vis: Seq<bool>, seen: Seq<bool>, st: Seq<(usize, usize)>, node: int, visible: bool)
    requires wf(adj, vis0), inv(adj, vis0, vis, seen, st, node, visible), st.len() > 0,
        st.last().1 == adj[st.last().0 as int].len(),
    ensures ({
        let st2 = st.drop_last();
        &&& inv(adj, vis0, vis, seen, st2, node, visible)
        &&& rem(adj, st2) == rem(adj, st)
        &&& forall|x: int| on_stack(st2, x) <==> (on_stack(st, x) && x != st.last().0)
    })
{
    reveal(inv);
    let top = st.len() - 1;
    let n1 = st.last().0 as int;
    let st2 = st.drop_last();
    assert forall|x: int| on_stack(st2, x) <==> (on_stack(st, x) && x != n1) by {
        if on_stack(st2, x) { let t = choose|t: int| 0 <= t < st2.len() && #[trigger] st2[t].0 == x; assert(st[t].0 == x); assert(st[t].0 != st[top].0); }
        if on_stack(st, x) && x != n1 { let t = choose|t: int| 0 <= t < st.len() && #[trigger] st[t].0 == x; assert(st2[t].0 == x); }
    }
    assert(stack_ok(adj, st2)) by {
        assert forall|t: int| 0 <= t < st2.len() implies #[trigger] entry_ok(adj, st2, t) by { assert(entry_ok(adj, st, t)); }
        assert forall|t: int| 0 <= t < st2.len() - 1 implies #[trigger] link(adj, st2, t) by { assert(link(adj, st, t)); }
        assert forall|s: int, t: int| 0 <= s < t < st2.len() implies (#[trigger] st2[s]).0 != (#[trigger] st2[t]).0 by { assert(st[s].0 != st[t].0); }
    }
    assert(entry_ok(adj, st, top));
    assert forall|x: int, k: int| 0 <= x < adj.len() && seen[x] && !on_stack(st2, x) && 0 <= k < adj[x].len() implies seen[(#[trigger] adj[x][k]) as int] by {
        if x == n1 { assert(seen[adj[st[top].0 as int][k] as int]); } else { assert(!on_stack(st, x)); }
    }
    assert forall|t: int, k: int| 0 <= t < st2.len() && 0 <= k < st2[t].1 implies seen[(#[trigger] adj[st2[t].0 as int][k]) as int] by {
        assert(seen[adj[st[t].0 as int][k] as int]);
    }
    assert forall|x: int| 0 <= x < adj.len() && on_stack(st2, x) implies #[trigger] seen[x] by { assert(on_stack(st, x)); }
}

proof fn lemma_inv_top(adj: Seq<Seq<usize>>, vis0: Seq<bool>, vis: Seq<bool>, seen: Seq<bool>, st: Seq<(usize, usize)>, node: int, visible: bool)
    requires wf(adj, vis0), inv(adj, vis0, vis, seen, st, node, visible), st.len() > 0
    ensures stack_ok(adj, st), entry_ok(adj, st, st.len() - 1), vis.len() == adj.len(), seen.len() == adj.len(),
        adj[st.last().0 as int].len() <= usize::MAX,
        st.last().1 < adj[st.last().0 as int].len() ==> adj[st.last().0 as int][st.last().1 as int] < adj.len(),
{
    reveal(inv);
    assert(entry_ok(adj, st, st.len() - 1));
}

// reaching a node of the current path closes a walk
proof fn lemma_cycle(adj: Seq<Seq<usize>>, st: Seq<(usize, usize)>, d: int)
    requires stack_ok(adj, st), st.len() > 0, st.last().1 < adj[st.last().0 as int].len(),
        adj[st.last().0 as int][st.last().1 as int] == d, on_stack(st, d),
        forall|u: int, k: int| 0 <= u < adj.len() && 0 <= k < adj[u].len() ==> (#[trigger] adj[u][k]) < adj.len(),
    ensures exists|p: Seq<int>| closed_walk(adj, p)
{
    let t0 = choose|t: int| 0 <= t < st.len() && #[trigger] st[t].0 == d;
    let top = st.len() - 1;
    lemma_stack_walk(adj, st, t0, top);
    let q = choose|q: Seq<int>| is_walk(adj, q) && q[0] == st[t0].0 && q[q.len() - 1] == st[top].0;
    let p = q.push(d);
    assert(entry_ok(adj, st, top));
    assert(entry_ok(adj, st, t0));
    assert forall|i: int| 0 <= i < p.len() - 1 implies has_edge(adj, #[trigger] p[i], p[i + 1]) by {
        if i < q.len() - 1 { assert(has_edge(adj, q[i], q[i + 1])); assert(p[i] == q[i] && p[i + 1] == q[i + 1]); }
        else { let u = st[top].0 as int; let k = st.last().1 as int; assert(adj[u][k] == d); assert(p[i] == u && p[i + 1] == d); }
    }
    assert(closed_walk(adj, p));
}

// the nodes st[a..=b] of the stack form a walk
proof fn lemma_stack_walk(adj: Seq<Seq<usize>>, st: Seq<(usize, usize)>, a: int, b: int)
    requires stack_ok(adj, st), 0 <= a <= b < st.len()
    ensures exists|q: Seq<int>| is_walk(adj, q) && q[0] == st[a].0 && q[q.len() - 1] == st[b].0
    decreases b - a
{
    if a == b {
        let q = seq![st[a].0 as int];
        assert(entry_ok(adj, st, a));
        assert(is_walk(adj, q) && q[0] == st[a].0 && q[q.len() - 1] == st[b].0);
    } else {
        lemma_stack_walk(adj, st, a, b - 1);
        let q0 = choose|q: Seq<int>| is_walk(adj, q) && q[0] == st[a].0 && q[q.len() - 1] == st[b - 1].0;
        let q = q0.push(st[b].0 as int);
        assert(link(adj, st, b - 1));
        assert(entry_ok(adj, st, b - 1));
        assert(entry_ok(adj, st, b));
        assert forall|i: int| 0 <= i < q.len() - 1 implies has_edge(adj, #[trigger] q[i], q[i + 1]) by {
            if i < q0.len() - 1 { assert(has_edge(adj, q0[i], q0[i + 1])); assert(q[i] == q0[i] && q[i + 1] == q0[i + 1]); }
            else { let u = st[b - 1].0 as int; let k = st[b - 1].1 - 1; assert(adj[u][k] == st[b].0); assert(q[i] == u); }
        }
        assert(is_walk(adj, q) && q[0] == st[a].0 && q[q.len() - 1] == st[b].0);
    }
}

proof fn lemma_final(adj: Seq<Seq<usize>>, vis0: Seq<bool>, vis: Seq<bool>, seen: Seq<bool>, node: int, visible: bool)
    requires wf(adj, vis0), inv(adj, vis0, vis, seen, Seq::<(usize, usize)>::empty(), node, visible)
    ensures forall|v: int| 0 <= v < adj.len() ==> vis[v] == (if reachable(adj, node, v) { visible } else { vis0[v] })
{
    reveal(inv);
    let st = Seq::<(usize, usize)>::empty();
    assert forall|x: int| !on_stack(st, x) by { }
    assert forall|x: int, k: int| 0 <= x < adj.len() && seen[x] && 0 <= k < adj[x].len() implies seen[(#[trigger] adj[x][k]) as int] by {
        assert(!on_stack(st, x));
    }
    assert forall|v: int| 0 <= v < adj.len() implies vis[v] == (if reachable(adj, node, v) { visible } else { vis0[v] }) by {
        if reachable(adj, node, v) {
            let p = choose|p: Seq<int>| is_walk(adj, p) && p[0] == node && p[p.len() - 1] == v;
            lemma_closed_contains_reach(adj, seen, node, p, p.len() - 1);
            assert(seen[v]);
            assert(vis[v] == visible);
        } else {
            assert(!seen[v]);
            assert(vis[v] == vis0[v]);
        }
    }
}

// ================= repository text =================
//!type src/core/graph.rs GraphError
pub enum GraphError {
    DotFileIo(std::io::Error),
    LabelNotFound(usize),
    Cycle(usize, String),
    Connected,
    DuplicateLabel(String),
    LabelNodeNotFound(String),
}
//!end
//!type src/core/graph.rs CycleState
@#[derive(PartialEq, Eq, Structural)]
pub enum CycleState {
    Unknown,
    Yes(usize),
    No,
}
//!end
//!type src/core/graph.rs Dag
pub struct Dag {
    // Adjacency list storing dependencies.
    pub adj_list: Vec<Vec<usize>>,
    pub visibility: Vec<bool>,
    pub cycle_state: CycleState,

    pub label2node: HashMap<String, usize>,
    pub node2label: HashMap<usize, String>,
}
//!end

impl Dag {
    pub open spec fn adj(&self) -> Seq<Seq<usize>> { rows(self.adj_list@) }
    pub open spec fn labels_total(&self) -> bool { forall|i: usize| i < self.adj_list@.len() ==> #[trigger] self.node2label@.dom().contains(i) }

//!fn src/core/graph.rs Dag::new props=C03,C09
    pub fn new(size: usize) -> ⟦(r: ⟧Self⟦)⟧
@        ensures
@            r.adj_list@.len() == size, r.visibility@.len() == size,
@            forall|i: int| 0 <= i < size ==> (#[trigger] r.adj_list@[i])@.len() == 0,
@            forall|i: int| 0 <= i < size ==> !(#[trigger] r.visibility@[i]),
@            r.cycle_state is Unknown,
@            r.label2node@ == Map::<Seq<char>, usize>::empty(), r.node2label@ == Map::<usize, String>::empty(),
    {
        Self {
            adj_list: vec![vec![]; size],
            visibility: vec![false; size],
            cycle_state: CycleState::Unknown,
            label2node: HashMap::with_capacity(size),
            node2label: HashMap::with_capacity(size),
        }
    }
//!end

//!fn src/core/graph.rs Dag::get_labeled_groups rules=R3 props=C03,C09
    pub fn get_labeled_groups(&mut self) -> ⟦(res: ⟧Result<Vec<Vec<String>>, GraphError>⟦)⟧
@        requires
@            wf(old(self).adj(), old(self).visibility@), old(self).cycle_state is Unknown, old(self).labels_total(),
@            forall|v: int| 0 <= v < old(self).adj().len() ==> cnt(old(self).adj(), old(self).visibility@, v, old(self).adj().len() as int) <= usize::MAX,
@        ensures
@            final(self).adj() == old(self).adj(), final(self).visibility@ == old(self).visibility@, final(self).node2label@ == old(self).node2label@,
@            // C03: the labelled groups are the node groups of a valid layering, in reverse order (dependencies first), label for node
@            res matches Ok(o) ==> labeled_layering(o@, old(self).adj(), old(self).visibility@, old(self).node2label@), // [C03]
@            // C03 / C09: success exactly for acyclic visible subgraphs, and the error is the cycle error
@            acyclic(old(self).adj(), old(self).visibility@) <==> res is Ok,
@            res matches Err(e) ==> e is Cycle,
    {
        let groups = self.get_groups()?;
        let mut o⟦: Vec<Vec<String>>⟧ = Vec::with_capacity(groups.len());
@        proof { lemma_layered_bounds(old(self).adj(), old(self).visibility@, groups@); }
        for group__i in 0..groups.len()
@            invariant
@                self.adj() == old(self).adj(), self.visibility@ == old(self).visibility@, self.node2label@ == old(self).node2label@, self.labels_total(),
@                layered(self.adj(), self.visibility@, groups@),
@                o@.len() == group__i,
@                forall|a: int| 0 <= a < o@.len() ==> #[trigger] labels_of(o@[a]@, groups@[groups@.len() - 1 - a]@, self.node2label@),
        { let group = &groups[groups.len() - 1 - group__i];
            let mut labels⟦: Vec<String>⟧ = vec![];
            for node in ⟦it: ⟧group
@                invariant
@                    self.adj() == old(self).adj(), self.visibility@ == old(self).visibility@, self.node2label@ == old(self).node2label@, self.labels_total(),
@                    layered(self.adj(), self.visibility@, groups@), 0 <= group__i < groups@.len(), group == &groups@[groups@.len() - 1 - group__i],
@                    it.seq().len() == group@.len(),
@                    forall|j: int| 0 <= j < group@.len() ==> *it.seq()[j] == group@[j],
@                    labels@.len() == it.index@,
@                    forall|k: int| 0 <= k < labels@.len() ==> self.node2label@.dom().contains(group@[k]) && #[trigger] labels@[k] == self.node2label@[group@[k]],
            {
@                assert(*node == groups@[groups@.len() - 1 - group__i]@[it.index@ as int]);
@                assert(*node < self.adj_list@.len());
                let label = self.get_label_by_node(node)?;
                labels.push(label.to_owned());
            }
            o.push(labels);
        }
@        assert(layered(old(self).adj(), old(self).visibility@, groups@) && labeled_rev(o@, groups@, old(self).node2label@));
        Ok(o)
    }
//!end

//!fn src/core/graph.rs Dag::set props=C03,C10
    pub fn set(&mut self, node: usize, nodes: Vec<usize>)
@        requires node < old(self).adj_list@.len(), old(self).cycle_state is Unknown,
@        ensures
@            final(self).adj_list@ == old(self).adj_list@.update(node as int, nodes),
@            final(self).visibility == old(self).visibility, final(self).cycle_state == old(self).cycle_state,
@            final(self).label2node == old(self).label2node, final(self).node2label == old(self).node2label,
    {
        self.adj_list[node] = nodes;
    }
//!end

//!fn src/core/graph.rs Dag::set_label props=C03,C10
    pub fn set_label(&mut self, label: &str, node: usize) -> ⟦(r: ⟧Result<(), GraphError>⟦)⟧
@        ensures
@            final(self).adj_list == old(self).adj_list, final(self).visibility == old(self).visibility, final(self).cycle_state == old(self).cycle_state,
@            r is Ok <==> !old(self).label2node@.dom().contains(label@),
@            r is Ok ==> final(self).label2node@ == old(self).label2node@.insert(label@, node)
@                && final(self).node2label@.dom() == old(self).node2label@.dom().insert(node)
@                && final(self).node2label@[node]@ == label@
@                && (forall|k: usize| k != node && old(self).node2label@.dom().contains(k) ==> final(self).node2label@[k] == old(self).node2label@[k]),
@            r is Err ==> final(self).label2node == old(self).label2node && final(self).node2label == old(self).node2label && r->Err_0 is DuplicateLabel,
    {
        if self.label2node.contains_key(label) {
            return Err(GraphError::DuplicateLabel(label.to_owned()));
        }
        // update internal hashmaps
        let l = label.to_owned();
        self.label2node.insert(l.clone(), node);
        self.node2label.insert(node, l);
        Ok(())
    }
//!end

//!fn src/core/graph.rs Dag::get_node_by_label props=C03,C05
    pub(crate) fn get_node_by_label(&self, label: &str) -> ⟦(r: ⟧Result<usize, GraphError>⟦)⟧
@        ensures
@            r is Ok <==> self.label2node@.dom().contains(label@),
@            r matches Ok(n) ==> self.label2node@[label@] == n,
@            r matches Err(e) ==> e is LabelNodeNotFound,
    {
        self.label2node
            .get(label)
            .copied()
            .ok_or(GraphError::LabelNodeNotFound(label.to_owned()))
    }
//!end

//!fn src/core/graph.rs Dag::get_label_by_node props=C03,C09
    pub(crate) fn get_label_by_node(&self, node: &usize) -> ⟦(r:⟧ Result<&String, GraphError>⟦)⟧
@        ensures
@            r is Ok <==> self.node2label@.dom().contains(*node),
@            r matches Ok(l) ==> *l == self.node2label@[*node],
@            r matches Err(e) ==> e is LabelNotFound,
    {
        self.node2label
            .get(node)
            .ok_or(GraphError::LabelNotFound(*node))
    }
//!end
//!fn src/core/graph.rs Dag::check_acyclic props=C03,C09
    fn check_acyclic(&self) -> ⟦(r:⟧ Result<(), GraphError>⟦)⟧
       @ensures r is Ok <==> !(self.cycle_state is Yes),
           @r matches Err(e) ==> (e is Cycle || e is LabelNotFound),
           @(r is Err && self.labels_total() && (self.cycle_state matches CycleState::Yes(i) && i < self.adj_list@.len())) ==> r->Err_0 is Cycle,
    {
        if let CycleState::Yes(cycle_node) = self.cycle_state {
            let label = self.get_label_by_node(&cycle_node)?;
            return Err(GraphError::Cycle(cycle_node, label.to_owned()));
        }
        Ok(())
    }
//!end
//!fn src/core/graph.rs Dag::set_cycle_state rules=R3,R4 props=C03,C09
    fn set_cycle_state(&mut self, in_degree: &[usize])
       @requires in_degree@.len() == old(self).visibility@.len()
       @ensures
           @final(self).adj_list == old(self).adj_list, final(self).visibility == old(self).visibility,
           @final(self).label2node == old(self).label2node, final(self).node2label == old(self).node2label,
           @!(final(self).cycle_state is Unknown),
           @final(self).cycle_state matches CycleState::Yes(i) ==> i < in_degree@.len() && old(self).visibility@[i as int] && in_degree@[i as int] != 0,
           @final(self).cycle_state is No ==> forall|i: int| 0 <= i < in_degree@.len() && old(self).visibility@[i] ==> in_degree@[i] == 0,
    {
        for i in 0..in_degree.len()
           @invariant
               @in_degree@.len() == self.visibility@.len(),
               @self.adj_list == old(self).adj_list, self.visibility == old(self).visibility,
               @self.label2node == old(self).label2node, self.node2label == old(self).node2label,
               @forall|j: int| 0 <= j < i && self.visibility@[j] ==> in_degree@[j] == 0,
        { let node = in_degree[i];
            if self.visibility[i] && node != 0 {
                self.cycle_state = CycleState::Yes(i);
                return;
            }
        }
        self.cycle_state = CycleState::No;
    }
//!end
//!fn src/core/graph.rs Dag::set_subtree_visibility props=C03,C09
    pub fn set_subtree_visibility(&mut self, node: usize, visible: bool) -> ⟦(res:⟧ Result<(), GraphError>⟦)⟧
       @requires wf(old(self).adj(), old(self).visibility@), node < old(self).adj().len(),
       @ensures
           @final(self).adj() == old(self).adj(), final(self).visibility@.len() == old(self).visibility@.len(),
           @res is Ok ==> forall|v: int| 0 <= v < old(self).adj().len() ==>
               @final(self).visibility@[v] == (if reachable(old(self).adj(), node as int, v) { visible } else { old(self).visibility@[v] }),
           @res is Err ==> exists|p: Seq<int>| closed_walk(old(self).adj(), p),
    {
       @let ghost adj = self.adj();
       @let ghost vis0 = self.visibility@;
       @let ghost gn = adj.len() as int;
        let mut visited⟦: HashSet<usize>⟧ = HashSet::new();
        let mut active⟦: HashSet<usize>⟧ = HashSet::new();
        let mut stack: Vec<(usize, usize)> = Vec::new();
       @let ghost mut seen: Seq<bool> = Seq::new(gn as nat, |i: int| false);
        self.visibility[node] = visible;
        visited.insert(node);
        active.insert(node);
        stack.push((node, 0));
       @proof {
           @seen = seen.update(node as int, true);
           @lemma_init(adj, vis0, node, visible);
           @assert(stack@ =~= seq![(node, 0usize)]);
           @assert forall|x: usize| active@.contains(x) <==> on_stack(stack@, x as int) by {
               @if x == node { assert(stack@[0].0 == x); }
           @}
       @}
        while !stack.is_empty()
           @invariant
               @adj == self.adj(), adj == old(self).adj(), vis0 == old(self).visibility@, gn == adj.len(), wf(adj, vis0), node < gn,
               @inv(adj, vis0, self.visibility@, seen, stack@, node as int, visible), self.visibility@.len() == gn, seen.len() == gn,
               @forall|x: usize| #![trigger visited@.contains(x)] visited@.contains(x) <==> (x < gn && seen[x as int]),
               @forall|x: usize| active@.contains(x) <==> on_stack(stack@, x as int),
           @decreases nfalse(seen, gn), rem(adj, stack@), stack@.len(),
        {
            let top = stack.len() - 1;
            let (n, next) = stack[top];
           @let ghost st = stack@;
           @let ghost vis = self.visibility@;
           @let ghost seen_old = seen;
           @let ghost vstart = visited@;
           @assert(vstart.contains(node) <==> (node < gn && seen_old[node as int]));
           @assert(forall|x: usize| #![trigger vstart.contains(x)] vstart.contains(x) <==> (x < gn && seen_old[x as int]));
           @proof { lemma_inv_top(adj, vis0, vis, seen, st, node as int, visible); }
           @assert(self.adj_list[n as int]@ == adj[n as int]);
            if next < self.adj_list[n].len() {
                stack[top] = (n, next + 1);
               @assert(stack@ =~= st.update(top as int, (st.last().0, (st.last().1 + 1) as usize)));
                let depn = self.adj_list[n][next];
               @assert(depn == adj[n as int][next as int] && depn < gn);
                if active.contains(&depn) {
                   @proof { lemma_cycle(adj, st, depn as int); }
                    let label = self.get_label_by_node(&depn)?;
                    return Err(GraphError::Cycle(depn, label.to_owned()));
                }
                if !visited.contains(&depn) {
                   @proof { lemma_push(adj, vis0, vis, seen, st, node as int, visible); seen = seen.update(depn as int, true); }
                   @let ghost v0 = visited@;
                   @assert(v0 == vstart);
                   @let ghost a0 = active@;
                    self.visibility[depn] = visible;
                    visited.insert(depn);
                   @assert(visited@ == v0.insert(depn));
                    active.insert(depn);
                   @assert(active@ == a0.insert(depn));
                    stack.push((depn, 0));
                   @assert(stack@ =~= st.update(top as int, (st.last().0, (st.last().1 + 1) as usize)).push((depn, 0usize)));
                   @assert forall|x: usize| visited@.contains(x) <==> (x < gn && seen[x as int]) by {
                       @if x == depn { assert(seen[depn as int]); } else { assert(v0.contains(x) == visited@.contains(x)); assert(v0.contains(x) <==> (x < gn && seen_old[x as int])); if x < gn { assert(seen[x as int] == seen_old[x as int]); } }
                   @}
                   @assert forall|x: usize| active@.contains(x) <==> on_stack(stack@, x as int) by { }
                   @assert(nfalse(seen, gn) < nfalse(seen_old, gn));
                } ⟦else {⟧
                   @proof {
                       @lemma_advance(adj, vis0, vis, seen, st, node as int, visible);
                       @reveal(inv);
                       @lemma_rem_nonneg(adj, stack@);
                   @}
                   @assert(rem(adj, stack@) == rem(adj, st) - 1);
               @}
            } else {
               @proof { lemma_pop(adj, vis0, vis, seen, st, node as int, visible); }
                active.remove(&n);
                stack.pop();
               @assert(stack@ =~= st.drop_last());
               @assert(rem(adj, stack@) == rem(adj, st));
            }
        }
       @proof {
           @assert(stack@ =~= Seq::<(usize, usize)>::empty());
           @lemma_final(adj, vis0, self.visibility@, seen, node as int, visible);
       @}
        Ok(())
    }
//!end
//!fn src/core/graph.rs Dag::get_groups rules=R3,R4 props=C03,C09
    pub fn get_groups(&mut self) -> ⟦(res:⟧ Result<Vec<Vec<usize>>, GraphError>⟦)⟧
       @requires
           @wf(old(self).adj(), old(self).visibility@), old(self).cycle_state is Unknown, old(self).labels_total(),
           @forall|v: int| 0 <= v < old(self).adj().len() ==> cnt(old(self).adj(), old(self).visibility@, v, old(self).adj().len() as int) <= usize::MAX,
       @ensures
           @final(self).adj() == old(self).adj(), final(self).visibility@ == old(self).visibility@,
           @final(self).node2label == old(self).node2label, final(self).label2node == old(self).label2node,
            // C03: success yields a layering of exactly the visible nodes
           @res matches Ok(groups) ==> layered(old(self).adj(), old(self).visibility@, groups@),
            // C03: an acyclic visible subgraph is never rejected;  C09: a cyclic one always is, with a Cycle error
           @acyclic(old(self).adj(), old(self).visibility@) <==> res is Ok,
           @res matches Err(e) ==> e is Cycle,
    {
        self.check_acyclic()?;

        let mut groups⟦: Vec<Vec<usize>>⟧ = Vec::new();
        let mut in_degree⟦: Vec<usize>⟧ = vec![0; self.adj_list.len()];
        let mut work⟦: VecDeque<usize>⟧ = VecDeque::new();
       @let ghost adj = self.adj();
       @let ghost vis = self.visibility@;
       @let ghost n = adj.len() as int;
       @let ghost mut done: Seq<bool> = Seq::new(n as nat, |i: int| false);
       @let ghost mut lvl: Seq<int> = Seq::new(n as nat, |i: int| -1int);

        for i in 0..self.adj_list.len()
           @invariant
               @adj == self.adj(), vis == self.visibility@, n == adj.len(), wf(adj, vis), adj == old(self).adj(), vis == old(self).visibility@, self.cycle_state is Unknown, self.labels_total(),
               @in_degree@.len() == n,
               @forall|v: int| 0 <= v < n ==> cnt(adj, vis, v, n) <= usize::MAX,
               @forall|v: int| 0 <= v < n ==> in_degree@[v] == cnt(adj, vis, v, i as int),
        {
            let nodes = &self.adj_list[i];
           @assert(nodes@ == adj[i as int]);
            if self.visibility[i] {
                for n__r in ⟦it:⟧ nodes
                   @invariant
                       @adj == self.adj(), vis == self.visibility@, n == adj.len(), wf(adj, vis), adj == old(self).adj(), vis == old(self).visibility@, self.cycle_state is Unknown, self.labels_total(),
                       @0 <= i < n, vis[i as int], nodes@ == adj[i as int],
                       @in_degree@.len() == n,
                       @it.seq().len() == nodes@.len(),
                       @forall|j: int| 0 <= j < nodes@.len() ==> *it.seq()[j] == nodes@[j],
                       @forall|v: int| 0 <= v < n ==> cnt(adj, vis, v, n) <= usize::MAX,
                       @forall|v: int| 0 <= v < n ==> in_degree@[v] == cnt(adj, vis, v, i as int) + cnt_row(nodes@.take(it.index@), v),
                {
                    let n = *n__r;
                   @let ghost k = it.index@;
                   @assert(n == adj[i as int][k]);
                   @proof {
                       @assert forall|v: int| 0 <= v < adj.len() implies
                           @cnt_row(nodes@.take(k + 1), v) == cnt_row(nodes@.take(k), v) + if nodes@[k] == v { 1nat } else { 0nat }
                           @&& cnt(adj, vis, v, i as int) + cnt_row(nodes@.take(k + 1), v) <= usize::MAX by {
                           @lemma_cnt_row_take(nodes@, k, v);
                           @lemma_cnt_row_mono(nodes@, k + 1, v);
                           @lemma_cnt_mono(adj, vis, v, i as int + 1, adj.len() as int);
                       @}
                   @}
                    in_degree[n] += 1;
                }
               @proof { assert(nodes@.take(nodes@.len() as int) =~= nodes@); }
            }
        }

       @proof { assert(act(vis, done) =~= vis); }
        for node in 0..in_degree.len()
           @invariant
               @adj == self.adj(), vis == self.visibility@, n == adj.len(), wf(adj, vis), adj == old(self).adj(), vis == old(self).visibility@, self.cycle_state is Unknown, self.labels_total(),
               @in_degree@.len() == n, done.len() == n, lvl.len() == n,
               @done == Seq::new(n as nat, |i: int| false),
               @forall|v: int| 0 <= v < n ==> in_degree@[v] == cnt(adj, vis, v, n),
               @forall|v: int| 0 <= v < n ==> (lvl[v] == 0 || lvl[v] == -1),
               @forall|v: int| 0 <= v < n ==> (lvl[v] == 0 <==> (v < node && vis[v] && in_degree@[v] == 0)),
               @queue_ok(work@, done, lvl, 0, n),
               @forall|v: int| 0 <= v < n && lvl[v] == 0 ==> mem(work@, v),
        {
            let degree = in_degree[node];
            if degree == 0 && self.visibility[node] {
               @let ghost w0 = work@;
               @proof { lvl = lvl.update(node as int, 0); }
                work.push_back(node);
               @proof {
                   @assert(work@ =~= seq![node].add(w0) || work@ =~= w0.push(node));
                   @lemma_queue_insert(w0, work@, node, done, lvl, 0, n);
               @}
            }
        }
       @proof {
           @assert(act(vis, done) =~= vis);
           @assert forall|u: int, k: int| 0 <= u < n && 0 <= k < adj[u].len() implies edge_inv(adj, vis, done, lvl, u, k) by {
               @let v = adj[u][k] as int;
               @if vis[u] && vis[v] && lvl[v] >= 0 {
                   @lemma_cnt_zero(adj, vis, v, n, u, k);
               @}
           @}
       @}

        while !work.is_empty()
           @invariant
               @adj == self.adj(), vis == self.visibility@, n == adj.len(), wf(adj, vis), adj == old(self).adj(), vis == old(self).visibility@, self.cycle_state is Unknown, self.labels_total(),
               @in_degree@.len() == n, done.len() == n, lvl.len() == n,
               @core_inv(adj, vis, in_degree@, done, lvl, groups@.len() as int),
               @forall|v: int| 0 <= v < n && done[v] ==> lvl[v] < groups@.len(),
               @forall|v: int| 0 <= v < n && 0 <= lvl[v] < groups@.len() ==> done[v],
               @forall|v: int| 0 <= v < n ==> lvl[v] <= groups@.len(),
               @queue_ok(work@, done, lvl, groups@.len() as int, n),
               @forall|v: int| 0 <= v < n && lvl[v] == groups@.len() ==> mem(work@, v),
               @groups_inv(groups@, done, lvl, groups@.len() as int),
           @decreases nfalse(done, n),
        {
            let mut current_group⟦: Vec<usize>⟧ = vec![];
            let mut next_work⟦: VecDeque<usize>⟧ = VecDeque::new();
           @let ghost lv = groups@.len() as int;

           @let ghost mut wsnap = work@;
           @let ghost nf0 = nfalse(done, n);
            while let Some(n1) = work.pop_front()
               @invariant
                   @wsnap == work@,
                   @nfalse(done, n) + current_group@.len() == nf0,
                   @adj == self.adj(), vis == self.visibility@, n == adj.len(), wf(adj, vis), adj == old(self).adj(), vis == old(self).visibility@, self.cycle_state is Unknown, self.labels_total(),
                   @in_degree@.len() == n, done.len() == n, lvl.len() == n, lv == groups@.len(),
                   @core_inv(adj, vis, in_degree@, done, lvl, lv + 1),
                   @forall|v: int| 0 <= v < n && done[v] ==> lvl[v] <= lv,
                   @forall|v: int| 0 <= v < n && 0 <= lvl[v] < lv ==> done[v],
                   @queue_ok(work@, done, lvl, lv, n),
                   @forall|v: int| 0 <= v < n && lvl[v] == lv && !done[v] ==> mem(work@, v),
                   @queue_ok(next_work@, done, lvl, lv + 1, n),
                   @forall|v: int| 0 <= v < n && lvl[v] == lv + 1 ==> mem(next_work@, v),
                   @group_ok(current_group@, done, lvl, lv, n),
                   @forall|v: int| 0 <= v < n && lvl[v] == lv && done[v] ==> mem(current_group@, v),
                   @groups_inv(groups@, done, lvl, lv),
                   @current_group@.len() > 0 || work@.len() > 0,
               @ensures work@.len() == 0,
               @decreases work@.len(),
            {
               @let ghost done0 = done;
               @let ghost a0 = act(vis, done0);
               @assert(wsnap.len() > 0 && n1 == wsnap[0] && work@ == wsnap.subrange(1, wsnap.len() as int));
               @assert(n1 < n && lvl[n1 as int] == lv && !done[n1 as int]);
               @assert(vis[n1 as int]);
               @proof {
                   @done = done.update(n1 as int, true);
                   @lemma_nfalse_update(done0, n1 as int, n);
                   @assert(act(vis, done) =~= a0.update(n1 as int, false));
                   @assert forall|v: int| 0 <= v < n implies in_degree@[v] == cnt(adj, act(vis, done), v, n) + cnt_row(adj[n1 as int], v) by {
                       @lemma_cnt_deact(adj, a0, n1 as int, v, n);
                   @}
               @}
               @let ghost cg0 = current_group@;
                current_group.push(n1);
               @proof {
                   @assert forall|u: int, k: int| 0 <= u < n && 0 <= k < adj[u].len() implies edge_inv(adj, vis, done, lvl, u, k) by {
                       @assert(edge_inv(adj, vis, done0, lvl, u, k));
                   @}
                   @assert forall|v: int| 0 <= v < n && lvl[v] == lv && !done[v] implies mem(work@, v) by {
                       @let i = choose|i: int| 0 <= i < wsnap.len() && wsnap[i] == v;
                       @assert(i >= 1);
                       @assert(work@[i - 1] == v);
                   @}
                   @assert forall|v: int| 0 <= v < n && lvl[v] == lv && done[v] implies mem(current_group@, v) by {
                       @if v == n1 { assert(current_group@[cg0.len() as int] == n1); }
                       @else { let i = choose|i: int| 0 <= i < cg0.len() && cg0[i] == v; assert(current_group@[i] == v); }
                   @}
               @}
               @let ghost a1 = act(vis, done);
               @let ghost row = adj[n1 as int];
               @assert(self.adj_list[n1 as int]@ == row);
               @let ghost mut kk: int = 0;
                for n2__r in ⟦it:⟧ &self.adj_list[n1]
                   @invariant
                       @kk == it.index@,
                       @adj == self.adj(), vis == self.visibility@, n == adj.len(), wf(adj, vis), adj == old(self).adj(), vis == old(self).visibility@, self.cycle_state is Unknown, self.labels_total(),
                       @in_degree@.len() == n, done.len() == n, lvl.len() == n, lv == groups@.len(),
                       @n1 < n, row == adj[n1 as int], a1 == act(vis, done), done[n1 as int], lvl[n1 as int] == lv,
                       @it.seq().len() == row.len(),
                       @forall|j: int| 0 <= j < row.len() ==> *it.seq()[j] == row[j],
                        // Kahn counting invariant, with the not-yet-consumed suffix of n1's row still included
                       @forall|v: int| #![trigger in_degree@[v]] 0 <= v < n ==> in_degree@[v] + cnt_row(row.take(kk), v) == cnt(adj, a1, v, n) + cnt_row(row, v),
                       @forall|v: int| #![trigger lvl[v]] #![trigger in_degree@[v]] 0 <= v < n && lvl[v] >= 0 ==> vis[v] && in_degree@[v] == 0 && lvl[v] <= lv + 1,
                       @forall|v: int| 0 <= v < n && done[v] ==> 0 <= lvl[v] <= lv,
                       @forall|v: int| 0 <= v < n && 0 <= lvl[v] < lv ==> done[v],
                       @forall|v: int| #![trigger lvl[v]] #![trigger in_degree@[v]] 0 <= v < n && vis[v] && in_degree@[v] == 0 ==> lvl[v] >= 0,
                       @forall|u: int, k: int| 0 <= u < n && 0 <= k < adj[u].len() ==> edge_inv(adj, vis, done, lvl, u, k),
                       @queue_ok(work@, done, lvl, lv, n),
                       @forall|v: int| 0 <= v < n && lvl[v] == lv && !done[v] ==> mem(work@, v),
                       @queue_ok(next_work@, done, lvl, lv + 1, n),
                       @forall|v: int| 0 <= v < n && lvl[v] == lv + 1 ==> mem(next_work@, v),
                       @group_ok(current_group@, done, lvl, lv, n),
                       @forall|v: int| 0 <= v < n && lvl[v] == lv && done[v] ==> mem(current_group@, v),
                       @groups_inv(groups@, done, lvl, lv),
                       @current_group@.len() > 0,
                {
                    let n2 = *n2__r;
                   @let ghost k = it.index@;
                   @assert(n2 == row[k] && n2 < n);
                   @proof {
                       @assert forall|v: int| 0 <= v < n implies
                           @cnt_row(row.take(k + 1), v) == cnt_row(row.take(k), v) + if row[k] == v { 1nat } else { 0nat }
                           @&& cnt_row(row.take(k + 1), v) <= cnt_row(row, v) by {
                           @lemma_cnt_row_take(row, k, v);
                           @lemma_cnt_row_mono(row, k + 1, v);
                       @}
                   @}
                   @proof {
                       @lemma_cnt_row_take(row, k, n2 as int);
                       @lemma_cnt_row_mono(row, k + 1, n2 as int);
                   @}
                   @assert(in_degree@[n2 as int] >= 1);
                   @assert(0 <= n2 as int && (n2 as int) < n);
                   @assert(lvl[n2 as int] >= 0 ==> in_degree@[n2 as int] == 0);
                   @assert(lvl[n2 as int] < 0);
                    in_degree[n2] -= 1;
                    if in_degree[n2] == 0 && self.visibility[n2] {
                       @let ghost q0 = next_work@;
                       @proof {
                           @let lvl0 = lvl;
                            // no active node points at n2 any more, and the rest of n1's row does not either
                           @assert(cnt(adj, a1, n2 as int, n) == 0);
                           @assert forall|u: int, j: int| 0 <= u < n && 0 <= j < adj[u].len() && adj[u][j] == n2 && vis[u] implies done[u] by {
                               @if a1[u] { lemma_cnt_zero(adj, a1, n2 as int, n, u, j); }
                           @}
                           @lvl = lvl.update(n2 as int, lv + 1);
                           @assert forall|u: int, j: int| 0 <= u < n && 0 <= j < adj[u].len() implies edge_inv(adj, vis, done, lvl, u, j) by {
                               @assert(edge_inv(adj, vis, done, lvl0, u, j));
                           @}
                       @}
                        next_work.push_front(n2);
                        // shape-independent: the new node may go to either end of the next queue
                       @proof {
                           @assert(next_work@ =~= seq![n2].add(q0) || next_work@ =~= q0.push(n2));
                           @lemma_queue_insert(q0, next_work@, n2, done, lvl, lv + 1, n);
                       @}
                    }
                   @proof { kk = kk + 1; }
                }
               @assert(kk == row.len());
               @proof {
                   @assert(row.take(kk) =~= row);
                   @wsnap = work@;
                   @assert(forall|v: int| 0 <= v < n ==> in_degree@[v] == cnt(adj, act(vis, done), v, n));
                   @assert(forall|v: int| #![trigger lvl[v]] 0 <= v < n && lvl[v] >= 0 ==> vis[v] && in_degree@[v] == 0 && lvl[v] <= lv + 1);
                   @assert(forall|v: int| #![trigger lvl[v]] 0 <= v < n && done[v] ==> lvl[v] >= 0);
                   @assert(forall|v: int| #![trigger lvl[v]] 0 <= v < n && vis[v] && in_degree@[v] == 0 ==> lvl[v] >= 0);
               @}
            }
           @assert(work@.len() == 0);
           @let ghost g0 = groups@;
           @let ghost cg = current_group@;
            groups.push(current_group);
            work = next_work;
           @proof {
               @assert(groups@.len() == lv + 1);
               @assert forall|g: int| 0 <= g < lv + 1 implies group_ok(#[trigger] groups@[g]@, done, lvl, g, n) && groups@[g]@.len() > 0 by {
                   @if g < lv { assert(groups@[g] == g0[g]); } else { assert(groups@[g]@ == cg); }
               @}
               @assert forall|v: int| 0 <= v < n && done[v] && lvl[v] < lv + 1 implies mem(groups@[lvl[v]]@, v) by {
                   @if lvl[v] < lv { assert(groups@[lvl[v]] == g0[lvl[v]]); } else { assert(groups@[lvl[v]]@ == cg); }
               @}
               @assert forall|v: int| 0 <= v < n && 0 <= lvl[v] < lv + 1 implies done[v] by {
                   @if lvl[v] == lv && !done[v] { assert(mem(wsnap, v)); }
               @}
           @}
        }
       @proof {
           @assert forall|v: int| 0 <= v < n implies (lvl[v] >= 0 <==> done[v]) by {
               @if lvl[v] == groups@.len() { assert(mem(work@, v)); }
           @}
       @}

        if self.cycle_state == CycleState::Unknown {
            self.set_cycle_state(in_degree.as_slice());
           @proof {
               @if self.cycle_state is No {
                   @assert forall|v: int| 0 <= v < n && vis[v] implies done[v] by { assert(in_degree@[v] == 0); }
                   @lemma_done_acyclic(adj, vis, in_degree@, done, lvl, groups@.len() as int);
                   @lemma_layered(adj, vis, in_degree@, done, lvl, groups@);
               @} else {
                   @let x = self.cycle_state->Yes_0 as int;
                   @assert(vis[x] && !done[x]);
                   @lemma_stuck_cyclic(adj, vis, in_degree@, done, lvl, groups@.len() as int, x);
               @}
           @}
            self.check_acyclic()?;
        }

        Ok(groups)
    }
//!end
}
} // verus!
fn main() {}
