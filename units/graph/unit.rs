#![feature(allocator_api)]
#![allow(unused)]
// unit `graph`: core/graph.rs under contract (C03, C09).  Generated per run from /repo by vfw; see DESIGN.md.
use vstd::prelude::*;
use std::collections::VecDeque;
verus! {
//!include prelude/std_gaps.rs
//!include prelude/keymap.rs

//!include units/graph/vocab.rs

// ================= repository text =================
//!type src/core/graph.rs GraphError
pub enum GraphError {
    DotFileIo(std::io::Error),
    LabelNotFound(usize),
    Cycle(usize, String),
    Connected,
    DuplicateLabel(String),
    LabelNodeNotFound(String),
}
//!end
//!type src/core/graph.rs CycleState
@#[derive(PartialEq, Eq, Structural)]
pub enum CycleState {
    Unknown,
    Yes(usize),
    No,
}
//!end
//!type src/core/graph.rs Dag
pub struct Dag {
    // Adjacency list storing dependencies.
    pub adj_list: Vec<Vec<usize>>,
    pub visibility: Vec<bool>,
    pub cycle_state: CycleState,

    pub label2node: HashMap<String, usize>,
    pub node2label: HashMap<usize, String>,
}
//!end

impl Dag {
    pub open spec fn adj(&self) -> Seq<Seq<usize>> { rows(self.adj_list@) }
    pub open spec fn labels_total(&self) -> bool { forall|i: usize| i < self.adj_list@.len() ==> #[trigger] self.node2label@.dom().contains(i) }

//!fn src/core/graph.rs Dag::new props=C03,C09
    pub fn new(size: usize) -> ⟦(r: ⟧Self⟦)⟧
@        ensures
@            r.adj_list@.len() == size, r.visibility@.len() == size,
@            forall|i: int| 0 <= i < size ==> (#[trigger] r.adj_list@[i])@.len() == 0,
@            forall|i: int| 0 <= i < size ==> !(#[trigger] r.visibility@[i]),
@            r.cycle_state is Unknown,
@            r.label2node@ == Map::<Seq<char>, usize>::empty(), r.node2label@ == Map::<usize, String>::empty(),
    {
        Self {
            adj_list: vec![vec![]; size],
            visibility: vec![false; size],
            cycle_state: CycleState::Unknown,
            label2node: HashMap::with_capacity(size),
            node2label: HashMap::with_capacity(size),
        }
    }
//!end

//!fn src/core/graph.rs Dag::get_labeled_groups rules=R3 props=C03,C09,C04
    pub fn get_labeled_groups(&mut self) -> ⟦(res: ⟧Result<Vec<Vec<String>>, GraphError>⟦)⟧
@        requires
@            wf(old(self).adj(), old(self).visibility@), old(self).cycle_state is Unknown, old(self).labels_total(),
@            forall|v: int| 0 <= v < old(self).adj().len() ==> cnt(old(self).adj(), old(self).visibility@, v, old(self).adj().len() as int) <= usize::MAX,
@        ensures
@            final(self).adj() == old(self).adj(), final(self).visibility@ == old(self).visibility@, final(self).node2label@ == old(self).node2label@,
@            // C03: the labelled groups are the node groups of a valid layering, in reverse order (dependencies first), label for node
@            res matches Ok(o) ==> labeled_layering(o@, old(self).adj(), old(self).visibility@, old(self).node2label@), // [C03]
@            // C03 / C09: success exactly for acyclic visible subgraphs, and the error is the cycle error
@            acyclic(old(self).adj(), old(self).visibility@) <==> res is Ok,
@            res matches Err(e) ==> e is Cycle,
    {
        let groups = self.get_groups()?;
        let mut o⟦: Vec<Vec<String>>⟧ = Vec::with_capacity(groups.len());
@        proof { lemma_layered_bounds(old(self).adj(), old(self).visibility@, groups@); }
        for group__i in 0..groups.len()
@            invariant
@                self.adj() == old(self).adj(), self.visibility@ == old(self).visibility@, self.node2label@ == old(self).node2label@, self.labels_total(),
@                layered(self.adj(), self.visibility@, groups@),
@                o@.len() == group__i,
@                forall|a: int| 0 <= a < o@.len() ==> #[trigger] labels_of(o@[a]@, groups@[groups@.len() - 1 - a]@, self.node2label@),
        { let group = &groups[groups.len() - 1 - group__i];
            let mut labels⟦: Vec<String>⟧ = vec![];
            for node in ⟦it: ⟧group
@                invariant
@                    self.adj() == old(self).adj(), self.visibility@ == old(self).visibility@, self.node2label@ == old(self).node2label@, self.labels_total(),
@                    layered(self.adj(), self.visibility@, groups@), 0 <= group__i < groups@.len(), group == &groups@[groups@.len() - 1 - group__i],
@                    it.seq().len() == group@.len(),
@                    forall|j: int| 0 <= j < group@.len() ==> *it.seq()[j] == group@[j],
@                    labels@.len() == it.index@,
@                    forall|k: int| 0 <= k < labels@.len() ==> self.node2label@.dom().contains(group@[k]) && #[trigger] labels@[k] == self.node2label@[group@[k]],
            {
@                assert(*node == groups@[groups@.len() - 1 - group__i]@[it.index@ as int]);
@                assert(*node < self.adj_list@.len());
                let label = self.get_label_by_node(node)?;
                labels.push(label.to_owned());
            }
            o.push(labels);
        }
@        assert(layered(old(self).adj(), old(self).visibility@, groups@) && labeled_rev(o@, groups@, old(self).node2label@));
        Ok(o)
    }
//!end

//!fn src/core/graph.rs Dag::set props=C03,C10
    pub fn set(&mut self, node: usize, nodes: Vec<usize>)
@        requires node < old(self).adj_list@.len(), old(self).cycle_state is Unknown,
@        ensures
@            final(self).adj_list@ == old(self).adj_list@.update(node as int, nodes),
@            final(self).visibility == old(self).visibility, final(self).cycle_state == old(self).cycle_state,
@            final(self).label2node == old(self).label2node, final(self).node2label == old(self).node2label,
    {
        self.adj_list[node] = nodes;
    }
//!end

//!fn src/core/graph.rs Dag::set_label props=C03,C10
    pub fn set_label(&mut self, label: &str, node: usize) -> ⟦(r: ⟧Result<(), GraphError>⟦)⟧
@        ensures
@            final(self).adj_list == old(self).adj_list, final(self).visibility == old(self).visibility, final(self).cycle_state == old(self).cycle_state,
@            r is Ok <==> !old(self).label2node@.dom().contains(label@),
@            r is Ok ==> final(self).label2node@ == old(self).label2node@.insert(label@, node)
@                && final(self).node2label@.dom() == old(self).node2label@.dom().insert(node)
@                && final(self).node2label@[node]@ == label@
@                && (forall|k: usize| k != node && old(self).node2label@.dom().contains(k) ==> final(self).node2label@[k] == old(self).node2label@[k]),
@            r is Err ==> final(self).label2node == old(self).label2node && final(self).node2label == old(self).node2label && r->Err_0 is DuplicateLabel,
    {
        if self.label2node.contains_key(label) {
            return Err(GraphError::DuplicateLabel(label.to_owned()));
        }
        // update internal hashmaps
        let l = label.to_owned();
        self.label2node.insert(l.clone(), node);
        self.node2label.insert(node, l);
        Ok(())
    }
//!end

//!fn src/core/graph.rs Dag::get_node_by_label props=C03,C05
    pub(crate) fn get_node_by_label(&self, label: &str) -> ⟦(r: ⟧Result<usize, GraphError>⟦)⟧
@        ensures
@            r is Ok <==> self.label2node@.dom().contains(label@),
@            r matches Ok(n) ==> self.label2node@[label@] == n,
@            r matches Err(e) ==> e is LabelNodeNotFound,
    {
        self.label2node
            .get(label)
            .copied()
            .ok_or(GraphError::LabelNodeNotFound(label.to_owned()))
    }
//!end

//!fn src/core/graph.rs Dag::get_label_by_node props=C03,C09
    pub(crate) fn get_label_by_node(&self, node: &usize) -> ⟦(r:⟧ Result<&String, GraphError>⟦)⟧
@        ensures
@            r is Ok <==> self.node2label@.dom().contains(*node),
@            r matches Ok(l) ==> *l == self.node2label@[*node],
@            r matches Err(e) ==> e is LabelNotFound,
    {
        self.node2label
            .get(node)
            .ok_or(GraphError::LabelNotFound(*node))
    }
//!end
//!fn src/core/graph.rs Dag::check_acyclic props=C03,C09
    fn check_acyclic(&self) -> ⟦(r:⟧ Result<(), GraphError>⟦)⟧
       @ensures r is Ok <==> !(self.cycle_state is Yes),
           @r matches Err(e) ==> (e is Cycle || e is LabelNotFound),
           @(r is Err && self.labels_total() && (self.cycle_state matches CycleState::Yes(i) && i < self.adj_list@.len())) ==> r->Err_0 is Cycle,
    {
        if let CycleState::Yes(cycle_node) = self.cycle_state {
            let label = self.get_label_by_node(&cycle_node)?;
            return Err(GraphError::Cycle(cycle_node, label.to_owned()));
        }
        Ok(())
    }
//!end
//!fn src/core/graph.rs Dag::set_cycle_state rules=R3,R4 props=C03,C09
    fn set_cycle_state(&mut self, in_degree: &[usize])
       @requires in_degree@.len() == old(self).visibility@.len()
       @ensures
           @final(self).adj_list == old(self).adj_list, final(self).visibility == old(self).visibility,
           @final(self).label2node == old(self).label2node, final(self).node2label == old(self).node2label,
           @!(final(self).cycle_state is Unknown),
           @final(self).cycle_state matches CycleState::Yes(i) ==> i < in_degree@.len() && old(self).visibility@[i as int] && in_degree@[i as int] != 0,
           @final(self).cycle_state is No ==> forall|i: int| 0 <= i < in_degree@.len() && old(self).visibility@[i] ==> in_degree@[i] == 0,
    {
        for i in 0..in_degree.len()
           @invariant
               @in_degree@.len() == self.visibility@.len(),
               @self.adj_list == old(self).adj_list, self.visibility == old(self).visibility,
               @self.label2node == old(self).label2node, self.node2label == old(self).node2label,
               @forall|j: int| 0 <= j < i && self.visibility@[j] ==> in_degree@[j] == 0,
        { let node = in_degree[i];
            if self.visibility[i] && node != 0 {
                self.cycle_state = CycleState::Yes(i);
                return;
            }
        }
        self.cycle_state = CycleState::No;
    }
//!end
//!fn src/core/graph.rs Dag::set_subtree_visibility props=C03,C09
    pub fn set_subtree_visibility(&mut self, node: usize, visible: bool) -> ⟦(res:⟧ Result<(), GraphError>⟦)⟧
       @requires wf(old(self).adj(), old(self).visibility@), node < old(self).adj().len(),
       @ensures
           @final(self).adj() == old(self).adj(), final(self).visibility@.len() == old(self).visibility@.len(),
           @final(self).adj_list == old(self).adj_list, final(self).cycle_state == old(self).cycle_state,
           @final(self).label2node == old(self).label2node, final(self).node2label == old(self).node2label,
           @res is Ok ==> forall|v: int| 0 <= v < old(self).adj().len() ==>
               @final(self).visibility@[v] == (if reachable(old(self).adj(), node as int, v) { visible } else { old(self).visibility@[v] }),
           @res is Err ==> exists|p: Seq<int>| closed_walk(old(self).adj(), p),
    {
       @let ghost adj = self.adj();
       @let ghost vis0 = self.visibility@;
       @let ghost gn = adj.len() as int;
        let mut visited⟦: HashSet<usize>⟧ = HashSet::new();
        let mut active⟦: HashSet<usize>⟧ = HashSet::new();
        let mut stack: Vec<(usize, usize)> = Vec::new();
       @let ghost mut seen: Seq<bool> = Seq::new(gn as nat, |i: int| false);
        self.visibility[node] = visible;
        visited.insert(node);
        active.insert(node);
        stack.push((node, 0));
       @proof {
           @seen = seen.update(node as int, true);
           @lemma_init(adj, vis0, node, visible);
           @assert(stack@ =~= seq![(node, 0usize)]);
           @assert forall|x: usize| active@.contains(x) <==> on_stack(stack@, x as int) by {
               @if x == node { assert(stack@[0].0 == x); }
           @}
       @}
        while !stack.is_empty()
           @invariant
               @adj == self.adj(), adj == old(self).adj(), vis0 == old(self).visibility@, gn == adj.len(), wf(adj, vis0), node < gn,
               @self.adj_list == old(self).adj_list, self.cycle_state == old(self).cycle_state, self.label2node == old(self).label2node, self.node2label == old(self).node2label,
               @inv(adj, vis0, self.visibility@, seen, stack@, node as int, visible), self.visibility@.len() == gn, seen.len() == gn,
               @forall|x: usize| #![trigger visited@.contains(x)] visited@.contains(x) <==> (x < gn && seen[x as int]),
               @forall|x: usize| active@.contains(x) <==> on_stack(stack@, x as int),
           @decreases nfalse(seen, gn), rem(adj, stack@), stack@.len(),
        {
            let top = stack.len() - 1;
            let (n, next) = stack[top];
           @let ghost st = stack@;
           @let ghost vis = self.visibility@;
           @let ghost seen_old = seen;
           @let ghost vstart = visited@;
           @assert(vstart.contains(node) <==> (node < gn && seen_old[node as int]));
           @assert(forall|x: usize| #![trigger vstart.contains(x)] vstart.contains(x) <==> (x < gn && seen_old[x as int]));
           @proof { lemma_inv_top(adj, vis0, vis, seen, st, node as int, visible); }
           @assert(self.adj_list[n as int]@ == adj[n as int]);
            if next < self.adj_list[n].len() {
                stack[top] = (n, next + 1);
               @assert(stack@ =~= st.update(top as int, (st.last().0, (st.last().1 + 1) as usize)));
                let depn = self.adj_list[n][next];
               @assert(depn == adj[n as int][next as int] && depn < gn);
                if active.contains(&depn) {
                   @proof { lemma_cycle(adj, st, depn as int); }
                    let label = self.get_label_by_node(&depn)?;
                    return Err(GraphError::Cycle(depn, label.to_owned()));
                }
                if !visited.contains(&depn) {
                   @proof { lemma_push(adj, vis0, vis, seen, st, node as int, visible); seen = seen.update(depn as int, true); }
                   @let ghost v0 = visited@;
                   @assert(v0 == vstart);
                   @let ghost a0 = active@;
                    self.visibility[depn] = visible;
                    visited.insert(depn);
                   @assert(visited@ == v0.insert(depn));
                    active.insert(depn);
                   @assert(active@ == a0.insert(depn));
                    stack.push((depn, 0));
                   @assert(stack@ =~= st.update(top as int, (st.last().0, (st.last().1 + 1) as usize)).push((depn, 0usize)));
                   @assert forall|x: usize| visited@.contains(x) <==> (x < gn && seen[x as int]) by {
                       @if x == depn { assert(seen[depn as int]); } else { assert(v0.contains(x) == visited@.contains(x)); assert(v0.contains(x) <==> (x < gn && seen_old[x as int])); if x < gn { assert(seen[x as int] == seen_old[x as int]); } }
                   @}
                   @assert forall|x: usize| active@.contains(x) <==> on_stack(stack@, x as int) by { }
                   @assert(nfalse(seen, gn) < nfalse(seen_old, gn));
                } ⟦else {⟧
                   @proof {
                       @lemma_advance(adj, vis0, vis, seen, st, node as int, visible);
                       @reveal(inv);
                       @lemma_rem_nonneg(adj, stack@);
                   @}
                   @assert(rem(adj, stack@) == rem(adj, st) - 1);
               @}
            } else {
               @proof { lemma_pop(adj, vis0, vis, seen, st, node as int, visible); }
                active.remove(&n);
                stack.pop();
               @assert(stack@ =~= st.drop_last());
               @assert(rem(adj, stack@) == rem(adj, st));
            }
        }
       @proof {
           @assert(stack@ =~= Seq::<(usize, usize)>::empty());
           @lemma_final(adj, vis0, self.visibility@, seen, node as int, visible);
       @}
        Ok(())
    }
//!end
//!fn src/core/graph.rs Dag::get_groups rules=R3,R4 props=C03,C09,C04
    pub fn get_groups(&mut self) -> ⟦(res:⟧ Result<Vec<Vec<usize>>, GraphError>⟦)⟧
       @requires
           @wf(old(self).adj(), old(self).visibility@), old(self).cycle_state is Unknown, old(self).labels_total(),
           @forall|v: int| 0 <= v < old(self).adj().len() ==> cnt(old(self).adj(), old(self).visibility@, v, old(self).adj().len() as int) <= usize::MAX,
       @ensures
           @final(self).adj() == old(self).adj(), final(self).visibility@ == old(self).visibility@,
           @final(self).node2label == old(self).node2label, final(self).label2node == old(self).label2node,
            // C03: success yields a layering of exactly the visible nodes
           @res matches Ok(groups) ==> layered(old(self).adj(), old(self).visibility@, groups@),
            // C03: an acyclic visible subgraph is never rejected;  C09: a cyclic one always is, with a Cycle error
           @acyclic(old(self).adj(), old(self).visibility@) <==> res is Ok,
           @res matches Err(e) ==> e is Cycle,
    {
        self.check_acyclic()?;

        let mut groups⟦: Vec<Vec<usize>>⟧ = Vec::new();
        let mut in_degree⟦: Vec<usize>⟧ = vec![0; self.adj_list.len()];
        let mut work⟦: VecDeque<usize>⟧ = VecDeque::new();
       @let ghost adj = self.adj();
       @let ghost vis = self.visibility@;
       @let ghost n = adj.len() as int;
       @let ghost mut done: Seq<bool> = Seq::new(n as nat, |i: int| false);
       @let ghost mut lvl: Seq<int> = Seq::new(n as nat, |i: int| -1int);

        for i in 0..self.adj_list.len()
           @invariant
               @adj == self.adj(), vis == self.visibility@, n == adj.len(), wf(adj, vis), adj == old(self).adj(), vis == old(self).visibility@, self.cycle_state is Unknown, self.labels_total(),
               @in_degree@.len() == n,
               @forall|v: int| 0 <= v < n ==> cnt(adj, vis, v, n) <= usize::MAX,
               @forall|v: int| 0 <= v < n ==> in_degree@[v] == cnt(adj, vis, v, i as int),
        {
            let nodes = &self.adj_list[i];
           @assert(nodes@ == adj[i as int]);
            if self.visibility[i] {
                for n__r in ⟦it:⟧ nodes
                   @invariant
                       @adj == self.adj(), vis == self.visibility@, n == adj.len(), wf(adj, vis), adj == old(self).adj(), vis == old(self).visibility@, self.cycle_state is Unknown, self.labels_total(),
                       @0 <= i < n, vis[i as int], nodes@ == adj[i as int],
                       @in_degree@.len() == n,
                       @it.seq().len() == nodes@.len(),
                       @forall|j: int| 0 <= j < nodes@.len() ==> *it.seq()[j] == nodes@[j],
                       @forall|v: int| 0 <= v < n ==> cnt(adj, vis, v, n) <= usize::MAX,
                       @forall|v: int| 0 <= v < n ==> in_degree@[v] == cnt(adj, vis, v, i as int) + cnt_row(nodes@.take(it.index@), v),
                {
                    let n = *n__r;
                   @let ghost k = it.index@;
                   @assert(n == adj[i as int][k]);
                   @proof {
                       @assert forall|v: int| 0 <= v < adj.len() implies
                           @cnt_row(nodes@.take(k + 1), v) == cnt_row(nodes@.take(k), v) + if nodes@[k] == v { 1nat } else { 0nat }
                           @&& cnt(adj, vis, v, i as int) + cnt_row(nodes@.take(k + 1), v) <= usize::MAX by {
                           @lemma_cnt_row_take(nodes@, k, v);
                           @lemma_cnt_row_mono(nodes@, k + 1, v);
                           @lemma_cnt_mono(adj, vis, v, i as int + 1, adj.len() as int);
                       @}
                   @}
                    in_degree[n] += 1;
                }
               @proof { assert(nodes@.take(nodes@.len() as int) =~= nodes@); }
            }
        }

       @proof { assert(act(vis, done) =~= vis); }
        for node in 0..in_degree.len()
           @invariant
               @adj == self.adj(), vis == self.visibility@, n == adj.len(), wf(adj, vis), adj == old(self).adj(), vis == old(self).visibility@, self.cycle_state is Unknown, self.labels_total(),
               @in_degree@.len() == n, done.len() == n, lvl.len() == n,
               @done == Seq::new(n as nat, |i: int| false),
               @forall|v: int| 0 <= v < n ==> in_degree@[v] == cnt(adj, vis, v, n),
               @forall|v: int| 0 <= v < n ==> (lvl[v] == 0 || lvl[v] == -1),
               @forall|v: int| 0 <= v < n ==> (lvl[v] == 0 <==> (v < node && vis[v] && in_degree@[v] == 0)),
               @queue_ok(work@, done, lvl, 0, n),
               @forall|v: int| 0 <= v < n && lvl[v] == 0 ==> mem(work@, v),
        {
            let degree = in_degree[node];
            if degree == 0 && self.visibility[node] {
               @let ghost w0 = work@;
               @proof { lvl = lvl.update(node as int, 0); }
                work.push_back(node);
               @proof {
                   @assert(work@ =~= seq![node].add(w0) || work@ =~= w0.push(node));
                   @lemma_queue_insert(w0, work@, node, done, lvl, 0, n);
               @}
            }
        }
       @proof {
           @assert(act(vis, done) =~= vis);
           @assert forall|u: int, k: int| 0 <= u < n && 0 <= k < adj[u].len() implies edge_inv(adj, vis, done, lvl, u, k) by {
               @let v = adj[u][k] as int;
               @if vis[u] && vis[v] && lvl[v] >= 0 {
                   @lemma_cnt_zero(adj, vis, v, n, u, k);
               @}
           @}
       @}

        while !work.is_empty()
           @invariant
               @adj == self.adj(), vis == self.visibility@, n == adj.len(), wf(adj, vis), adj == old(self).adj(), vis == old(self).visibility@, self.cycle_state is Unknown, self.labels_total(),
               @in_degree@.len() == n, done.len() == n, lvl.len() == n,
               @core_inv(adj, vis, in_degree@, done, lvl, groups@.len() as int),
               @forall|v: int| 0 <= v < n && done[v] ==> lvl[v] < groups@.len(),
               @forall|v: int| 0 <= v < n && 0 <= lvl[v] < groups@.len() ==> done[v],
               @forall|v: int| 0 <= v < n ==> lvl[v] <= groups@.len(),
               @queue_ok(work@, done, lvl, groups@.len() as int, n),
               @forall|v: int| 0 <= v < n && lvl[v] == groups@.len() ==> mem(work@, v),
               @groups_inv(groups@, done, lvl, groups@.len() as int),
           @decreases nfalse(done, n),
        {
            let mut current_group⟦: Vec<usize>⟧ = vec![];
            let mut next_work⟦: VecDeque<usize>⟧ = VecDeque::new();
           @let ghost lv = groups@.len() as int;

           @let ghost mut wsnap = work@;
           @let ghost nf0 = nfalse(done, n);
            while let Some(n1) = work.pop_front()
               @invariant
                   @wsnap == work@,
                   @nfalse(done, n) + current_group@.len() == nf0,
                   @adj == self.adj(), vis == self.visibility@, n == adj.len(), wf(adj, vis), adj == old(self).adj(), vis == old(self).visibility@, self.cycle_state is Unknown, self.labels_total(),
                   @in_degree@.len() == n, done.len() == n, lvl.len() == n, lv == groups@.len(),
                   @core_inv(adj, vis, in_degree@, done, lvl, lv + 1),
                   @forall|v: int| 0 <= v < n && done[v] ==> lvl[v] <= lv,
                   @forall|v: int| 0 <= v < n && 0 <= lvl[v] < lv ==> done[v],
                   @queue_ok(work@, done, lvl, lv, n),
                   @forall|v: int| 0 <= v < n && lvl[v] == lv && !done[v] ==> mem(work@, v),
                   @queue_ok(next_work@, done, lvl, lv + 1, n),
                   @forall|v: int| 0 <= v < n && lvl[v] == lv + 1 ==> mem(next_work@, v),
                   @group_ok(current_group@, done, lvl, lv, n),
                   @forall|v: int| 0 <= v < n && lvl[v] == lv && done[v] ==> mem(current_group@, v),
                   @groups_inv(groups@, done, lvl, lv),
                   @current_group@.len() > 0 || work@.len() > 0,
               @ensures work@.len() == 0,
               @decreases work@.len(),
            {
               @let ghost done0 = done;
               @let ghost a0 = act(vis, done0);
               @assert(wsnap.len() > 0 && n1 == wsnap[0] && work@ == wsnap.subrange(1, wsnap.len() as int));
               @assert(n1 < n && lvl[n1 as int] == lv && !done[n1 as int]);
               @assert(vis[n1 as int]);
               @proof {
                   @done = done.update(n1 as int, true);
                   @lemma_nfalse_update(done0, n1 as int, n);
                   @assert(act(vis, done) =~= a0.update(n1 as int, false));
                   @assert forall|v: int| 0 <= v < n implies in_degree@[v] == cnt(adj, act(vis, done), v, n) + cnt_row(adj[n1 as int], v) by {
                       @lemma_cnt_deact(adj, a0, n1 as int, v, n);
                   @}
               @}
               @let ghost cg0 = current_group@;
                current_group.push(n1);
               @proof {
                   @assert forall|u: int, k: int| 0 <= u < n && 0 <= k < adj[u].len() implies edge_inv(adj, vis, done, lvl, u, k) by {
                       @assert(edge_inv(adj, vis, done0, lvl, u, k));
                   @}
                   @assert forall|v: int| 0 <= v < n && lvl[v] == lv && !done[v] implies mem(work@, v) by {
                       @let i = choose|i: int| 0 <= i < wsnap.len() && wsnap[i] == v;
                       @assert(i >= 1);
                       @assert(work@[i - 1] == v);
                   @}
                   @assert forall|v: int| 0 <= v < n && lvl[v] == lv && done[v] implies mem(current_group@, v) by {
                       @if v == n1 { assert(current_group@[cg0.len() as int] == n1); }
                       @else { let i = choose|i: int| 0 <= i < cg0.len() && cg0[i] == v; assert(current_group@[i] == v); }
                   @}
               @}
               @let ghost a1 = act(vis, done);
               @let ghost row = adj[n1 as int];
               @assert(self.adj_list[n1 as int]@ == row);
               @let ghost mut kk: int = 0;
                for n2__r in ⟦it:⟧ &self.adj_list[n1]
                   @invariant
                       @kk == it.index@,
                       @adj == self.adj(), vis == self.visibility@, n == adj.len(), wf(adj, vis), adj == old(self).adj(), vis == old(self).visibility@, self.cycle_state is Unknown, self.labels_total(),
                       @in_degree@.len() == n, done.len() == n, lvl.len() == n, lv == groups@.len(),
                       @n1 < n, row == adj[n1 as int], a1 == act(vis, done), done[n1 as int], lvl[n1 as int] == lv,
                       @it.seq().len() == row.len(),
                       @forall|j: int| 0 <= j < row.len() ==> *it.seq()[j] == row[j],
                        // Kahn counting invariant, with the not-yet-consumed suffix of n1's row still included
                       @forall|v: int| #![trigger in_degree@[v]] 0 <= v < n ==> in_degree@[v] + cnt_row(row.take(kk), v) == cnt(adj, a1, v, n) + cnt_row(row, v),
                       @forall|v: int| #![trigger lvl[v]] #![trigger in_degree@[v]] 0 <= v < n && lvl[v] >= 0 ==> vis[v] && in_degree@[v] == 0 && lvl[v] <= lv + 1,
                       @forall|v: int| 0 <= v < n && done[v] ==> 0 <= lvl[v] <= lv,
                       @forall|v: int| 0 <= v < n && 0 <= lvl[v] < lv ==> done[v],
                       @forall|v: int| #![trigger lvl[v]] #![trigger in_degree@[v]] 0 <= v < n && vis[v] && in_degree@[v] == 0 ==> lvl[v] >= 0,
                       @forall|u: int, k: int| 0 <= u < n && 0 <= k < adj[u].len() ==> edge_inv(adj, vis, done, lvl, u, k),
                       @queue_ok(work@, done, lvl, lv, n),
                       @forall|v: int| 0 <= v < n && lvl[v] == lv && !done[v] ==> mem(work@, v),
                       @queue_ok(next_work@, done, lvl, lv + 1, n),
                       @forall|v: int| 0 <= v < n && lvl[v] == lv + 1 ==> mem(next_work@, v),
                       @group_ok(current_group@, done, lvl, lv, n),
                       @forall|v: int| 0 <= v < n && lvl[v] == lv && done[v] ==> mem(current_group@, v),
                       @groups_inv(groups@, done, lvl, lv),
                       @current_group@.len() > 0,
                {
                    let n2 = *n2__r;
                   @let ghost k = it.index@;
                   @assert(n2 == row[k] && n2 < n);
                   @proof {
                       @assert forall|v: int| 0 <= v < n implies
                           @cnt_row(row.take(k + 1), v) == cnt_row(row.take(k), v) + if row[k] == v { 1nat } else { 0nat }
                           @&& cnt_row(row.take(k + 1), v) <= cnt_row(row, v) by {
                           @lemma_cnt_row_take(row, k, v);
                           @lemma_cnt_row_mono(row, k + 1, v);
                       @}
                   @}
                   @proof {
                       @lemma_cnt_row_take(row, k, n2 as int);
                       @lemma_cnt_row_mono(row, k + 1, n2 as int);
                   @}
                   @assert(in_degree@[n2 as int] >= 1);
                   @assert(0 <= n2 as int && (n2 as int) < n);
                   @assert(lvl[n2 as int] >= 0 ==> in_degree@[n2 as int] == 0);
                   @assert(lvl[n2 as int] < 0);
                    in_degree[n2] -= 1;
                    if in_degree[n2] == 0 && self.visibility[n2] {
                       @let ghost q0 = next_work@;
                       @proof {
                           @let lvl0 = lvl;
                            // no active node points at n2 any more, and the rest of n1's row does not either
                           @assert(cnt(adj, a1, n2 as int, n) == 0);
                           @assert forall|u: int, j: int| 0 <= u < n && 0 <= j < adj[u].len() && adj[u][j] == n2 && vis[u] implies done[u] by {
                               @if a1[u] { lemma_cnt_zero(adj, a1, n2 as int, n, u, j); }
                           @}
                           @lvl = lvl.update(n2 as int, lv + 1);
                           @assert forall|u: int, j: int| 0 <= u < n && 0 <= j < adj[u].len() implies edge_inv(adj, vis, done, lvl, u, j) by {
                               @assert(edge_inv(adj, vis, done, lvl0, u, j));
                           @}
                       @}
                        next_work.push_front(n2);
                        // shape-independent: the new node may go to either end of the next queue
                       @proof {
                           @assert(next_work@ =~= seq![n2].add(q0) || next_work@ =~= q0.push(n2));
                           @lemma_queue_insert(q0, next_work@, n2, done, lvl, lv + 1, n);
                       @}
                    }
                   @proof { kk = kk + 1; }
                }
               @assert(kk == row.len());
               @proof {
                   @assert(row.take(kk) =~= row);
                   @wsnap = work@;
                   @assert(forall|v: int| 0 <= v < n ==> in_degree@[v] == cnt(adj, act(vis, done), v, n));
                   @assert(forall|v: int| #![trigger lvl[v]] 0 <= v < n && lvl[v] >= 0 ==> vis[v] && in_degree@[v] == 0 && lvl[v] <= lv + 1);
                   @assert(forall|v: int| #![trigger lvl[v]] 0 <= v < n && done[v] ==> lvl[v] >= 0);
                   @assert(forall|v: int| #![trigger lvl[v]] 0 <= v < n && vis[v] && in_degree@[v] == 0 ==> lvl[v] >= 0);
               @}
            }
           @assert(work@.len() == 0);
           @let ghost g0 = groups@;
           @let ghost cg = current_group@;
            groups.push(current_group);
            work = next_work;
           @proof {
               @assert(groups@.len() == lv + 1);
               @assert forall|g: int| 0 <= g < lv + 1 implies group_ok(#[trigger] groups@[g]@, done, lvl, g, n) && groups@[g]@.len() > 0 by {
                   @if g < lv { assert(groups@[g] == g0[g]); } else { assert(groups@[g]@ == cg); }
               @}
               @assert forall|v: int| 0 <= v < n && done[v] && lvl[v] < lv + 1 implies mem(groups@[lvl[v]]@, v) by {
                   @if lvl[v] < lv { assert(groups@[lvl[v]] == g0[lvl[v]]); } else { assert(groups@[lvl[v]]@ == cg); }
               @}
               @assert forall|v: int| 0 <= v < n && 0 <= lvl[v] < lv + 1 implies done[v] by {
                   @if lvl[v] == lv && !done[v] { assert(mem(wsnap, v)); }
               @}
           @}
        }
       @proof {
           @assert forall|v: int| 0 <= v < n implies (lvl[v] >= 0 <==> done[v]) by {
               @if lvl[v] == groups@.len() { assert(mem(work@, v)); }
           @}
       @}

        if self.cycle_state == CycleState::Unknown {
            self.set_cycle_state(in_degree.as_slice());
           @proof {
               @if self.cycle_state is No {
                   @assert forall|v: int| 0 <= v < n && vis[v] implies done[v] by { assert(in_degree@[v] == 0); }
                   @lemma_done_acyclic(adj, vis, in_degree@, done, lvl, groups@.len() as int);
                   @lemma_layered(adj, vis, in_degree@, done, lvl, groups@);
               @} else {
                   @let x = self.cycle_state->Yes_0 as int;
                   @assert(vis[x] && !done[x]);
                   @lemma_stuck_cyclic(adj, vis, in_degree@, done, lvl, groups@.len() as int, x);
               @}
           @}
            self.check_acyclic()?;
        }

        Ok(groups)
    }
//!end
}
} // verus!
fn main() {}
