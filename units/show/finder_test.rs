// Run-time finder for unit `show` (integration test in a scratch copy of the crate, drives the REAL binary; never the deciding step).
// C12: `log show` / `result show` without --id address the most recently completed run, with --id that run;
// C08 / C20: `log show` prints exactly the archives whose target, command and stream are selected.
use std::os::unix::fs::PermissionsExt;
use std::process::Command;
const BIN: &str = env!("CARGO_BIN_EXE_monorail");
fn free_port() -> u16 { std::net::TcpListener::bind("127.0.0.1:0").unwrap().local_addr().unwrap().port() }
fn strip_color(s: &str) -> String { let mut o = String::new(); let mut it = s.chars(); while let Some(c) = it.next() { if c == '\x1b' { for d in it.by_ref() { if d == 'm' { break; } } } else { o.push(c); } } o }

#[test]
fn vf_show_addressing_and_selection() {
    let td = tempfile::tempdir().unwrap();
    let root = td.path();
    for t in ["t1", "t2"] { for c in ["alpha", "beta"] {
        let p = root.join(t).join("monorail/cmd").join(format!("{}.sh", c));
        std::fs::create_dir_all(p.parent().unwrap()).unwrap();
        std::fs::write(&p, format!("#!/bin/sh\necho \"{t}-{c}-out run=$(cat '{r}/runno')\"\necho \"{t}-{c}-err run=$(cat '{r}/runno')\" 1>&2\n", t = t, c = c, r = root.display())).unwrap();
        let mut perm = std::fs::metadata(&p).unwrap().permissions(); perm.set_mode(0o755); std::fs::set_permissions(&p, perm).unwrap();
    } }
    let (lp, kp) = (free_port(), free_port());
    let cfg = root.join("Monorail.json");
    std::fs::write(&cfg, format!("{{\"max_retained_runs\":3,\"targets\":[{{\"path\":\"t1\"}},{{\"path\":\"t2\"}}],\"server\":{{\"log\":{{\"port\":{}}},\"lock\":{{\"port\":{}}}}}}}", lp, if kp == lp { kp + 1 } else { kp })).unwrap();
    let mono = |args: &[&str]| Command::new(BIN).current_dir(root).arg("-f").arg(&cfg).args(args).output().unwrap();
    // four runs with max_retained_runs = 3: slots 1, 2, 3, then 1 again
    for n in 1..=4 { std::fs::write(root.join("runno"), format!("{}", n)).unwrap(); let r = mono(&["run", "-c", "alpha", "beta", "-t", "t1", "t2"]); assert!(r.status.success(), "finder set-up: run {} failed", n); }
    let (mut checked, mut bad) = (0u64, 0u64);
    // parse `log show` output into (stream, target, command) -> text
    let parse = |out: &[u8]| -> std::collections::BTreeMap<(String, String, String), String> {
        let mut m = std::collections::BTreeMap::new(); let mut cur: Option<(String, String, String)> = None;
        for line in String::from_utf8_lossy(out).split_inclusive('\n') {
            let plain = strip_color(line.trim_end_matches('\n'));
            if plain.starts_with("[monorail | ") && plain.ends_with(']') { let f: Vec<&str> = plain[1..plain.len() - 1].split(" | ").collect(); if f.len() == 4 { let k = (f[1].trim_end_matches(".zst").to_string(), f[2].to_string(), f[3].to_string()); m.entry(k.clone()).or_insert_with(String::new); cur = Some(k); continue; } }
            if let Some(k) = &cur { m.get_mut(k).unwrap().push_str(line); }
        }
        m
    };
    // (arguments, expected run number, stdout?, stderr?, targets, commands)
    let cases: Vec<(Vec<&str>, u32, bool, bool, Vec<&str>, Vec<&str>)> = vec![
        (vec!["--stdout"], 4, true, false, vec![], vec![]), (vec!["--stderr"], 4, false, true, vec![], vec![]), (vec!["--stdout", "--stderr"], 4, true, true, vec![], vec![]),
        (vec!["--stdout", "--id", "2"], 2, true, false, vec![], vec![]), (vec!["--stdout", "--stderr", "--id", "3"], 3, true, true, vec![], vec![]), (vec!["--stderr", "--id", "1"], 4, false, true, vec![], vec![]),
        (vec!["--stdout", "-t", "t2"], 4, true, false, vec!["t2"], vec![]), (vec!["--stdout", "--stderr", "-c", "beta"], 4, true, true, vec![], vec!["beta"]), (vec!["--stdout", "-t", "t1", "-c", "alpha"], 4, true, false, vec!["t1"], vec!["alpha"]),
        (vec!["--stderr", "-t", "t1", "-c", "beta", "--id", "2"], 2, false, true, vec!["t1"], vec!["beta"]),
    ];
    for (args, run_no, so, se, ft, fc) in cases {
        checked += 1;
        let mut a = vec!["log", "show"]; a.extend(args.iter());
        let o = mono(&a);
        let got = parse(&o.stdout);
        let mut problems = vec![];
        if !o.status.success() { problems.push("the command failed".to_string()); }
        for t in ["t1", "t2"] { for c in ["alpha", "beta"] { for (s, inc, tag) in [("stdout", so, "out"), ("stderr", se, "err")] {
            let admitted = inc && (ft.is_empty() || ft.contains(&t)) && (fc.is_empty() || fc.contains(&c));
            let want = format!("{}-{}-{} run={}\n", t, c, tag, run_no);
            match (admitted, got.get(&(s.to_string(), t.to_string(), c.to_string()))) {
                (true, Some(x)) if *x == want => {}
                (true, Some(x)) => problems.push(format!("({}, {}, {}) printed as {:?}, the addressed run stored {:?}", s, t, c, x, want)),
                (true, None) => problems.push(format!("({}, {}, {}) is selected but was not printed", s, t, c)),
                (false, Some(_)) => problems.push(format!("({}, {}, {}) printed although it is not selected", s, t, c)),
                (false, None) => {}
            }
        } } }
        if !problems.is_empty() { bad += 1; println!("VF-FAIL `log show {}` after 4 runs with 3 retained :: {} (C12) (C08) (C20)", args.join(" "), problems.join("; ").chars().take(500).collect::<String>()); }
    }
    // result show: the latest run's document (its invocation is recorded in it)
    checked += 1;
    let r = mono(&["result", "show"]);
    let text = String::from_utf8_lossy(&r.stdout).to_string();
    let slot = text.split("\"path\":\"").nth(1).and_then(|x| x.split('"').next()).unwrap_or("").to_string();
    if !r.status.success() || !slot.ends_with("/run/1") { bad += 1; println!("VF-FAIL `result show` after 4 runs with 3 retained :: exit ok={}, the document shown belongs to slot {:?}; the most recent run is in slot 1 (C12)", r.status.success(), slot); }
    println!("VF-SUMMARY test=show_addressing_and_selection checked={} nontrivial={} bad={}", checked, checked, bad);
}

// C12: `result show` returns the document the most recent completed run printed - whatever that run looked like: no target to run at all
// (a checkpoint exists and nothing changed since), a failing command followed by a skipped one, commands no target defines.
#[test]
fn vf_result_show_is_what_the_run_printed() {
    let td = tempfile::tempdir().unwrap();
    let root = td.path();
    let git = |args: &[&str]| { let o = Command::new("git").current_dir(root).args(args).output().unwrap(); assert!(o.status.success(), "finder set-up: git {:?}", args); };
    git(&["init", "-q", "."]); git(&["config", "user.email", "a@b"]); git(&["config", "user.name", "n"]);
    for (t, body) in [("t1", "echo ok"), ("t2", "exit 3")] {
        let p = root.join(t).join("monorail/cmd/build.sh");
        std::fs::create_dir_all(p.parent().unwrap()).unwrap();
        std::fs::write(&p, format!("#!/bin/sh\n{}\n", body)).unwrap();
        let mut perm = std::fs::metadata(&p).unwrap().permissions(); perm.set_mode(0o755); std::fs::set_permissions(&p, perm).unwrap();
    }
    std::fs::write(root.join(".gitignore"), "monorail-out/\n").unwrap();
    // many more targets, so that a result document can be hundreds of kilobytes long
    let many: Vec<String> = (0..120).map(|i| format!("m{:03}", i)).collect();
    for m in &many { std::fs::create_dir_all(root.join(m)).unwrap(); std::fs::write(root.join(m).join("f.txt"), m).unwrap(); }
    let more: String = many.iter().map(|m| format!(",{{\"path\":\"{}\"}}", m)).collect();
    let wide: Vec<String> = (0..40).map(|i| format!("undefined-command-{:02}", i)).collect();
    let (lp, kp) = (free_port(), free_port());
    let cfg = root.join("Monorail.json");
    std::fs::write(&cfg, format!("{{\"targets\":[{{\"path\":\"t1\"}},{{\"path\":\"t2\"}}{more}],\"server\":{{\"log\":{{\"port\":{}}},\"lock\":{{\"port\":{}}}}}}}", lp, if kp == lp { kp + 1 } else { kp })).unwrap();
    git(&["add", "-A"]); git(&["commit", "-q", "-m", "c1"]);
    let mono = |args: &[&str]| Command::new(BIN).current_dir(root).arg("-f").arg(&cfg).args(args).output().unwrap();
    let (mut checked, mut bad) = (0u64, 0u64);
    let shapes: Vec<(&str, Vec<&str>, bool)> = vec![
        ("a run of one succeeding target", vec!["run", "-c", "build", "-t", "t1"], false),
        ("a failing command followed by a command that is skipped", vec!["run", "-c", "build", "lint", "-t", "t2"], false),
        ("commands that no target defines", vec!["run", "-c", "nosuch", "-t", "t1", "t2"], false),
        ("a long result document: forty commands that none of 120 targets defines", { let mut a = vec!["run", "-c"]; a.extend(wide.iter().map(|x| x.as_str())); a.push("-t"); a.extend(many.iter().map(|x| x.as_str())); a }, false),
        ("a run with nothing to do: a checkpoint exists and nothing has changed since", vec!["run", "-c", "build"], true),
    ];
    for (what, args, needs_cp) in shapes {
        checked += 1;
        if needs_cp { let u = mono(&["checkpoint", "update"]); assert!(u.status.success(), "finder set-up: checkpoint update failed: {}", String::from_utf8_lossy(&u.stdout)); }
        let r = mono(&args);
        // the printed form carries the time of printing beside the document
        let strip = |v: Option<serde_json::Value>| v.map(|mut x| { if let Some(o) = x.as_object_mut() { o.remove("timestamp"); } x });
        let printed: Option<serde_json::Value> = strip(serde_json::from_slice(&r.stdout).ok());
        let s = mono(&["result", "show"]);
        let shown: Option<serde_json::Value> = strip(serde_json::from_slice(&s.stdout).ok());
        if printed.is_none() { bad += 1; println!("VF-FAIL {} (`monorail {}`) :: the run printed no document (exit {:?}) (C12)", what, args.join(" "), r.status.code()); continue; }
        if !s.status.success() || shown != printed {
            bad += 1;
            println!("VF-FAIL {} (`monorail {}`), then `result show` :: exit ok={}, shows {}; the run printed {} (C12)", what, args.join(" "), s.status.success(),
                String::from_utf8_lossy(&s.stdout).chars().take(160).collect::<String>().replace('\n', " "), String::from_utf8_lossy(&r.stdout).chars().take(160).collect::<String>().replace('\n', " "));
        }
    }
    println!("VF-SUMMARY test=result_show_is_what_the_run_printed checked={} nontrivial={} bad={}", checked, checked, bad);
}
