#![feature(allocator_api)]
#![allow(unused)]
// unit `show`: app/result.rs result_show, app/log.rs log_show — which run and which archives the read-only commands address (C12, C08, C20)
use vstd::prelude::*;
verus! {
//!include prelude/std_gaps.rs
//!include prelude/keymap.rs
//!include prelude/app.rs
pub mod graph { pub use super::graph_err::GraphError; }
pub mod core { pub(crate) use super::Config; }
pub uninterp spec fn run_root(cfg: Config, work_path: Seq<char>) -> Seq<char>;     // <work_path>/<out_dir>/run
pub uninterp spec fn dec_of(i: int) -> Seq<char>;                                    // decimal text of a number
#[verifier::external_body] pub fn dec_string(i: usize) -> (r: String) ensures r@ == dec_of(i as int) { unimplemented!() }
#[verifier::external_body] pub fn io_to_generic(e: std::io::Error) -> (r: MonorailError) ensures r is Generic { unimplemented!() }
impl Config {
    #[verifier::external_body] pub fn get_tracking_path(&self, work_path: &path::Path) -> path::PathBuf { unimplemented!() }
    #[verifier::external_body] pub fn get_run_path(&self, work_path: &path::Path) -> (r: path::PathBuf) ensures r@ == run_root(*self, work_path@) { unimplemented!() }
}
pub mod tracking {
    use vstd::prelude::*;
    use super::*;
    pub struct Run { pub path: path::PathBuf, pub id: usize }
    pub struct Table { pub x: u8 }
    impl Table {
        #[verifier::external_body] pub fn new(p: &path::PathBuf) -> (r: Result<Table, MonorailError>) { unimplemented!() }
        // ASSUMED (repo function): decodes the run pointer file; `recorded_id` is what that file holds
        #[verifier::external_body] pub fn open_run(&self, Tracked(w): Tracked<&mut World>) -> (r: Result<Run, MonorailError>)
            ensures final(w).pointer_reads == old(w).pointer_reads + 1, final(w).recorded_id == old(w).recorded_id, final(w).fs == old(w).fs, final(w).shown == old(w).shown,
                r matches Ok(run) ==> run.id as int == old(w).recorded_id { unimplemented!() }
    }
}
// the result document: stored by store_run_output, read back by result_show - the serde round trip of its types is ASSUMED
//!serde src/app/run.rs RunOutput
//!serde src/app/run.rs CommandRunResult
//!serde src/app/run.rs TargetRunResult
//!serde src/app/run.rs RunStatus
//!serde src/app/run.rs Out
pub mod run { pub struct RunOutput { pub x: u8 } }
//!const src/app/result.rs RESULT_OUTPUT_FILE_NAME
pub const RESULT_OUTPUT_FILE_NAME: &⟦'static ⟧str = "result.json.zst";
//!end
//!type src/app/result.rs ResultShowInput
pub struct ResultShowInput {}
//!end
pub open spec fn result_path(cfg: Config, work_path: Seq<char>, id: int) -> Seq<char> { path_join(path_join(run_root(cfg, work_path), dec_of(id)), "result.json.zst"@) }

//!fn src/app/result.rs result_show rules=R1,R10,R12,R17 props=C12
pub(crate) fn result_show<'a>(
    cfg: &'a core::Config,
    work_path: &'a path::Path,
    _input: &'a ResultShowInput,
 Tracked(w): Tracked<&mut World>) -> ⟦(res: ⟧Result<run::RunOutput, MonorailError>⟦)⟧
@    ensures
@        // C12: `result show` returns the result document stored in the slot the run pointer names - the most recently completed run
@        res matches Ok(o) ==> old(w).fs.dom().contains(result_path(*cfg, work_path@, old(w).recorded_id))
@            && json_parse::<run::RunOutput>(zstd_dec(old(w).fs[result_path(*cfg, work_path@, old(w).recorded_id)])) == Some(o), // [C12]
{
    // open tracking and get run
    let tracking_table = tracking::Table::new(&cfg.get_tracking_path(work_path))?;
    // use run to get results.json file in id dir
    let run = tracking_table.open_run(Tracked(w))?;
    let run_dir = cfg.get_run_path(work_path).join(dec_string(run.id));
    let run_output_file = fs::OpenOptions::new()
        .read(true)
        .open(run_dir.join(RESULT_OUTPUT_FILE_NAME), Tracked(w))
        .map_err(io_to_generic)?;
    let br = iox::BufReader::new(run_output_file);
    let mut decoder = zstd::stream::read::Decoder::new(br)?;

    Ok(from_reader_dec(&mut decoder)?)
}
//!end

// ---- log_show: which run, and which archives of it, are printed (C12, C08, C20) ----
//!const src/app/log.rs STDOUT_FILE
pub const STDOUT_FILE: &⟦'static ⟧str = "stdout.zst";
//!end
//!const src/app/log.rs STDERR_FILE
pub const STDERR_FILE: &⟦'static ⟧str = "stderr.zst";
//!end
//!type src/app/log.rs LogShowInput
pub struct LogShowInput<'a> {
    pub id: Option<&'a usize>,
    pub filter_input: server::LogFilterInput,
}
//!end
// contract of is_log_allowed (proved in unit log)
pub open spec fn allowed(targets: Set<Seq<char>>, commands: Set<Seq<char>>, target: Seq<char>, command: Seq<char>) -> bool {
    (targets =~= Set::<Seq<char>>::empty() || targets.contains(target)) && (commands =~= Set::<Seq<char>>::empty() || commands.contains(command))
}
#[verifier::external_body] pub(crate) fn is_log_allowed(targets: &HashSet<String>, commands: &HashSet<String>, target: &str, command: &str) -> (r: bool)
    ensures r == allowed(targets@, commands@, target@, command@) { unimplemented!() }
#[verifier::external_body] pub(crate) fn get_header(filename: &str, target: &str, command: &str, color: bool) -> String { unimplemented!() }
// contract of stream_archive_file_to_stdout as far as log_show depends on it (what it prints is proved in unit log): one archive streamed
#[verifier::external_body] fn stream_archive_file_to_stdout(header: &[u8], path: &path::Path, stdout: &mut iox::Stdout, Tracked(w): Tracked<&mut World>) -> (r: Result<(), MonorailError>)
    ensures final(w).shown == old(w).shown.push(path@), final(w).recorded_id == old(w).recorded_id, final(w).fs == old(w).fs, final(w).pointer_reads == old(w).pointer_reads { unimplemented!() }

// hex digest of a target path -> that path, for the first n configured targets (a later target wins a collision)
pub open spec fn h2t(ts: Seq<Target>, n: int) -> Map<Seq<char>, Seq<char>> decreases n {
    if n <= 0 { Map::empty() } else { h2t(ts, n - 1).insert(hex(sha256(str_bytes(ts[n - 1].path@))), ts[n - 1].path@) }
}
pub open spec fn name_of(p: Seq<char>) -> Seq<char> { file_name_of(p)->Some_0 }
// C08 / C20: an archive is printed iff its target (found through the digest directory) and command pass the filters and its stream is selected
pub open spec fn adm(p: Seq<char>, cmd: Seq<char>, hash: Seq<char>, ts: Seq<Target>, f: server::LogFilterInput) -> bool {
    &&& h2t(ts, ts.len() as int).dom().contains(hash)
    &&& allowed(f.targets@, f.commands@, h2t(ts, ts.len() as int)[hash], cmd)
    &&& ((name_of(p) == "stdout.zst"@ && f.include_stdout) || (name_of(p) == "stderr.zst"@ && f.include_stderr))
}
pub open spec fn files_upto(tdir: Seq<char>, k: int, cmd: Seq<char>, hash: Seq<char>, ts: Seq<Target>, f: server::LogFilterInput) -> Seq<Seq<char>> decreases k {
    if k <= 0 { Seq::empty() } else { let r = files_upto(tdir, k - 1, cmd, hash, ts, f); let p = dir_listing(tdir)[k - 1]; if adm(p, cmd, hash, ts, f) { r.push(p) } else { r } }
}
pub open spec fn tdirs_upto(cdir: Seq<char>, j: int, ts: Seq<Target>, f: server::LogFilterInput) -> Seq<Seq<char>> decreases j {
    if j <= 0 { Seq::empty() } else { let t = dir_listing(cdir)[j - 1];
        tdirs_upto(cdir, j - 1, ts, f) + (if is_dir_spec(t) { files_upto(t, dir_listing(t).len() as int, name_of(cdir), name_of(t), ts, f) } else { Seq::empty() }) }
}
pub open spec fn cmds_upto(rdir: Seq<char>, i: int, ts: Seq<Target>, f: server::LogFilterInput) -> Seq<Seq<char>> decreases i {
    if i <= 0 { Seq::empty() } else { let c = dir_listing(rdir)[i - 1];
        cmds_upto(rdir, i - 1, ts, f) + (if is_dir_spec(c) { tdirs_upto(c, dir_listing(c).len() as int, ts, f) } else { Seq::empty() }) }
}
pub open spec fn shown_run(cfg: Config, work_path: Seq<char>, input: LogShowInput, recorded: int) -> Seq<char> {
    path_join(run_root(cfg, work_path), dec_of(match input.id { Some(i) => *i as int, None => recorded }))
}

//!fn src/app/log.rs log_show rules=R1,R10,R12,R16,R17 props=C12,C08,C20
pub(crate) fn log_show<'a>(
    cfg: &'a core::Config,
    input: &'a LogShowInput<'a>,
    work_path: &'a path::Path,
 Tracked(w): Tracked<&mut World>) -> ⟦(res: ⟧Result<(), MonorailError>⟦)⟧
@    requires
@        // ASSUMED about the input: the names below the run directory are the ones monorail created (command names, hex digests,
@        // stdout.zst / stderr.zst), hence valid UTF-8 (`to_str().unwrap()` panics otherwise)
@        forall|n: Seq<char>| utf8_name(n),
@    ensures
@        // C12: the run shown is the one asked for with --id, else the one the run pointer names (the most recently completed run);
@        // C08 / C20: of that run, exactly the archives whose target and command pass the filters and whose stream is selected are
@        // printed, each once, in directory order (what is printed per archive: unit log, stream_archive_file_to_stdout)
@        // C12: an explicit --id addresses its slot on its own: the run pointer is not consulted (whether slot N can be shown does not
@        // depend on where the pointer stands - every retained run stays addressable after the ring has wrapped)
@        input.id is Some ==> final(w).pointer_reads == old(w).pointer_reads, // [C12]
@        res is Ok ==> final(w).shown == old(w).shown + cmds_upto(shown_run(*cfg, work_path@, *input, old(w).recorded_id),
@            dir_listing(shown_run(*cfg, work_path@, *input, old(w).recorded_id)).len() as int, cfg.targets@, input.filter_input), // [C12,C08,C20]
{
    // require at least one of the log types be opted into
    if !input.filter_input.include_stdout && !input.filter_input.include_stderr {
        return Err(MonorailError::from(
            "No stream selected; provide one or both of: --stdout, --stderr",
        ));
    }
    let run_id = match input.id {
        Some(id) => *id,
        None => {
            let tracking_table = tracking::Table::new(&cfg.get_tracking_path(work_path))?;
            let run = tracking_table.open_run(Tracked(w))?;
            run.id
        }
    };

    let run_dir = cfg.get_run_path(work_path).join(dec_string(run_id));
@    let ghost rd = run_dir@;
@    let ghost ts = cfg.targets@;
@    let ghost f = input.filter_input;
@    assert(rd == shown_run(*cfg, work_path@, *input, old(w).recorded_id));
    if !run_dir.try_exists(Tracked(w))? {
        return Err(MonorailError::Generic(fmt_opaque()));
    }

    // map all targets to their shas for filtering and prefixing log lines
    if cfg.targets.is_empty() {
        return Err(MonorailError::from(
            "No configured targets, cannot tail logs",
        ));
    }

    let mut hasher = sha2::Sha256::new();
    let mut hash2target⟦: HashMap<String, &String>⟧ = HashMap::new();
    for target in ⟦itt: ⟧&cfg.targets
@        invariant
@            itt.seq().len() == ts.len(), forall|q: int| 0 <= q < ts.len() ==> *itt.seq()[q] == ts[q],
@            hasher.fed == Seq::<u8>::empty(),
@            hash2target@.dom() =~= h2t(ts, itt.index@ as int).dom(),
@            forall|h: Seq<char>| hash2target@.dom().contains(h) ==> (#[trigger] hash2target@[h])@ == h2t(ts, itt.index@ as int)[h],
    {
        hasher.update(&target.path);
        hash2target.insert(sha2::hex_of(hasher.finalize_reset()), &target.path);
    }
@    let ghost m = h2t(ts, ts.len() as int);

    let mut stdout = iox::stdout();
    // open directory at run_dir
@    let ghost s0 = w.shown;
@    let ghost pr0 = w.pointer_reads;
    for fn_entry in ⟦itc: ⟧run_dir.read_dir()?.results_vec()
@        invariant
@            itc.seq().len() == dir_listing(rd).len(), forall|q: int| 0 <= q < itc.seq().len() ==> ((#[trigger] itc.seq()[q]) matches Ok(e) ==> e.p == dir_listing(rd)[q]),
@            w.shown == s0 + cmds_upto(rd, itc.index@ as int, ts, f), input.id is Some ==> w.pointer_reads == old(w).pointer_reads,
@            hash2target@.dom() =~= m.dom(), forall|h: Seq<char>| hash2target@.dom().contains(h) ==> (#[trigger] hash2target@[h])@ == m[h],
@            forall|n: Seq<char>| utf8_name(n), ts == cfg.targets@, f == input.filter_input, m == h2t(ts, ts.len() as int),
    {
@        let ghost i = itc.index@ as int;
@        let ghost sc = w.shown;
        let fn_path = fn_entry?.path();
@        assert(fn_path@ == dir_listing(rd)[i]);
        if fn_path.is_dir() {
            let command = fn_path.file_name().unwrap().to_str().unwrap();
@            let ghost cd = fn_path@;
            for t_entry in ⟦itd: ⟧fn_path.read_dir()?.results_vec()
@                invariant
@                    itd.seq().len() == dir_listing(cd).len(), forall|q: int| 0 <= q < itd.seq().len() ==> ((#[trigger] itd.seq()[q]) matches Ok(e) ==> e.p == dir_listing(cd)[q]),
@                    w.shown == sc + tdirs_upto(cd, itd.index@ as int, ts, f), command@ == name_of(cd), input.id is Some ==> w.pointer_reads == old(w).pointer_reads,
@                    hash2target@.dom() =~= m.dom(), forall|h: Seq<char>| hash2target@.dom().contains(h) ==> (#[trigger] hash2target@[h])@ == m[h],
@                    forall|n: Seq<char>| utf8_name(n), ts == cfg.targets@, f == input.filter_input, m == h2t(ts, ts.len() as int),
            {
@                let ghost j = itd.index@ as int;
@                let ghost st = w.shown;
                let t_path = t_entry?.path();
@                assert(t_path@ == dir_listing(cd)[j]);
                if t_path.is_dir() {
                    let target_hash = t_path.file_name().unwrap().to_str().unwrap();
@                    let ghost td = t_path@;
                    for e in ⟦ite: ⟧t_path.read_dir()?.results_vec()
@                        invariant
@                            ite.seq().len() == dir_listing(td).len(), forall|q: int| 0 <= q < ite.seq().len() ==> ((#[trigger] ite.seq()[q]) matches Ok(x) ==> x.p == dir_listing(td)[q]),
@                            w.shown == st + files_upto(td, ite.index@ as int, command@, target_hash@, ts, f), input.id is Some ==> w.pointer_reads == old(w).pointer_reads,
@                            hash2target@.dom() =~= m.dom(), forall|h: Seq<char>| hash2target@.dom().contains(h) ==> (#[trigger] hash2target@[h])@ == m[h],
@                            forall|n: Seq<char>| utf8_name(n), ts == cfg.targets@, f == input.filter_input, m == h2t(ts, ts.len() as int),
                    {
@                        let ghost k = ite.index@ as int;
@                        let ghost sf = w.shown;
                        let target =
                            hash2target
                                .get(target_hash)
                                .ok_or(MonorailError::Generic(fmt_opaque()))?;
                        let p = e?.path();
@                        assert(p@ == dir_listing(td)[k]);
                        let filename = p
                            .file_name()
                            .ok_or(MonorailError::Generic(fmt_opaque()))?
                            .to_str()
                            .ok_or(MonorailError::from("Bad file name string"))?;
                        if is_log_allowed(
                            &input.filter_input.targets,
                            &input.filter_input.commands,
                            target,
                            command,
                        ) && (str_eq(filename, STDOUT_FILE) && input.filter_input.include_stdout
                            || str_eq(filename, STDERR_FILE) && input.filter_input.include_stderr)
                        {
                            let header = get_header(filename, target, command, true);
                            let header_bytes = header.as_bytes();
                            stream_archive_file_to_stdout(header_bytes, &p, &mut stdout, Tracked(w))?;
@                            assert(adm(p@, command@, target_hash@, ts, f));
@                            assert(w.shown =~= st + files_upto(td, k + 1, command@, target_hash@, ts, f));
@                        } else {
@                            assert(!adm(p@, command@, target_hash@, ts, f));
                        }
                    }
@                    assert(w.shown =~= sc + tdirs_upto(cd, j + 1, ts, f));
@                } else {
@                    assert(w.shown =~= sc + tdirs_upto(cd, j + 1, ts, f));
                }
            }
@            assert(w.shown =~= s0 + cmds_upto(rd, i + 1, ts, f));
@        } else {
@            assert(w.shown =~= s0 + cmds_upto(rd, i + 1, ts, f));
        }
    }

    Ok(())
}
//!end
} // verus!
fn main() {}
