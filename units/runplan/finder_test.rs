// Run-time finder for unit `runplan` (child module of app::run in a scratch copy of the crate; never the deciding step).
// Executable form of the contracts in units/runplan/unit.rs, evaluated on the REAL compiled functions.
use super::*;

fn cfg_with_sequences(seqs: &[(&str, Vec<&str>)], max_retained: usize) -> core::Config {
    let mut s = String::from("{\"targets\":[],\"max_retained_runs\":");
    s.push_str(&max_retained.to_string());
    s.push_str(",\"sequences\":{");
    for (i, (name, cmds)) in seqs.iter().enumerate() {
        if i > 0 { s.push(','); }
        s.push_str(&format!("\"{}\":[{}]", name, cmds.iter().map(|c| format!("\"{}\"", c)).collect::<Vec<_>>().join(",")));
    }
    s.push_str("}}");
    serde_json::from_str(&s).unwrap()
}

#[test]
fn vf_get_all_commands() {
    // C04: expanded sequences first, then --commands, each in the order given; undefined sequence => error
    let defs = vec![("s1", vec!["a", "b"]), ("s2", vec!["c"]), ("s3", vec![]), ("s4", vec!["d", "a", "e"])];
    let cfg = cfg_with_sequences(&defs, 3);
    let names: Vec<String> = vec!["s1", "s2", "s3", "s4", "nope"].into_iter().map(String::from).collect();
    let cmds_pool: Vec<String> = vec!["x", "y", "a"].into_iter().map(String::from).collect();
    let (mut checked, mut bad, mut nontrivial) = (0u64, 0u64, 0u64);
    // all sequence lists of length 0..=3 over 5 names, all command lists of length 0..=2 over 3 names
    let mut seq_lists: Vec<Vec<usize>> = vec![vec![]];
    for len in 1..=3 { let mut cur = vec![vec![]]; for _ in 0..len { let mut nx = vec![]; for c in &cur { for k in 0..names.len() { let mut d: Vec<usize> = c.clone(); d.push(k); nx.push(d); } } cur = nx; } seq_lists.extend(cur); }
    let mut cmd_lists: Vec<Vec<usize>> = vec![vec![]];
    for len in 1..=2 { let mut cur = vec![vec![]]; for _ in 0..len { let mut nx = vec![]; for c in &cur { for k in 0..cmds_pool.len() { let mut d: Vec<usize> = c.clone(); d.push(k); nx.push(d); } } cur = nx; } cmd_lists.extend(cur); }
    for sl in &seq_lists {
        for cl in &cmd_lists {
            let seqs: Vec<&String> = sl.iter().map(|&k| &names[k]).collect();
            let cmds: Vec<&String> = cl.iter().map(|&k| &cmds_pool[k]).collect();
            checked += 1;
            if sl.len() >= 2 { nontrivial += 1; }
            let undefined = sl.iter().any(|&k| names[k] == "nope");
            let mut want: Vec<String> = vec![];
            for &k in sl { if let Some((_, v)) = defs.iter().find(|(n, _)| *n == names[k]) { want.extend(v.iter().map(|s| s.to_string())); } }
            want.extend(cmds.iter().map(|s| s.to_string()));
            let got = get_all_commands(&cfg, &cmds, &seqs);
            let ok = match (&got, undefined) {
                (Err(_), true) => true,
                (Ok(v), false) => v.iter().map(|s| s.to_string()).collect::<Vec<_>>() == want,
                _ => false,
            };
            if !ok {
                bad += 1;
                if bad <= 3 {
                    println!("VF-FAIL sequences={:?} commands={:?} :: get_all_commands returned {:?}, documented order is {:?} - the commands of each sequence in the order given, then every explicit command (C04) (C05)", seqs, cmds, got.as_ref().map(|v| v.iter().map(|s| s.as_str()).collect::<Vec<_>>()).map_err(|e| e.to_string()), if undefined { None } else { Some(&want) });
                }
            }
        }
    }
    println!("VF-SUMMARY test=get_all_commands checked={} nontrivial={} bad={}", checked, nontrivial, bad);
}

#[test]
fn vf_get_next_tracking_run() {
    // C12: id == next_slot(previous id, max); 1 <= id <= max for max >= 1; history of 3*max+2 runs: last max runs use distinct slots
    let (mut checked, mut bad, mut nontrivial) = (0u64, 0u64, 0u64);
    for max in 1usize..=6 {
        let td = crate::core::testing::new_testdir().unwrap();
        let cfg = cfg_with_sequences(&[], max);
        let table = tracking::Table::new(&td.path().join("tracking")).unwrap();
        let mut hist: Vec<usize> = vec![];
        let mut prev = 0usize;
        for step in 0..(3 * max + 2) {
            checked += 1;
            if step >= max { nontrivial += 1; }
            match get_next_tracking_run(&cfg, &table) {
                Ok(mut run) => {
                    let want = if prev >= max { 1 } else { prev + 1 };
                    let mut ok = run.id == want && run.id >= 1 && run.id <= max;
                    hist.push(run.id);
                    let tail: Vec<usize> = hist.iter().rev().take(max).cloned().collect();
                    let mut d = tail.clone(); d.sort(); d.dedup();
                    if d.len() != tail.len() { ok = false; }
                    if !ok { bad += 1; if bad <= 3 { println!("VF-FAIL max_retained_runs={} previous_id={} history={:?} :: get_next_tracking_run gave id {} (expected {}; last {} ids must be distinct and within 1..={}) (C12)", max, prev, hist, run.id, want, max, max); } }
                    prev = run.id;
                    run.save().unwrap();
                }
                Err(e) => { bad += 1; println!("VF-FAIL max_retained_runs={} previous_id={} :: get_next_tracking_run failed: {} (C12)", max, prev, e); }
            }
        }
    }
    println!("VF-SUMMARY test=get_next_tracking_run checked={} nontrivial={} bad={}", checked, nontrivial, bad);
}

#[test]
fn vf_default_retention() {
    // C12 / C13: a configuration that does not say how many runs to retain retains the documented 10: the slot of the next run is then
    // never the slot the pointer records (with a default of 0 or 1 every run would reuse - and first wipe - the recorded run's slot)
    let (mut checked, mut bad) = (0u64, 0u64);
    for text in [r#"{"targets":[]}"#, r#"{"targets":[],"out_dir":"o"}"#, r#"{"targets":[],"server":{"log":{},"lock":{}}}"#] {
        checked += 1;
        match serde_json::from_str::<core::Config>(text) {
            Ok(c) => if c.max_retained_runs != 10 { bad += 1; println!("VF-FAIL configuration `{}` :: max_retained_runs reads as {}, the documented default is 10 (with fewer than 2 the next run wipes the recorded run's slot before it has anything to replace it) (C13) (C12)", text, c.max_retained_runs); },
            Err(e) => { bad += 1; println!("VF-FAIL configuration `{}` :: rejected: {} (C13) (C12)", text, e); }
        }
    }
    println!("VF-SUMMARY test=default_retention checked={} nontrivial={} bad={}", checked, checked, bad);
}
