#![feature(allocator_api)]
#![allow(unused)]
// unit `runplan`: the planning kernels of app/run.rs (C04, C05, C11, C12)
use vstd::prelude::*;
verus! {
//!include prelude/std_gaps.rs
//!include prelude/keymap.rs
//!include prelude/app.rs
pub mod graph { pub use super::graph_err::GraphError; }

pub mod core { pub(crate) use super::Config; pub(crate) use super::Target; }
pub mod tracking {
    use vstd::prelude::*;
    use super::*;
//!type src/core/tracking.rs Run
pub struct Run {
    pub path: path::PathBuf,
    pub id: usize,
}
//!end
//!type src/core/tracking.rs Table
pub struct Table {
    pub run_path: path::PathBuf,
    pub checkpoint_path: path::PathBuf,
}
//!end
    impl Table {
        // the id the run pointer file records (None: no pointer file) - a function of the table's files at the time of the call
        pub uninterp spec fn recorded(&self) -> Option<int>;
        // ASSUMED (repo functions, not verified here): Table::open_run decodes the pointer file / new_run starts at 0
        #[verifier::external_body] pub(crate) fn open_run(&self) -> (r: Result<Run, MonorailError>)
            ensures r matches Ok(run) ==> self.recorded() == Some(run.id as int), r matches Err(MonorailError::TrackingRunNotFound(_)) ==> self.recorded() is None
        { unimplemented!() }
        #[verifier::external_body] pub(crate) fn new_run(&self) -> (r: Run) ensures r.id == 0 { unimplemented!() }
    }
}

// ---------- C12: slot arithmetic ----------
pub open spec fn next_slot(i: int, m: int) -> int { if i >= m { 1 } else { i + 1 } }

//!fn src/app/run.rs get_next_tracking_run props=C12,C13
fn get_next_tracking_run(
    cfg: &core::Config,
    tracking_table: &tracking::Table,
) -> ⟦(res: ⟧Result<tracking::Run, MonorailError>⟦)⟧
@    ensures
@        // C12: the id handed to a run is next_slot(previous id, max_retained_runs); a missing pointer counts as id 0
@        res matches Ok(r) ==> r.id == next_slot(match tracking_table.recorded() { Some(i) => i, None => 0 }, cfg.max_retained_runs as int), // [C12,C13]
@        // C13: with more than one retained run the slot handed out is never the one the pointer records (that slot holds the last completed run)
@        (res is Ok && cfg.max_retained_runs >= 2 && tracking_table.recorded() is Some && 1 <= tracking_table.recorded()->Some_0 <= cfg.max_retained_runs) ==> res->Ok_0.id != tracking_table.recorded()->Some_0, // [C13]
@        res matches Ok(r) ==> 1 <= r.id && (cfg.max_retained_runs >= 1 ==> r.id <= cfg.max_retained_runs), // [C12]
{
    // obtain current log info counter and increment it before using
    let mut run = match tracking_table.open_run() {
        Ok(run) => run,
        Err(MonorailError::TrackingRunNotFound(_)) => tracking_table.new_run(),
        Err(e) => {
            return Err(e);
        }
    };
@    let ghost id0 = run.id as int;
    if run.id >= cfg.max_retained_runs {
        run.id = 0;
    }
    run.id += 1;
@    assert(run.id == next_slot(id0, cfg.max_retained_runs as int));
    Ok(run)
}
//!end

// ---------- C04: the documented command order ----------
// ASSUMED (std gap): Vec<&String>::extend(&Vec<String>) is an order-preserving append (R12 substitutes the call)
#[verifier::external_body]
fn extend_refs<'a>(v: &mut Vec<&'a String>, src: &'a Vec<String>)
    ensures final(v)@.len() == old(v)@.len() + src@.len(),
        forall|i: int| 0 <= i < old(v)@.len() ==> final(v)@[i] == old(v)@[i],
        forall|i: int| 0 <= i < src@.len() ==> *(#[trigger] final(v)@[old(v)@.len() + i]) == src@[i],
{ unimplemented!() }

// the command list the documentation promises: every requested sequence expanded in the order given, then the explicit commands
pub open spec fn expand(seqs: Map<Seq<char>, Vec<String>>, names: Seq<&String>, upto: int) -> Seq<Seq<char>>
    decreases upto
{
    if upto <= 0 { Seq::empty() } else { expand(seqs, names, upto - 1) + seqs[names[upto - 1]@]@.map_values(|s: String| s@) }
}
pub open spec fn views(v: Seq<&String>) -> Seq<Seq<char>> { v.map_values(|s: &String| s@) }

//!fn src/app/run.rs get_all_commands rules=R16 props=C04,C05
fn get_all_commands<'a>(
    cfg: &'a core::Config,
    commands: &'a [&'a String],
    sequences: &'a [&'a String],
) -> ⟦(res: ⟧Result<Vec<&'a String>, MonorailError>⟦)⟧
@    ensures
@        // C04: expanded sequences first, then --commands, each in the order given
@        res matches Ok(all) ==> (sequences@.len() > 0 ==> cfg.sequences is Some)
@            && views(all@) == (if sequences@.len() > 0 { expand(cfg.sequences->Some_0@, sequences@, sequences@.len() as int) } else { Seq::empty() }) + views(commands@), // [C04,C05]
@        // an undefined sequence is an error, never silently skipped
@        (sequences@.len() > 0 && (cfg.sequences is None || exists|i: int| 0 <= i < sequences@.len() && !cfg.sequences->Some_0@.dom().contains(#[trigger] sequences@[i]@))) ==> res is Err, // [C04,C05]
{
    // append provided commands to any expanded sequences provided
    let mut all_commands⟦: Vec<&'a String>⟧ = vec![];
    if !sequences.is_empty() {
        let cfg_sequences = cfg.sequences.as_ref().ok_or(MonorailError::from(
            "No sequences are defined in configuration",
        ))?;
        for seq in ⟦it: ⟧sequences
@            invariant
@                cfg.sequences is Some, *cfg_sequences == cfg.sequences->Some_0,
@                it.seq().len() == sequences@.len(), forall|j: int| 0 <= j < sequences@.len() ==> *it.seq()[j] == sequences@[j],
@                views(all_commands@) == expand(cfg_sequences@, sequences@, it.index@),
@                forall|i: int| 0 <= i < it.index@ ==> cfg_sequences@.dom().contains(#[trigger] sequences@[i]@),
        {
@            let ghost k = it.index@;
@            let ghost before = all_commands@;
            extend_refs(&mut all_commands,
                cfg_sequences
                    .get(seq.as_str())
                    .ok_or(MonorailError::Generic(fmt_opaque()))?,
            );
@            proof {
@                let add = cfg_sequences@[sequences@[k]@]@.map_values(|s: String| s@);
@                let src = cfg_sequences@[sequences@[k]@];
@                assert(views(all_commands@).len() == views(before).len() + add.len());
@                assert forall|i: int| 0 <= i < views(all_commands@).len() implies views(all_commands@)[i] == (views(before) + add)[i] by {
@                    if i < before.len() { assert(all_commands@[i] == before[i]); }
@                    else { let j = i - before.len(); assert(*all_commands@[before.len() + j] == src@[j]); assert(add[j] == src@[j]@); }
@                }
@                assert(views(all_commands@) =~= views(before) + add);
@            }
        }
    }

@    let ghost pre = all_commands@;
    all_commands.extend_from_slice(commands);
@    proof { assert(all_commands@ =~= pre + commands@); assert(views(all_commands@) =~= views(pre) + views(commands@)); }
    Ok(all_commands)
}
//!end

// history lemmas over next_slot (C12): ids stay in 1..=m, and any m consecutive runs use pairwise different slots
pub open spec fn iter_slot(i: int, m: int, k: nat) -> int decreases k { if k == 0 { i } else { next_slot(iter_slot(i, m, (k - 1) as nat), m) } }
proof fn lemma_in_range(i: int, m: int, k: nat)
    requires m >= 1, k >= 1, i >= 0
    ensures 1 <= iter_slot(i, m, k) <= m
    decreases k
{ if k > 1 { lemma_in_range(i, m, (k - 1) as nat); } else { assert(iter_slot(i, m, 0) == i); assert(iter_slot(i, m, 1) == next_slot(iter_slot(i, m, 0), m)); } }
proof fn lemma_step_formula(i: int, m: int, k: nat)
    requires m >= 1, 1 <= i <= m, k < m
    ensures iter_slot(i, m, k) == (if i + k <= m { i + k } else { i + k - m })
    decreases k
{ if k > 0 { lemma_step_formula(i, m, (k - 1) as nat); } }
proof fn lemma_in_range_any(i: int, m: int, k: nat)
    requires m >= 1, 1 <= i <= m
    ensures 1 <= iter_slot(i, m, k) <= m
    decreases k
{ if k > 0 { lemma_in_range_any(i, m, (k - 1) as nat); } }
proof fn lemma_iter_add(i: int, m: int, a: nat, d: nat)
    ensures iter_slot(i, m, a + d) == iter_slot(iter_slot(i, m, a), m, d)
    decreases d
{ if d > 0 { lemma_iter_add(i, m, a, (d - 1) as nat); } }
proof fn lemma_last_m_distinct(i: int, m: int, a: nat, b: nat)
    requires m >= 1, 1 <= i <= m, a < b, b - a < m
    ensures iter_slot(i, m, a) != iter_slot(i, m, b)
{
    lemma_in_range_any(i, m, a);
    let s = iter_slot(i, m, a);
    lemma_iter_add(i, m, a, (b - a) as nat);
    lemma_step_formula(s, m, (b - a) as nat);
}

} // verus!
fn main() {}
