#![feature(allocator_api)]
#![allow(unused)]
// unit `cli`: the four mutating handlers of api/cli.rs — lock before effect (C14), exit status (C06)
use vstd::prelude::*;
verus! {
//!include prelude/std_gaps.rs
//!include prelude/keymap.rs
//!include prelude/app.rs
pub mod graph { pub use super::graph_err::GraphError; }
pub struct ArgMatches { pub x: u8 }
pub struct OutputOptions<'a> { pub format: &'a str }
#[verifier::external_body] pub fn write_result<T>(value: &Result<T, MonorailError>, opts: &OutputOptions<'_>) -> (r: Result<(), MonorailError>) { unimplemented!() }
#[verifier::external_body] pub fn env_invocation() -> String { unimplemented!() }
// R15 target: the value of an expression statement `E?;` is dropped at the end of the statement
#[verifier::external_body] pub fn drop_stmt_value<T>(v: T) { unimplemented!() }
// R21 target: a lock guard that is not bound to a named variable is dropped at the end of its statement
#[verifier::external_body] pub fn lock_dropped(Tracked(w): Tracked<&mut World>)
    ensures !final(w).lock_held, final(w).effects == old(w).effects, final(w).out_deleted == old(w).out_deleted { unimplemented!() }
pub mod core {
    use vstd::prelude::*;
    pub(crate) use super::Config;
    pub mod server {
        use vstd::prelude::*;
        use super::super::*;
        pub struct LockServer { pub x: u8 }
        impl LockServer {
            #[verifier::external_body] pub fn new(config: super::super::server::LockServerConfig) -> LockServer { unimplemented!() }
            // ASSUMED (core/server.rs + the OS): acquire binds an exclusive listening socket; Ok means this process now holds the lock
            // and holds it for as long as the returned guard lives; Err means it does not, and nothing else has happened
            #[verifier::external_body] pub async fn acquire(self, Tracked(w): Tracked<&mut World>) -> (r: Result<LockServer, super::super::server::ServerError>)
                ensures r is Ok ==> final(w).lock_held, r is Err ==> final(w).lock_held == old(w).lock_held, final(w).effects == old(w).effects, final(w).out_deleted == old(w).out_deleted { unimplemented!() }
        }
    }
}
impl From<server::ServerError> for MonorailError { #[verifier::external_body] fn from(error: server::ServerError) -> (r: Self) ensures r is Server { unimplemented!() } }
impl Clone for server::LockServerConfig { #[verifier::external_body] fn clone(&self) -> Self { unimplemented!() } }
// the application entry points that change the checkpoint, the results or the logs, or start executables.
// C14: each REQUIRES that the lock is held; each is recorded as one effect
pub mod app {
    use vstd::prelude::*;
    use super::*;
    pub mod run {
        use vstd::prelude::*;
        use super::super::*;
        pub struct HandleRunInput { pub x: u8 }
        pub struct RunOutput { pub failed: bool }
        impl HandleRunInput { #[verifier::external_body] pub fn try_from(m: &ArgMatches) -> (r: Result<HandleRunInput, MonorailError>) ensures r is Ok { unimplemented!() } }
        #[verifier::external_body] pub async fn handle_run(cfg: &Config, input: &HandleRunInput, invocation: &str, work_path: &path::Path, Tracked(w): Tracked<&mut World>) -> (r: Result<RunOutput, MonorailError>)
            requires old(w).lock_held,
            ensures final(w).lock_held == old(w).lock_held, final(w).effects == old(w).effects + 1 { unimplemented!() }
    }
    pub mod out {
        use vstd::prelude::*;
        use super::super::*;
        pub struct OutDeleteInput { pub x: u8 }
        pub struct OutDeleteOutput { pub x: u8 }
        impl OutDeleteInput { #[verifier::external_body] pub fn try_from(m: &ArgMatches) -> (r: Result<OutDeleteInput, MonorailError>) { unimplemented!() } }
        // ASSUMED (repo function app/out.rs): measures the directory and, with --all, removes everything below it.  The directory it is
        // handed is resolved by the OS against the process's working directory unless it is absolute; `out_deleted` records it as given
        #[verifier::external_body] pub fn out_delete<P: PathLike + ?Sized>(out_dir: &P, input: &OutDeleteInput, Tracked(w): Tracked<&mut World>) -> (r: Result<OutDeleteOutput, MonorailError>)
            requires old(w).lock_held,
            ensures final(w).lock_held == old(w).lock_held, final(w).effects == old(w).effects + 1, final(w).out_deleted == old(w).out_deleted.insert(out_dir.pview()) { unimplemented!() }
    }
    pub mod checkpoint {
        use vstd::prelude::*;
        use super::super::*;
        pub struct CheckpointUpdateInput { pub x: u8 }
        pub struct CheckpointOutput { pub x: u8 }
        impl CheckpointUpdateInput { #[verifier::external_body] pub fn try_from(m: &ArgMatches) -> (r: Result<CheckpointUpdateInput, MonorailError>) { unimplemented!() } }
        #[verifier::external_body] pub async fn handle_checkpoint_update(cfg: &Config, input: &CheckpointUpdateInput, work_path: &path::Path, Tracked(w): Tracked<&mut World>) -> (r: Result<CheckpointOutput, MonorailError>)
            requires old(w).lock_held,
            ensures final(w).lock_held == old(w).lock_held, final(w).effects == old(w).effects + 1 { unimplemented!() }
        #[verifier::external_body] pub async fn handle_checkpoint_delete(cfg: &Config, work_path: &path::Path, Tracked(w): Tracked<&mut World>) -> (r: Result<(), MonorailError>)
            requires old(w).lock_held,
            ensures final(w).lock_held == old(w).lock_held, final(w).effects == old(w).effects + 1 { unimplemented!() }
    }
}

//!const src/api/cli.rs HANDLE_OK
pub const HANDLE_OK: i32 = 0;
//!end
//!const src/api/cli.rs HANDLE_ERR
pub const HANDLE_ERR: i32 = 1;
//!end

//!fn src/api/cli.rs get_code props=C06
@#[inline(always)]
fn get_code(is_err: bool) -> ⟦(r: ⟧i32⟦)⟧
@    ensures r == (if is_err { 1i32 } else { 0i32 }), // [C06]
{
    if is_err {
        return HANDLE_ERR;
    }
    HANDLE_OK
}
//!end

//!fn src/api/cli.rs handle_run rules=R1,R10,R15,R21 props=C14,C06,C12
async fn handle_run<'a>(
    config: &'a core::Config,
    matches: &'a ArgMatches,
    output_options: &OutputOptions<'a>,
    work_path: &'a path::Path,
 Tracked(w): Tracked<&mut World>) -> ⟦(res: ⟧Result<i32, MonorailError>⟦)⟧
@    ensures
@        // C14: nothing is executed or modified unless the lock was acquired (and is still held when the work starts)
@        // (C12: the slot arithmetic and the order store-then-advance are stated for one run at a time; the lock is what makes runs on one
@        // repository take turns, so a run that does not hold it for its whole duration voids them)
@        final(w).effects > old(w).effects ==> final(w).lock_held, // [C14,C12]
@        final(w).effects <= old(w).effects + 1,
@        // C06: exit status 1 iff the run reports failed, else 0
@        res matches Ok(code) ==> code == 0 || code == 1, // [C06]
{
    let _guard =
        core::server::LockServer::new(config.server.lock.clone()).acquire(Tracked(w)).await?;
    let i = app::run::HandleRunInput::try_from(matches).unwrap();
    let invocation = env_invocation();
    let o = app::run::handle_run(config, &i, &invocation, work_path, Tracked(w)).await?;
    let mut code = HANDLE_OK;
@    let ghost failed = o.failed;
    if o.failed {
        code = HANDLE_ERR;
    }
@    assert(code == (if failed { 1i32 } else { 0i32 })); // [C06]
    write_result(&Ok(o), output_options)?;
    Ok(code)
}
//!end

//!fn src/api/cli.rs handle_out_delete rules=R1,R10,R15,R21 props=C14,C19
async fn handle_out_delete<'a>(
    config: &'a core::Config,
    matches: &'a ArgMatches,
    output_options: &OutputOptions<'a>,
    work_path: &'a path::Path,
 Tracked(w): Tracked<&mut World>) -> ⟦(res: ⟧Result<i32, MonorailError>⟦)⟧
@    ensures final(w).effects > old(w).effects ==> final(w).lock_held, final(w).effects <= old(w).effects + 1, // [C14]
@        // C19: the directory `out delete` measures and empties is the output directory of the configuration in use - <directory of the
@        // configuration file>/<out_dir>, where its checkpoint, run pointer and results live - wherever the command was started from
@        forall|d: Seq<char>| final(w).out_deleted.contains(d) && !old(w).out_deleted.contains(d) ==> d == path_join(work_path@, config.out_dir@), // [C19]
{
    let _guard =
        core::server::LockServer::new(config.server.lock.clone()).acquire(Tracked(w)).await?;
    let i = app::out::OutDeleteInput::try_from(matches)?;
    // like every other command, resolve the output directory against the configuration's directory, not the process's working directory
    let res = app::out::out_delete(&work_path.join(&config.out_dir), &i, Tracked(w));
    write_result(&res, output_options)?;
    Ok(get_code(res.is_err()))
}
//!end

//!fn src/api/cli.rs handle_checkpoint_update rules=R1,R10,R15,R21 props=C14
async fn handle_checkpoint_update<'a>(
    config: &'a core::Config,
    matches: &'a ArgMatches,
    output_options: &OutputOptions<'a>,
    work_path: &'a path::Path,
 Tracked(w): Tracked<&mut World>) -> ⟦(res: ⟧Result<i32, MonorailError>⟦)⟧
@    ensures final(w).effects > old(w).effects ==> final(w).lock_held, final(w).effects <= old(w).effects + 1, // [C14]
{
    let _guard =
        core::server::LockServer::new(config.server.lock.clone()).acquire(Tracked(w)).await?;
    let i = app::checkpoint::CheckpointUpdateInput::try_from(matches)?;
    let res = app::checkpoint::handle_checkpoint_update(
        config, &i, work_path,
    Tracked(w)).await;
    write_result(&res, output_options)?;
    Ok(get_code(res.is_err()))
}
//!end

//!fn src/api/cli.rs handle_checkpoint_delete rules=R1,R10,R15,R21 props=C14
async fn handle_checkpoint_delete<'a>(
    config: &'a core::Config,
    output_options: &OutputOptions<'a>,
    work_path: &'a path::Path,
 Tracked(w): Tracked<&mut World>) -> ⟦(res: ⟧Result<i32, MonorailError>⟦)⟧
@    ensures final(w).effects > old(w).effects ==> final(w).lock_held, final(w).effects <= old(w).effects + 1, // [C14]
{
    let _guard =
        core::server::LockServer::new(config.server.lock.clone()).acquire(Tracked(w)).await?;
    let res = app::checkpoint::handle_checkpoint_delete(config, work_path, Tracked(w)).await;
    write_result(&res, output_options)?;
    Ok(get_code(res.is_err()))
}
//!end
} // verus!
fn main() {}
