// Run-time finder for `out delete` (integration test in a scratch copy of the crate, drives the REAL binary; never the deciding step).
// C19: after `out delete --all` there is no checkpoint / recorded output of THE CONFIGURATION IN USE - wherever the command is started
// from - and nothing that belongs to another directory is touched.
use std::os::unix::fs::PermissionsExt;
use std::process::Command;
const BIN: &str = env!("CARGO_BIN_EXE_monorail");

fn free_port() -> u16 { std::net::TcpListener::bind("127.0.0.1:0").unwrap().local_addr().unwrap().port() }

#[test]
fn vf_out_delete_all() {
    let (mut checked, mut bad) = (0u64, 0u64);
    for (what, elsewhere, linked, absolute) in [("started in the configuration's directory", false, false, false), ("started in another directory, configuration given with -f", true, false, false),
        ("with the output directory being a symbolic link to a directory kept elsewhere (a cache volume)", false, true, false),
        ("with `out_dir` an absolute path outside the repository", false, false, true)] {
        checked += 1;
        let td = tempfile::tempdir().unwrap();
        let proj = td.path().join("proj");
        let other = td.path().join("other");
        std::fs::create_dir_all(proj.join("t1/monorail/cmd")).unwrap();
        if linked { std::fs::create_dir_all(td.path().join("volume/out")).unwrap(); std::os::unix::fs::symlink(td.path().join("volume/out"), proj.join("monorail-out")).unwrap(); }
        std::fs::create_dir_all(other.join("monorail-out/precious")).unwrap();
        std::fs::write(other.join("monorail-out/precious/file"), b"keep").unwrap();
        let script = proj.join("t1/monorail/cmd/hello.sh");
        std::fs::write(&script, "#!/bin/sh\necho hi\n").unwrap();
        let mut perm = std::fs::metadata(&script).unwrap().permissions(); perm.set_mode(0o755); std::fs::set_permissions(&script, perm).unwrap();
        let cfg = proj.join("Monorail.json");
        let (lp, kp) = (free_port(), free_port());
        let out_root = if absolute { td.path().join("volume/abs-out") } else { proj.join("monorail-out") };
        if absolute { std::fs::create_dir_all(&out_root).unwrap(); }
        std::fs::write(&cfg, format!("{{{}\"targets\":[{{\"path\":\"t1\"}}],\"server\":{{\"log\":{{\"port\":{}}},\"lock\":{{\"port\":{}}}}}}}", if absolute { format!("\"out_dir\":\"{}\",", out_root.display()) } else { String::new() }, lp, if kp == lp { kp + 1 } else { kp })).unwrap();
        let cwd = if elsewhere { &other } else { &proj };
        // a run leaves recorded output and a run pointer below <configuration directory>/monorail-out; a stand-in checkpoint file joins them
        let run = Command::new(BIN).current_dir(cwd).arg("-f").arg(&cfg).args(["run", "-c", "hello", "-t", "t1"]).output().unwrap();
        if !run.status.success() { bad += 1; println!("VF-FAIL `out delete --all` {} :: the preparing run failed (C19)", what); continue; }
        // the run's records (and the checkpoint) live below the configured output directory - the one `out delete` will be pointed at
        if !out_root.join("tracking/run.json").exists() { bad += 1; println!("VF-FAIL `out delete --all` {} :: the preparing run did not record itself below the configured output directory {:?} (C19)", what, out_root); continue; }
        let cp = out_root.join("tracking/checkpoint.json.zst");
        std::fs::write(&cp, b"stand-in").unwrap();
        let del = Command::new(BIN).current_dir(cwd).arg("-f").arg(&cfg).args(["out", "delete", "--all"]).output().unwrap();
        let left: Vec<String> = std::fs::read_dir(&out_root).map(|d| d.flatten().map(|e| e.file_name().to_string_lossy().to_string()).collect()).unwrap_or_default();
        let precious = other.join("monorail-out/precious/file").exists();
        if !del.status.success() || cp.exists() || !left.is_empty() || !precious {
            bad += 1;
            println!("VF-FAIL `out delete --all` {} :: exit ok={}, the configuration's output directory still holds {:?} (checkpoint file present: {}), the unrelated ./monorail-out of the other directory {} (C19)",
                what, del.status.success(), left, cp.exists(), if precious { "is untouched" } else { "was emptied" });
        }
    }
    println!("VF-SUMMARY test=out_delete_all checked={} nontrivial={} bad={}", checked, checked, bad);
}

// C14: while another invocation holds the lock (here: a socket bound to the lock address), each of the four mutating commands exits
// non-zero WITHOUT having executed or modified anything: no executable started, checkpoint and recorded output untouched.
#[test]
fn vf_contenders_do_nothing() {
    let td = tempfile::tempdir().unwrap();
    let proj = td.path().join("proj");
    std::fs::create_dir_all(proj.join("t1/monorail/cmd")).unwrap();
    let marker = td.path().join("started");
    let script = proj.join("t1/monorail/cmd/hello.sh");
    std::fs::write(&script, format!("#!/bin/sh\ntouch '{}'\n", marker.display())).unwrap();
    let mut perm = std::fs::metadata(&script).unwrap().permissions(); perm.set_mode(0o755); std::fs::set_permissions(&script, perm).unwrap();
    let g = |args: &[&str]| { let o = Command::new("git").current_dir(&proj).args(args).env("GIT_CONFIG_GLOBAL", "/dev/null").env("GIT_CONFIG_SYSTEM", "/dev/null").output().expect("git"); assert!(o.status.success(), "git {:?}", args); };
    std::fs::write(proj.join(".gitignore"), "monorail-out/\n").unwrap();
    g(&["init", "-q", "."]); g(&["config", "user.email", "a@b"]); g(&["config", "user.name", "n"]);
    let (lp, kp0) = (free_port(), free_port()); let kp = if kp0 == lp { kp0 + 1 } else { kp0 };
    let cfg = proj.join("Monorail.json");
    std::fs::write(&cfg, format!("{{\"targets\":[{{\"path\":\"t1\"}}],\"server\":{{\"log\":{{\"port\":{}}},\"lock\":{{\"port\":{},\"bind_timeout_ms\":300}}}}}}", lp, kp)).unwrap();
    g(&["add", "-A"]); g(&["commit", "-q", "-m", "c1"]);
    let mono = |args: &[&str]| Command::new(BIN).current_dir(&proj).arg("-f").arg(&cfg).args(args).output().unwrap();
    // state worth protecting: a checkpoint and one recorded run
    assert!(mono(&["checkpoint", "update"]).status.success(), "finder set-up: checkpoint update");
    assert!(mono(&["run", "-c", "hello", "-t", "t1"]).status.success(), "finder set-up: run");
    let _ = std::fs::remove_file(&marker);
    let snapshot = || -> Vec<(String, Vec<u8>)> { let mut v = vec![]; let mut st = vec![proj.join("monorail-out")]; while let Some(d) = st.pop() { if let Ok(rd) = std::fs::read_dir(&d) { for e in rd.flatten() { let p = e.path(); if p.is_dir() { st.push(p); } else { v.push((p.display().to_string(), std::fs::read(&p).unwrap_or_default())); } } } } v.sort(); v };
    let before = snapshot();
    let holder = std::net::TcpListener::bind(("127.0.0.1", kp)).expect("finder set-up: the lock address must be free");
    let (mut checked, mut bad) = (0u64, 0u64);
    for args in [vec!["run", "-c", "hello", "-t", "t1"], vec!["checkpoint", "update"], vec!["checkpoint", "delete"], vec!["out", "delete", "--all"]] {
        checked += 1;
        let o = mono(&args);
        let after = snapshot();
        let mut problems = vec![];
        if o.status.success() { problems.push("it exits 0".to_string()); }
        if marker.exists() { problems.push("it started the target's executable".to_string()); let _ = std::fs::remove_file(&marker); }
        if after != before { problems.push(format!("the output directory changed ({} files before, {} after)", before.len(), after.len())); }
        if !problems.is_empty() { bad += 1; println!("VF-FAIL `monorail {}` while another invocation holds the lock :: {}; a contender must exit non-zero having executed and modified nothing (C14)", args.join(" "), problems.join("; ")); break; }
    }
    drop(holder);
    println!("VF-SUMMARY test=contenders_do_nothing checked={} nontrivial={} bad={}", checked, checked, bad);
}
