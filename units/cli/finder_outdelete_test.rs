// Run-time finder for `out delete` (integration test in a scratch copy of the crate, drives the REAL binary; never the deciding step).
// C19: after `out delete --all` there is no checkpoint / recorded output of THE CONFIGURATION IN USE - wherever the command is started
// from - and nothing that belongs to another directory is touched.
use std::os::unix::fs::PermissionsExt;
use std::process::Command;
const BIN: &str = env!("CARGO_BIN_EXE_monorail");

fn free_port() -> u16 { std::net::TcpListener::bind("127.0.0.1:0").unwrap().local_addr().unwrap().port() }

#[test]
fn vf_out_delete_all() {
    let (mut checked, mut bad) = (0u64, 0u64);
    for (what, elsewhere, linked) in [("started in the configuration's directory", false, false), ("started in another directory, configuration given with -f", true, false),
        ("with the output directory being a symbolic link to a directory kept elsewhere (a cache volume)", false, true)] {
        checked += 1;
        let td = tempfile::tempdir().unwrap();
        let proj = td.path().join("proj");
        let other = td.path().join("other");
        std::fs::create_dir_all(proj.join("t1/monorail/cmd")).unwrap();
        if linked { std::fs::create_dir_all(td.path().join("volume/out")).unwrap(); std::os::unix::fs::symlink(td.path().join("volume/out"), proj.join("monorail-out")).unwrap(); }
        std::fs::create_dir_all(other.join("monorail-out/precious")).unwrap();
        std::fs::write(other.join("monorail-out/precious/file"), b"keep").unwrap();
        let script = proj.join("t1/monorail/cmd/hello.sh");
        std::fs::write(&script, "#!/bin/sh\necho hi\n").unwrap();
        let mut perm = std::fs::metadata(&script).unwrap().permissions(); perm.set_mode(0o755); std::fs::set_permissions(&script, perm).unwrap();
        let cfg = proj.join("Monorail.json");
        let (lp, kp) = (free_port(), free_port());
        std::fs::write(&cfg, format!("{{\"targets\":[{{\"path\":\"t1\"}}],\"server\":{{\"log\":{{\"port\":{}}},\"lock\":{{\"port\":{}}}}}}}", lp, if kp == lp { kp + 1 } else { kp })).unwrap();
        let cwd = if elsewhere { &other } else { &proj };
        // a run leaves recorded output and a run pointer below <configuration directory>/monorail-out; a stand-in checkpoint file joins them
        let run = Command::new(BIN).current_dir(cwd).arg("-f").arg(&cfg).args(["run", "-c", "hello", "-t", "t1"]).output().unwrap();
        if !run.status.success() { bad += 1; println!("VF-FAIL `out delete --all` {} :: the preparing run failed (C19)", what); continue; }
        let cp = proj.join("monorail-out/tracking/checkpoint.json.zst");
        std::fs::write(&cp, b"stand-in").unwrap();
        let del = Command::new(BIN).current_dir(cwd).arg("-f").arg(&cfg).args(["out", "delete", "--all"]).output().unwrap();
        let left: Vec<String> = std::fs::read_dir(proj.join("monorail-out")).map(|d| d.flatten().map(|e| e.file_name().to_string_lossy().to_string()).collect()).unwrap_or_default();
        let precious = other.join("monorail-out/precious/file").exists();
        if !del.status.success() || cp.exists() || !left.is_empty() || !precious {
            bad += 1;
            println!("VF-FAIL `out delete --all` {} :: exit ok={}, the configuration's output directory still holds {:?} (checkpoint file present: {}), the unrelated ./monorail-out of the other directory {} (C19)",
                what, del.status.success(), left, cp.exists(), if precious { "is untouched" } else { "was emptied" });
        }
    }
    println!("VF-SUMMARY test=out_delete_all checked={} nontrivial={} bad={}", checked, checked, bad);
}
