// Run-time finder for setup_run_path (child module of app::run in a scratch copy of the crate; never the deciding step).
// Executable form of its contract: afterwards the slot directory is empty (C12) and NOTHING outside it has changed (C13) - whatever
// the other slots are, whatever max_retained_runs is now or was before.
use super::*;

fn vf_tree(root: &std::path::Path) -> Vec<(String, Vec<u8>)> {
    let mut out = vec![]; let mut stack = vec![root.to_path_buf()];
    while let Some(d) = stack.pop() { if let Ok(rd) = std::fs::read_dir(&d) { for e in rd.flatten() { let p = e.path(); if p.is_dir() { out.push((p.strip_prefix(root).unwrap().display().to_string() + "/", vec![])); stack.push(p); } else { out.push((p.strip_prefix(root).unwrap().display().to_string(), std::fs::read(&p).unwrap_or_default())); } } } }
    out.sort(); out
}

#[test]
fn vf_setup_run_path_touches_only_its_slot() {
    let (mut checked, mut bad) = (0u64, 0u64);
    for max in [1usize, 2, 3, 10] { for new_id in [1usize, 2, 3] { for existing in [vec![], vec![1usize], vec![1, 2, 3], vec![1, 3, 4, 7, 12]] {
        checked += 1;
        let td = crate::core::testing::new_testdir().unwrap();
        let wp = td.path();
        let cfg: core::Config = serde_json::from_str(&format!("{{\"max_retained_runs\":{},\"targets\":[]}}", max)).unwrap();
        let runs = cfg.get_run_path(wp);
        for id in &existing { let d = runs.join(format!("{}/cmd/hash", id)); std::fs::create_dir_all(&d).unwrap(); std::fs::write(d.join("stdout.zst"), format!("log of run {}", id)).unwrap(); std::fs::write(runs.join(format!("{}/result.json.zst", id)), format!("result {}", id)).unwrap(); }
        let tr = cfg.get_tracking_path(wp); std::fs::create_dir_all(&tr).unwrap(); std::fs::write(tr.join("run.json"), b"{\"id\":3}").unwrap(); std::fs::write(tr.join("checkpoint.json.zst"), b"cp").unwrap();
        let before: Vec<_> = vf_tree(wp).into_iter().filter(|(p, _)| !p.starts_with(&format!("monorail-out/run/{}/", new_id))).collect();
        let r = setup_run_path(&cfg, new_id, wp);
        let after_all = vf_tree(wp);
        let inside: Vec<_> = after_all.iter().filter(|(p, _)| p.starts_with(&format!("monorail-out/run/{}/", new_id)) && *p != format!("monorail-out/run/{}/", new_id)).collect();
        let after: Vec<_> = after_all.iter().filter(|(p, _)| !p.starts_with(&format!("monorail-out/run/{}/", new_id))).cloned().collect();
        let what = format!("setup_run_path(slot {}) with max_retained_runs={} and existing slots {:?}", new_id, max, existing);
        if r.is_err() { bad += 1; println!("VF-FAIL {} :: failed: {:?} (C12) (C08)", what, r.err().map(|e| e.to_string())); continue; }
        if !inside.is_empty() { bad += 1; println!("VF-FAIL {} :: the slot still holds {:?} of the older run (C12) (C08)", what, inside.iter().map(|x| &x.0).collect::<Vec<_>>()); }
        let gone: Vec<&String> = before.iter().filter(|x| !after.contains(x)).map(|x| &x.0).collect();
        let added: Vec<&String> = after.iter().filter(|x| !before.contains(x) && !x.0.ends_with('/')).map(|x| &x.0).collect();
        if !gone.is_empty() || !added.is_empty() { bad += 1; println!("VF-FAIL {} :: outside the slot, {:?} changed or disappeared (other runs' records, the pointer and the checkpoint must stay) (C13)", what, gone.iter().take(4).collect::<Vec<_>>()); }
    } } }
    println!("VF-SUMMARY test=setup_run_path_touches_only_its_slot checked={} nontrivial={} bad={}", checked, checked, bad);
}
