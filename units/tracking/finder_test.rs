// Run-time finder for unit `tracking` (child module of core::tracking in a scratch copy; never the deciding step).
// The states a killed `run` may leave behind are set up on disk; in every one of them the pointer must stay readable as the
// old record (or absent) and the next save must succeed and be read back.
use super::*;

#[test]
fn vf_run_save_after_crash_states() {
    let (mut checked, mut bad) = (0u64, 0u64);
    // (description, content of run.json or None, content of run.json.tmp or None)
    let states: Vec<(&str, Option<&[u8]>, Option<&[u8]>)> = vec![
        ("clean, no pointer yet", None, None),
        ("clean, pointer of run 3", Some(b"{\"id\":3}"), None),
        ("killed after the temporary file was created, before any byte was written", Some(b"{\"id\":3}"), Some(b"")),
        ("killed in the middle of writing the temporary file", Some(b"{\"id\":3}"), Some(b"{\"id")),
        ("killed after writing the temporary file, before the rename", Some(b"{\"id\":3}"), Some(b"{\"id\":4}")),
        ("first run ever killed before the rename", None, Some(b"{\"id\":1}")),
    ];
    for (what, ptr, tmp) in states {
        checked += 1;
        let td = crate::core::testing::new_testdir().unwrap();
        let table = Table::new(&td.path().join("tracking")).unwrap();
        let p = td.path().join("tracking").join("run.json");
        let t = td.path().join("tracking").join("run.json.tmp");
        if let Some(c) = ptr { std::fs::write(&p, c).unwrap(); }
        if let Some(c) = tmp { std::fs::write(&t, c).unwrap(); }
        // 1. the recorded run is still what a reader sees
        let seen = table.open_run();
        let ok_read = match (&seen, ptr) { (Ok(r), Some(_)) => r.id == 3, (Err(MonorailError::TrackingRunNotFound(_)), None) => true, _ => false };
        // 2. the next run can record itself and is read back
        let mut run = match seen { Ok(r) => r, Err(_) => table.new_run() };
        run.id += 1;
        let want = run.id;
        let saved = run.save();
        let back = table.open_run();
        let ok_next = saved.is_ok() && matches!(&back, Ok(r) if r.id == want);
        if !(ok_read && ok_next) {
            bad += 1;
            println!("VF-FAIL state: {} :: reader saw the recorded run: {}; next save: {:?}; read back: {:?}; a crash must leave the last record intact and the next run must succeed (C13)", what, ok_read, saved.as_ref().map_err(|e| e.to_string()), back.as_ref().map(|r| r.id).map_err(|e| e.to_string()));
        }
    }
    println!("VF-SUMMARY test=run_save_after_crash_states checked={} nontrivial={} bad={}", checked, checked - 2, bad);
}
