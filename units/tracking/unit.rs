#![feature(allocator_api)]
#![allow(unused)]
// unit `tracking`: core/tracking.rs — the run pointer under the crash invariant (C13; pointer content for C12)
use vstd::prelude::*;
verus! {
//!include prelude/std_gaps.rs
//!include prelude/keymap.rs
//!include prelude/app.rs
pub mod graph { pub use super::graph_err::GraphError; }

//!type src/core/tracking.rs Run
pub struct Run {
    pub path: path::PathBuf,
    pub id: usize,
}
//!end

#[verifier::external_body] pub fn run_not_found(e: std::io::Error) -> (r: MonorailError) ensures r is TrackingRunNotFound { unimplemented!() }
impl Run {
//!fn src/core/tracking.rs Run::open rules=R10,R12,R17 props=C13,C12
    pub(crate) fn open(file_path: &path::Path, Tracked(w): Tracked<&mut World>) -> ⟦(res: ⟧Result<Self, MonorailError>⟦)⟧
@        ensures
@            // C13: consulting the run pointer (`result show`, `log show`, the next `run`) changes nothing on disk - in particular it
@            // never publishes or repairs anything a killed run left behind
@            final(w).fs =~= old(w).fs, // [C13]
@            // C12: what the readers get is what the pointer file denotes
@            res matches Ok(r) ==> old(w).fs.dom().contains(file_path@) && r.path@ == file_path@
@                && json_parse::<Run>(old(w).fs[file_path@]) is Some && r.id == json_parse::<Run>(old(w).fs[file_path@])->Some_0.id, // [C12]
@            // no file: "no run yet" (TrackingRunNotFound), which the callers treat as such
@            (!old(w).fs.dom().contains(file_path@) && final(w).io_faults == old(w).io_faults) ==> res matches Err(MonorailError::TrackingRunNotFound(_)), // [C12]
    {
        let mut file = fs::OpenOptions::new()
            .read(true)
            .open(file_path, Tracked(w))
            .map_err(run_not_found)?;
        let mut data = vec![];
        file.read_to_end(&mut data, Tracked(w))?;
        let mut cp: Run = serde_json::from_slice(&data)?;
        cp.path = file_path.to_path_buf();
        Ok(cp)
    }
//!end
//!fn src/core/tracking.rs Run::save rules=R10,R17 props=C13,C12
    pub(crate) fn save(&mut self, Tracked(w): Tracked<&mut World>) -> ⟦(res: ⟧Result<(), MonorailError>⟦)⟧
@        requires
@            // the pointer file is this record's path; what may be committed is the encoding of this record
@            old(self).path@ == old(w).ptr, old(w).ptr_new == json_enc(*old(self)),
@            // C13: the on-disk pointer is recoverable before ... (every fs effect below also requires it: each is a crash point)
@            recoverable(*old(w)),
@        ensures
@            // ... and after the last effect
@            recoverable(*final(w)), // [C13]
@            // C12: on success the pointer holds the encoding of this record
@            res is Ok ==> final(w).fs.dom().contains(final(w).ptr) && final(w).fs[final(w).ptr] == json_enc(*old(self)), // [C12]
@            // C13 "the next run succeeds normally": whatever a crashed predecessor left behind (e.g. a stale temporary file),
@            // saving fails only for environmental I/O faults
@            res is Err ==> final(w).io_faults > old(w).io_faults, // [C13]
@            *final(self) == *old(self), final(w).ptr == old(w).ptr, final(w).last == old(w).last,
    {
        let tmp_path = self.path.with_extension("json.tmp");
        let mut file = fs::OpenOptions::new()
            .write(true)
            .truncate(true)
            .create(true)
            .open(&tmp_path, Tracked(w))?;

        let data = serde_json::to_vec(self)?;
        file.write_all(&data, Tracked(w))?;
        drop(file);
        fs::rename(&tmp_path, &self.path, Tracked(w))?;
        Ok(())
    }
//!end
}

//!type src/core/tracking.rs Checkpoint
pub struct Checkpoint {
    pub path: path::PathBuf,
    pub id: String,
    pub pending: Option<HashMap<String, String>>,
}
//!end
#[verifier::external_body] pub fn cp_not_found(e: std::io::Error) -> (r: MonorailError) ensures r is TrackingCheckpointNotFound { unimplemented!() }
impl Checkpoint {
//!fn src/core/tracking.rs Checkpoint::open rules=R10,R12,R17 props=C19
    pub(crate) fn open(file_path: &path::Path, Tracked(w): Tracked<&mut World>) -> ⟦(res: ⟧Result<Self, MonorailError>⟦)⟧
@        requires recoverable(*old(w)),
@        ensures
@            final(w).fs == old(w).fs, recoverable(*final(w)),
@            // C19: what `show` (and every command that consults the checkpoint) gets is what the checkpoint file denotes: the record decoded from
@            // the WHOLE zstd stream in the file - whatever its size or compression ratio - with the path it was opened from
@            res matches Ok(cp) ==> old(w).fs.dom().contains(file_path@) && cp.path@ == file_path@
@                && json_parse::<Checkpoint>(zstd_dec(old(w).fs[file_path@])) is Some
@                && cp.id == json_parse::<Checkpoint>(zstd_dec(old(w).fs[file_path@]))->Some_0.id && cp.pending == json_parse::<Checkpoint>(zstd_dec(old(w).fs[file_path@]))->Some_0.pending, // [C19]
@            // no file: "no checkpoint" (TrackingCheckpointNotFound), which the callers treat as such
@            (!old(w).fs.dom().contains(file_path@) && final(w).io_faults == old(w).io_faults) ==> res matches Err(MonorailError::TrackingCheckpointNotFound(_)), // [C19]
    {
        let file = fs::OpenOptions::new()
            .read(true)
            .open(file_path, Tracked(w))
            .map_err(cp_not_found)?;
        let br = iox::BufReader::new(file);
        let mut decoder = zstd::stream::read::Decoder::new(br)?;
        let mut cp: Checkpoint = from_reader_dec(&mut decoder)?;
        cp.path = file_path.to_path_buf();
        Ok(cp)
    }
//!end
//!fn src/core/tracking.rs Checkpoint::save rules=R10,R12,R17 props=C19
    pub(crate) fn save(&mut self, Tracked(w): Tracked<&mut World>) -> ⟦(res: ⟧Result<(), MonorailError>⟦)⟧
@        requires
@            recoverable(*old(w)), old(self).path@ != old(w).ptr,
@        ensures
@            // C19: after a successful save the checkpoint file holds exactly the encoding of THIS checkpoint - whatever it held before
@            // (in particular a longer, older checkpoint leaves no bytes behind it) - so the next `show` decodes what this update stored
@            res is Ok ==> final(w).fs.dom().contains(old(self).path@) && final(w).fs[old(self).path@] == zstd_frame(json_enc(*old(self))), // [C19]
@            // nothing else on disk is touched (the run pointer stays recoverable)
@            forall|q: Seq<char>| q != old(self).path@ ==> (final(w).fs.dom().contains(q) == old(w).fs.dom().contains(q) && final(w).fs[q] == old(w).fs[q]),
@            recoverable(*final(w)), *final(self) == *old(self),
    {
        let file = fs::OpenOptions::new()
            .write(true)
            .truncate(true)
            .create(true)
            .open(&self.path, Tracked(w))?;
        let bw = iow::BufWriter::new(file);
        let mut encoder = zstdw::Encoder::new(bw, 3)?;
        to_writer_enc(&mut encoder, self)?;
        encoder.finish(Tracked(w))?;
        Ok(())
    }
//!end
}

pub mod core { pub(crate) use super::Config; }
pub mod result {
//!const src/app/result.rs RESULT_OUTPUT_FILE_NAME
pub const RESULT_OUTPUT_FILE_NAME: &⟦'static ⟧str = "result.json.zst";
//!end
}
impl Config {
//!assumed src/core/mod.rs Config::get_run_path sha=ba8d945321eb263f
    // ASSUMED (repo function core/mod.rs): <work_path>/<out_dir>/run
    #[verifier::external_body] pub fn get_run_path(&self, work_path: &path::Path) -> (r: path::PathBuf) { unimplemented!() }
}
//!fn src/app/run.rs setup_run_path rules=R1,R10,R16,R17 props=C12,C13,C08
fn setup_run_path(
    cfg: &core::Config,
    run_id: usize,
    work_path: &path::Path,
 Tracked(w): Tracked<&mut World>) -> ⟦(res: ⟧Result<path::PathBuf, MonorailError>⟦)⟧
@    ensures
@        // C12: nothing of an older run that used the same slot is left over (barring environmental I/O faults) ...
@        res matches Ok(p) ==> (final(w).io_faults == old(w).io_faults ==> forall|q: Seq<char>| #![trigger fs::under(p@, q)] fs::under(p@, q) ==> !final(w).fs.dom().contains(q)), // [C12,C08]
@        // ... C13: and nothing outside the slot directory is touched (the recorded run, the pointer, the checkpoint)
@        res matches Ok(p) ==> forall|q: Seq<char>| #![trigger fs::under(p@, q)] !fs::under(p@, q) ==> (final(w).fs.dom().contains(q) == old(w).fs.dom().contains(q) && final(w).fs[q] == old(w).fs[q]), // [C13]
{
    let run_path = cfg.get_run_path(work_path).join(fmt_opaque());
    // remove the run_path path if it exists, and create a new one
@    assert(run_path.pview() == run_path@);
    fs::remove_dir_all(&run_path, Tracked(w)).unwrap_or(());
    fs::create_dir_all(&run_path, Tracked(w))?;
    Ok(run_path)
}
//!end

// ---- store_run_output: the result document of a run ----
// the document type is of no interest here (serde_json::to_writer is generic in it)
pub struct RunOutput { pub x: u8 }
#[verifier::external_body] pub fn io_to_generic(e: std::io::Error) -> (r: MonorailError) ensures r is Generic { unimplemented!() }
//!fn src/app/run.rs store_run_output rules=R10,R12,R17 props=C12,C13
fn store_run_output(run_output: &RunOutput, run_path: &path::Path, Tracked(w): Tracked<&mut World>) -> ⟦(res: ⟧Result<(), MonorailError>⟦)⟧
@    requires
@        // the slot's result file is not the run pointer (different directories of the output tree)
@        recoverable(*old(w)), path_join(run_path@, result::RESULT_OUTPUT_FILE_NAME@) != old(w).ptr,
@    ensures
@        // C12: after a successful store the slot's result file holds exactly the encoding of THIS run's output - whatever the slot
@        // held before - so `result show` of this slot decodes the run that was just executed
@        res is Ok ==> final(w).fs.dom().contains(path_join(run_path@, result::RESULT_OUTPUT_FILE_NAME@))
@            && final(w).fs[path_join(run_path@, result::RESULT_OUTPUT_FILE_NAME@)] == zstd_frame(json_enc(*run_output)), // [C12]
@        // nothing else on disk is touched (the run pointer stays recoverable: it still names the previous run until Run::save)
@        forall|q: Seq<char>| q != path_join(run_path@, result::RESULT_OUTPUT_FILE_NAME@) ==> (final(w).fs.dom().contains(q) == old(w).fs.dom().contains(q) && final(w).fs[q] == old(w).fs[q]), // [C13]
@        recoverable(*final(w)), // [C12,C13]
{
    let run_result_file = fs::OpenOptions::new()
        .create(true)
        .write(true)
        .truncate(true)
        .open(run_path.join(result::RESULT_OUTPUT_FILE_NAME), Tracked(w))
        .map_err(io_to_generic)?;
    let bw = iow::BufWriter::new(run_result_file);
    let mut encoder = zstdw::Encoder::new(bw, 3)?;
    to_writer_enc(&mut encoder, run_output)?;
    encoder.finish(Tracked(w))?;
    Ok(())
}
//!end

// ---- Logs::new: where a task's two archives live ----
pub mod log {
//!const src/app/log.rs STDOUT_FILE
    pub const STDOUT_FILE: &⟦'static ⟧str = "stdout.zst";
//!end
//!const src/app/log.rs STDERR_FILE
    pub const STDERR_FILE: &⟦'static ⟧str = "stderr.zst";
//!end
}
//!type src/app/run.rs Logs
pub struct Logs {
    pub stdout_path: path::PathBuf,
    pub stderr_path: path::PathBuf,
}
//!end
impl Logs {
//!fn src/app/run.rs Logs::new rules=R10,R17 props=C08,C12
    fn new(run_path: &path::Path, command: &str, target_hash: &str, Tracked(w): Tracked<&mut World>) -> ⟦(res: ⟧Result<Self, MonorailError>⟦)⟧
@        ensures
@            // C08 / C12: a task's archives are <slot>/<command>/<target hash>/stdout.zst and stderr.zst - the layout `log show` walks -
@            // and naming them touches no file
@            res matches Ok(l) ==> l.stdout_path@ == path_join(path_join(path_join(run_path@, command@), target_hash@), log::STDOUT_FILE@)
@                && l.stderr_path@ == path_join(path_join(path_join(run_path@, command@), target_hash@), log::STDERR_FILE@), // [C08,C12]
@            final(w).fs == old(w).fs,
    {
        let dir_path = run_path.join(command).join(target_hash);
        fs::create_dir_all(&dir_path, Tracked(w))?;
        Ok(Self {
            stdout_path: dir_path.clone().join(log::STDOUT_FILE),
            stderr_path: dir_path.clone().join(log::STDERR_FILE),
        })
    }
//!end
}

// ---- Table::new: every command that consults the records starts here ----
//!type src/core/tracking.rs Table
pub struct Table {
    pub run_path: path::PathBuf,
    pub checkpoint_path: path::PathBuf,
}
//!end
impl<'a> Table {
//!fn src/core/tracking.rs Table::new rules=R10,R17 props=C13,C12
    pub(crate) fn new(dir_path: &'a path::Path, Tracked(w): Tracked<&mut World>) -> ⟦(res: ⟧Result<Self, MonorailError>⟦)⟧
@        ensures
@            // C13: preparing the table (every `run`, `result show`, `log show`, `checkpoint ..` does it first) makes sure the directory exists
@            // and changes no file - whatever a killed run left behind stays as it is
@            final(w).fs =~= old(w).fs, // [C13]
@            // C12 / C19: the records are <dir>/run.json and <dir>/checkpoint.json.zst
@            res matches Ok(t) ==> t.run_path@ == path_join(dir_path@, "run.json"@) && t.checkpoint_path@ == path_join(dir_path@, "checkpoint.json.zst"@), // [C12]
    {
        fs::create_dir_all(dir_path, Tracked(w))?;
        Ok(Self {
            run_path: dir_path.join("run.json"),
            checkpoint_path: dir_path.join("checkpoint.json.zst"),
        })
    }
//!end
//!fn src/core/tracking.rs Table::open_run rules=R10 props=C13,C12
    pub(crate) fn open_run(&'a self, Tracked(w): Tracked<&mut World>) -> ⟦(res: ⟧Result<Run, MonorailError>⟦)⟧
@        ensures
@            // C13 / C12: reading the pointer is Run::open of <dir>/run.json and nothing else: no file changes
@            final(w).fs =~= old(w).fs, // [C13]
@            res matches Ok(r) ==> old(w).fs.dom().contains(self.run_path@) && json_parse::<Run>(old(w).fs[self.run_path@]) is Some && r.id == json_parse::<Run>(old(w).fs[self.run_path@])->Some_0.id, // [C12]
    {
        Run::open(&self.run_path, Tracked(w))
    }
//!end
//!fn src/core/tracking.rs Table::open_checkpoint rules=R10 props=C19,C13
    pub(crate) fn open_checkpoint(&'a self, Tracked(w): Tracked<&mut World>) -> ⟦(res: ⟧Result<Checkpoint, MonorailError>⟦)⟧
@        requires recoverable(*old(w)),
@        ensures final(w).fs == old(w).fs, // [C13,C19]
    {
        Checkpoint::open(&self.checkpoint_path, Tracked(w))
    }
//!end
}
} // verus!
fn main() {}