#![feature(allocator_api)]
#![allow(unused)]
// unit `tracking`: core/tracking.rs — the run pointer under the crash invariant (C13; pointer content for C12)
use vstd::prelude::*;
verus! {
//!include prelude/std_gaps.rs
//!include prelude/keymap.rs
//!include prelude/app.rs
pub mod graph { pub use super::graph_err::GraphError; }

//!type src/core/tracking.rs Run
pub struct Run {
    pub path: path::PathBuf,
    pub id: usize,
}
//!end

impl Run {
//!fn src/core/tracking.rs Run::save rules=R10,R17 props=C13,C12
    pub(crate) fn save(&mut self, Tracked(w): Tracked<&mut World>) -> ⟦(res: ⟧Result<(), MonorailError>⟦)⟧
@        requires
@            // the pointer file is this record's path; what may be committed is the encoding of this record
@            old(self).path@ == old(w).ptr, old(w).ptr_new == json_enc(*old(self)),
@            // C13: the on-disk pointer is recoverable before ... (every fs effect below also requires it: each is a crash point)
@            recoverable(*old(w)),
@        ensures
@            // ... and after the last effect
@            recoverable(*final(w)), // [C13]
@            // C12: on success the pointer holds the encoding of this record
@            res is Ok ==> final(w).fs.dom().contains(final(w).ptr) && final(w).fs[final(w).ptr] == json_enc(*old(self)), // [C12]
@            // C13 "the next run succeeds normally": whatever a crashed predecessor left behind (e.g. a stale temporary file),
@            // saving fails only for environmental I/O faults
@            res is Err ==> final(w).io_faults > old(w).io_faults, // [C13]
@            *final(self) == *old(self), final(w).ptr == old(w).ptr, final(w).last == old(w).last,
    {
        let tmp_path = self.path.with_extension("json.tmp");
        let mut file = fs::OpenOptions::new()
            .write(true)
            .truncate(true)
            .create(true)
            .open(&tmp_path, Tracked(w))?;

        let data = serde_json::to_vec(self)?;
        file.write_all(&data, Tracked(w))?;
        drop(file);
        fs::rename(&tmp_path, &self.path, Tracked(w))?;
        Ok(())
    }
//!end
}
} // verus!
fn main() {}
