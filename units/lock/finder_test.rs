// Run-time finder for unit `lock` (child module of core::server in a scratch copy of the crate; never the deciding step).
use super::*;

fn vf_cfg(port: u16, timeout_ms: u64) -> LockServerConfig {
    let mut c = LockServerConfig::default();
    c.port = port as usize as _;
    c.bind_timeout_ms = timeout_ms;
    c
}

#[test]
fn vf_lock_acquire() {
    // C14: an invocation that tries to acquire the lock WHILE another holds it fails with a lock error - also when the holder goes
    // away shortly afterwards (one attempt; the contender is not admitted later) - and an invocation that finds the address free gets it
    let rt = tokio::runtime::Builder::new_multi_thread().enable_all().build().unwrap();
    let (mut checked, mut bad) = (0u64, 0u64);
    for (hold_ms, timeout_ms) in [(20u64, 1000u64), (120, 1000), (300, 1000), (60, 200), (5000, 150)] {
        checked += 1;
        let held = std::net::TcpListener::bind("127.0.0.1:0").unwrap();
        let port = held.local_addr().unwrap().port();
        let releaser = std::thread::spawn(move || { std::thread::sleep(std::time::Duration::from_millis(hold_ms.min(700))); drop(held); });
        let t0 = std::time::Instant::now();
        let r = rt.block_on(LockServer::new(vf_cfg(port, timeout_ms)).acquire());
        let dt = t0.elapsed().as_millis();
        if r.is_ok() {
            bad += 1;
            println!("VF-FAIL lock address held by another process for {} ms, contender with bind timeout {} ms :: acquire() returned Ok after {} ms: the contender was admitted although the lock was held when it tried (C14)", hold_ms, timeout_ms, dt);
        }
        drop(r);
        releaser.join().unwrap();
        // the address is free now: acquiring succeeds, and a second acquire while the first guard lives fails
        checked += 1;
        let g = rt.block_on(LockServer::new(vf_cfg(port, timeout_ms)).acquire());
        match g {
            Err(e) => { bad += 1; println!("VF-FAIL lock address free (port {}) :: acquire() failed: {} (C14)", port, e); }
            Ok(guard) => {
                let second = rt.block_on(LockServer::new(vf_cfg(port, timeout_ms)).acquire());
                if second.is_ok() { bad += 1; println!("VF-FAIL two acquires of the same lock address, the first guard still alive :: the second acquire() returned Ok (C14)"); }
                drop(guard);
            }
        }
    }
    println!("VF-SUMMARY test=lock_acquire checked={} nontrivial={} bad={}", checked, checked, bad);
}

#[test]
fn vf_lock_address_defaults() {
    // C14: all mutating invocations of one configuration must contend for the SAME address: a `lock` object that leaves fields out gets
    // the fixed defaults - in particular never port 0, which would give every invocation a port of its own
    let (mut checked, mut bad) = (0u64, 0u64);
    let d = LockServerConfig::default();
    for text in ["{}", "{\"bind_timeout_ms\":500}", "{\"host\":\"127.0.0.1\"}", "{\"host\":\"127.0.0.1\",\"bind_timeout_ms\":250}"] {
        checked += 1;
        match serde_json::from_str::<LockServerConfig>(text) {
            Ok(c) => { if c.port != d.port || c.port == 0 || (!text.contains("host") && c.host != d.host) {
                bad += 1; println!("VF-FAIL lock configuration `{}` :: resolves to {}:{}, the documented default address is {}:{} (two invocations would not share one lock address) (C14) (C12)", text, c.host, c.port, d.host, d.port); } }
            Err(e) => { bad += 1; println!("VF-FAIL lock configuration `{}` :: rejected: {} (C14)", text, e); }
        }
    }
    // the whole configuration, as a user customising only the log port has to write it
    checked += 1;
    let cfg: Result<crate::core::Config, _> = serde_json::from_str("{\"targets\":[],\"server\":{\"log\":{\"port\":6000},\"lock\":{}}}");
    match cfg { Ok(c) => if c.server.lock.port != d.port { bad += 1; println!("VF-FAIL configuration with `\"lock\": {{}}` :: lock port {} instead of the default {} (C14)", c.server.lock.port, d.port); }, Err(e) => { bad += 1; println!("VF-FAIL configuration with `\"lock\": {{}}` :: rejected: {} (C14)", e); } }
    // a port number that does not fit 16 bits names no address: no two invocations may both get past acquisition with it (on the pinned
    // tree every acquire fails; wrapping it to port 0 - an ephemeral port per invocation - would admit them all)
    let rt = tokio::runtime::Builder::new_multi_thread().enable_all().build().unwrap();
    for port in [65536usize, 131072, 65536 * 3] {
        checked += 1;
        let text = format!("{{\"port\":{},\"bind_timeout_ms\":300}}", port);
        if let Ok(c) = serde_json::from_str::<LockServerConfig>(&text) {
            let c2: LockServerConfig = serde_json::from_str(&text).unwrap();
            let a = rt.block_on(LockServer::new(c).acquire());
            let b = rt.block_on(LockServer::new(c2).acquire());
            if a.is_ok() && b.is_ok() { bad += 1; println!("VF-FAIL two invocations configured with lock `{}` :: both are past lock acquisition at the same time (C14)", text); }
        }
    }
    println!("VF-SUMMARY test=lock_address_defaults checked={} nontrivial={} bad={}", checked, checked, bad);
}
