#![feature(allocator_api)]
#![allow(unused)]
// unit `lock`: core/server.rs — LockServer::acquire (C14)
use vstd::prelude::*;
verus! {
//!include prelude/std_gaps.rs
//!include prelude/keymap.rs
//!include prelude/app.rs
pub mod graph { pub use super::graph_err::GraphError; }
use server::LockServerConfig;
pub enum ServerError { Lock(std::io::Error), BindTimeout(tokio::time::Elapsed), Other }
//!type src/core/server.rs LockServer
pub struct LockServer {
    pub config: LockServerConfig,
    pub address: String,
    pub bind_timeout: std::time::Duration,
    pub listener: Option<tokio::net::TcpListener>,
}
//!end
// the text of an address (format!("{}:{}")): a function of the host and the port NUMBER as configured
pub uninterp spec fn addr_text(host: Seq<char>, port: int) -> Seq<char>;
#[verifier::external_body] pub fn host_port(host: &String, port: usize) -> (r: String) ensures r@ == addr_text(host@, port as int) { unimplemented!() }
#[verifier::external_body] pub fn duration_from_millis(ms: u64) -> std::time::Duration { unimplemented!() }
impl LockServer {
//!fn src/core/server.rs LockServer::new rules=R12 props=C14
    pub(crate) fn new(config: LockServerConfig) -> ⟦(r: ⟧Self⟦)⟧
@        ensures
@            // C14: the address every invocation contends for is the configured host and port, as written - two invocations of one
@            // configuration always name the same address - and nothing is held yet
@            r.address@ == addr_text(config.host@, config.port as int), r.listener is None, // [C14]
    {
        let address = host_port(&config.host, config.port);
        let bind_timeout = duration_from_millis(config.bind_timeout_ms);
        Self {
            config,
            address,
            bind_timeout,
            listener: None,
        }
    }
//!end
//!fn src/core/server.rs LockServer::acquire rules=R1,R7,R10 props=C14
    pub(crate) async fn acquire(self__0: Self, Tracked(w): Tracked<&mut World>) -> ⟦(res: ⟧Result<Self, ServerError>⟦)⟧
@        ensures
@            // C14: one attempt, no waiting for a holder to go away: an invocation that tries to acquire while another holds the
@            // lock fails with a lock error
@            final(w).bind_attempts == old(w).bind_attempts + 1, // [C14]
@            old(w).addr_in_use ==> res is Err, // [C14]
@            res is Ok ==> final(w).lock_held && res->Ok_0.listener is Some, // [C14]
@            res is Err ==> final(w).lock_held == old(w).lock_held,
@            final(w).effects == old(w).effects,
    { let mut self_ = self__0;
        let timeout_res = tokio::time::timeout_bind(self_.bind_timeout, &self_.address, Tracked(w))
        .await;
        match timeout_res {
            Ok(Ok(listener)) => {
                self_.listener = Some(listener);
                Ok(self_)
            }
            Ok(Err(e)) => {
                Err(ServerError::Lock(e))
            }
            Err(e) => Err(ServerError::BindTimeout(e)),
        }
    }
//!end
}
} // verus!
fn main() {}
