#![feature(allocator_api)]
#![allow(unused)]
// unit `compress`: app/log.rs Compressor — registration (routing keys) and the body of a compressor thread (C08)
use vstd::prelude::*;
verus! {
//!include prelude/std_gaps.rs
//!include prelude/keymap.rs
//!include prelude/app.rs
pub mod graph { pub use super::graph_err::GraphError; }
use tokio::sync::mpsc;
#[verifier::external_body] pub fn io_to_generic(e: std::io::Error) -> (r: MonorailError) ensures r is Generic { unimplemented!() }

//!type src/app/log.rs CompressRequest
pub enum CompressRequest {
    Data(usize, sync::Arc<Vec<Vec<u8>>>),
    End(usize),
    Shutdown,
}
//!end

// ---- C08: what the messages of one channel mean for encoder i ----
pub open spec fn msg_ok(m: CompressRequest, n: int) -> bool {
    match m { CompressRequest::Data(i, _) => (i as int) < n, CompressRequest::End(i) => (i as int) < n, CompressRequest::Shutdown => true }
}
pub open spec fn msg_bytes(m: CompressRequest, i: int) -> Seq<u8> {
    match m { CompressRequest::Data(j, d) => if j as int == i { flat((*d)@) } else { Seq::<u8>::empty() }, _ => Seq::<u8>::empty() }
}
// the bytes the messages s carry for encoder i, in order
pub open spec fn enc_input(s: Seq<CompressRequest>, i: int) -> Seq<u8> decreases s.len() {
    if s.len() == 0 { Seq::<u8>::empty() } else { enc_input(s.drop_last(), i) + msg_bytes(s.last(), i) }
}
pub open spec fn ended(s: Seq<CompressRequest>, i: int) -> bool { exists|k: int| 0 <= k < s.len() && #[trigger] s[k] == CompressRequest::End(i as usize) }
// a client sends End last (process_bufs: only with should_end): no Data for an encoder after its End
pub open spec fn end_is_last(s: Seq<CompressRequest>) -> bool {
    forall|a: int, b: int| #![trigger s[a], s[b]] 0 <= a < b < s.len() ==> !(s[a] matches CompressRequest::End(i) && msg_bytes(s[b], i as int).len() > 0)
}
pub open spec fn distinct_paths(regs: Seq<path::PathBuf>) -> bool { forall|a: int, b: int| 0 <= a < b < regs.len() ==> #[trigger] regs[a]@ != #[trigger] regs[b]@ }


// every registered archive decodes to the bytes the messages carry for its encoder
pub open spec fn archives_hold(archives: Map<Seq<char>, Seq<u8>>, regs: Seq<path::PathBuf>, msgs: Seq<CompressRequest>) -> bool {
    forall|j: int| 0 <= j < regs.len() ==> archives.dom().contains(#[trigger] regs[j]@) && archives[regs[j]@] == enc_input(msgs, j)
}
// archive j holds the bytes of the processed messages for encoder j, once it is finished
pub open spec fn thread_inv(encs: Seq<zstdw::Encoder>, regs: Seq<path::PathBuf>, taken: Seq<CompressRequest>, w: World) -> bool {
    &&& encs.len() == regs.len()
    &&& forall|j: int| 0 <= j < encs.len() ==> (#[trigger] encs[j]).bw.f.p == regs[j]@ && encs[j].input == enc_input(taken, j)
    &&& forall|j: int| 0 <= j < encs.len() ==> ((#[trigger] encs[j]).finished ==> w.archives.dom().contains(regs[j]@) && w.archives[regs[j]@] == encs[j].input)
}
// one message moves from `incoming` to `taken`
proof fn lemma_step(whole: Seq<CompressRequest>, t0: Seq<CompressRequest>, i0: Seq<CompressRequest>, m: CompressRequest, n: int)
    requires t0 + i0 == whole, i0.len() > 0, m == i0[0], forall|k: int| 0 <= k < whole.len() ==> msg_ok(#[trigger] whole[k], n),
    ensures t0.push(m) + i0.skip(1) == whole, msg_ok(m, n), whole[t0.len() as int] == m, forall|k: int| 0 <= k < t0.len() ==> whole[k] == t0[k],
{ assert(whole[t0.len() as int] == i0[0]); assert(t0.push(m) + i0.skip(1) =~= whole); assert forall|k: int| 0 <= k < t0.len() implies whole[k] == t0[k] by {} }
proof fn lemma_enc_input_push(s: Seq<CompressRequest>, m: CompressRequest, i: int)
    ensures enc_input(s.push(m), i) == enc_input(s, i) + msg_bytes(m, i)
{ assert(s.push(m).drop_last() =~= s); }

//!fn src/app/log.rs Compressor::run#thread rules=R1,R7,R10,R12,R17 props=C08,C06
fn run_thread(regs: &Vec<path::PathBuf>, req_rx__0: mpsc::Receiver<CompressRequest>, shutdown: &sync::Arc<sync::atomic::AtomicBool>, x: usize, Tracked(w): Tracked<&mut World>) -> ⟦(res: ⟧Result<(), MonorailError>⟦)⟧
@    requires
@        req_rx__0.taken.len() == 0,
@        // clients only name encoders they were given by `register` (Compressor::register's postcondition)
@        forall|k: int| 0 <= k < req_rx__0.incoming.len() ==> msg_ok(#[trigger] req_rx__0.incoming[k], regs@.len() as int),
@        distinct_paths(regs@), end_is_last(req_rx__0.incoming),
@        recoverable(*old(w)), forall|j: int| 0 <= j < regs@.len() ==> (#[trigger] regs@[j])@ != old(w).ptr,
@    ensures
@        // C08: when the thread ends normally, the archive registered as encoder j of this thread decodes to exactly the bytes of the
@        // Data(j, ..) messages it processed, in the order they were sent - a prefix of the channel's messages - and to nothing else
@        res is Ok ==> exists|k: int| 0 <= k <= req_rx__0.incoming.len() && #[trigger] archives_hold(final(w).archives, regs@, req_rx__0.incoming.take(k)), // [C08]
{ let mut req_rx = req_rx__0;
@                    let ghost whole = req_rx__0.incoming;
                    let mut encoders⟦: Vec<zstdw::Encoder>⟧ = vec![];
                    for r in ⟦itr: ⟧regs.iter()
@                        invariant
@                            itr.seq().len() == regs@.len(), forall|j: int| 0 <= j < itr.seq().len() ==> *itr.seq()[j] == regs@[j],
@                            encoders@.len() == itr.index@,
@                            forall|j: int| 0 <= j < encoders@.len() ==> (#[trigger] encoders@[j]).bw.f.p == regs@[j]@ && encoders@[j].input == Seq::<u8>::empty() && !encoders@[j].finished,
@                            recoverable(*w), w.ptr == old(w).ptr, forall|j: int| 0 <= j < regs@.len() ==> (#[trigger] regs@[j])@ != w.ptr,
                    {
@                        assert(r@ == regs@[itr.index@ as int]@);
                        let f = fs::OpenOptions::new()
                            .create(true)
                            .write(true)
                            .truncate(true)
                            .open(r, Tracked(w))
                            .map_err(io_to_generic)?;
                        let bw = iow::BufWriter::new(f);
                        encoders.push(zstdw::Encoder::new(bw, 3)?);
                    }
@                    assert(req_rx.taken =~= Seq::<CompressRequest>::empty());
@                    assert(req_rx.taken + req_rx.incoming =~= whole);
                    loop
@                        invariant
@                            whole == req_rx__0.incoming,
@                            thread_inv(encoders@, regs@, req_rx.taken, *w),
@                            req_rx.taken + req_rx.incoming == whole,
@                            distinct_paths(regs@), end_is_last(whole),
@                            forall|k: int| 0 <= k < whole.len() ==> msg_ok(#[trigger] whole[k], regs@.len() as int),
@                            // an encoder is finished only by an End among the processed messages
@                            forall|j: int| 0 <= j < encoders@.len() ==> ((#[trigger] encoders@[j]).finished ==> ended(req_rx.taken, j)),
@                        decreases req_rx.incoming.len(),
                    {
                        if shutdown.load(sync::atomic::Ordering::Relaxed) {
                            break;
                        };
@                        let ghost t0 = req_rx.taken;
@                        let ghost i0 = req_rx.incoming;
@                        let ghost e0 = encoders@;
@                        let ghost w0 = *w;
                        match req_rx.blocking_recv().ok_or(MonorailError::ChannelRecv(fmt_opaque()))? {
                            CompressRequest::End(encoder_index) => {
@                                let ghost m = CompressRequest::End(encoder_index);
@                                proof { lemma_step(whole, t0, i0, m, regs@.len() as int); assert forall|j: int| enc_input(t0.push(m), j) == enc_input(t0, j) by { lemma_enc_input_push(t0, m, j); } }
                                encoders[encoder_index].do_finish(Tracked(w))?;
@                                proof {
@                                    assert(ended(req_rx.taken, encoder_index as int)) by { assert(req_rx.taken[t0.len() as int] == m); }
@                                    assert forall|j: int| 0 <= j < encoders@.len() && (#[trigger] encoders@[j]).finished implies ended(req_rx.taken, j) by {
@                                        if j != encoder_index as int { assert(e0[j].finished); let k = choose|k: int| 0 <= k < t0.len() && #[trigger] t0[k] == CompressRequest::End(j as usize); assert(req_rx.taken[k] == t0[k]); }
@                                    }
@                                    assert(thread_inv(encoders@, regs@, req_rx.taken, *w)); // END-ARM
@                                }
                            }
                            CompressRequest::Shutdown => {
@                                let ghost m = CompressRequest::Shutdown;
@                                proof { lemma_step(whole, t0, i0, m, regs@.len() as int); assert forall|j: int| enc_input(t0.push(m), j) == enc_input(t0, j) by { lemma_enc_input_push(t0, m, j); }
@                                    assert forall|j: int| 0 <= j < encoders@.len() && (#[trigger] encoders@[j]).finished implies ended(req_rx.taken, j) by {
@                                        let k = choose|k: int| 0 <= k < t0.len() && #[trigger] t0[k] == CompressRequest::End(j as usize); assert(req_rx.taken[k] == t0[k]); } }
                                break;
                            }
                            CompressRequest::Data(encoder_index, data) => {
@                                let ghost m = CompressRequest::Data(encoder_index, data);
@                                let ghost ei = encoder_index as int;
@                                proof { lemma_step(whole, t0, i0, m, regs@.len() as int); }
                                for v in ⟦itv: ⟧data.iter()
@                                    invariant
@                                        itv.seq().len() == (*data)@.len(), forall|q: int| 0 <= q < (*data)@.len() ==> *itv.seq()[q] == (*data)@[q],
@                                        0 <= ei < e0.len(), ei == encoder_index as int, encoders@.len() == e0.len(), *w == w0,
@                                        forall|j: int| 0 <= j < e0.len() && j != ei ==> encoders@[j] == e0[j],
@                                        encoders@[ei].bw == e0[ei].bw, encoders@[ei].finished == e0[ei].finished,
@                                        encoders@[ei].input == e0[ei].input + flat((*data)@.take(itv.index@ as int)),
                                {
@                                    proof { let q = itv.index@ as int; assert((*data)@.take(q + 1) =~= (*data)@.take(q).push((*data)@[q])); lemma_flat_push((*data)@.take(q), (*data)@[q]); }
                                    encoders[encoder_index].write_all(v)?;
                                }
@                                proof {
@                                    assert((*data)@.take((*data)@.len() as int) =~= (*data)@);
@                                    assert forall|j: int| enc_input(t0.push(m), j) == enc_input(t0, j) + msg_bytes(m, j) by { lemma_enc_input_push(t0, m, j); }
@                                    // a finished encoder receives no further bytes: End is the last message a client sends for it
@                                    if e0[ei].finished {
@                                        let a = choose|a: int| 0 <= a < t0.len() && #[trigger] t0[a] == CompressRequest::End(ei as usize);
@                                        assert(whole[a] == t0[a]); assert(whole[t0.len() as int] == m);
@                                        assert(msg_bytes(m, ei).len() == 0);
@                                        assert(encoders@[ei].input =~= e0[ei].input);
@                                    }
@                                    assert forall|j: int| 0 <= j < encoders@.len() && (#[trigger] encoders@[j]).finished implies ended(req_rx.taken, j) by {
@                                        assert(e0[j].finished); let k = choose|k: int| 0 <= k < t0.len() && #[trigger] t0[k] == CompressRequest::End(j as usize); assert(req_rx.taken[k] == t0[k]); }
@                                    assert(req_rx.taken == t0.push(m));
@                                    assert(encoders@[ei].input == e0[ei].input + flat((*data)@)); // D1
@                                    assert(e0[ei].input == enc_input(t0, ei)); // D2
@                                    assert(msg_bytes(m, ei) == flat((*data)@)); // D3
@                                    assert(enc_input(req_rx.taken, ei) == enc_input(t0, ei) + msg_bytes(m, ei)); // D4
@                                    assert forall|j: int| 0 <= j < encoders@.len() implies (#[trigger] encoders@[j]).input == enc_input(req_rx.taken, j) by {
@                                        if j == ei { assert(msg_bytes(m, j) == flat((*data)@)); } else { assert(encoders@[j] == e0[j]); assert(e0[j].input == enc_input(t0, j)); assert(msg_bytes(m, j) =~= Seq::<u8>::empty()); assert(enc_input(t0, j) + msg_bytes(m, j) =~= enc_input(t0, j)); }
@                                    }
@                                    assert forall|j: int| 0 <= j < encoders@.len() implies (#[trigger] encoders@[j]).bw.f.p == regs@[j]@ by { if j != ei { assert(encoders@[j] == e0[j]); } assert(e0[j].bw.f.p == regs@[j]@); }
@                                    assert forall|j: int| 0 <= j < encoders@.len() && (#[trigger] encoders@[j]).finished implies w.archives.dom().contains(regs@[j]@) && w.archives[regs@[j]@] == encoders@[j].input by {
@                                        if j != ei { assert(encoders@[j] == e0[j]); } assert(e0[j].finished); assert(w0.archives[regs@[j]@] == e0[j].input);
@                                    }
@                                    assert(thread_inv(encoders@, regs@, req_rx.taken, *w)); // DATA-ARM
@                                }
                            }
                        }
                    }
@                    let ghost e1 = encoders@;
@                    let ghost taken = req_rx.taken;
                    for mut enc in ⟦ite: ⟧encoders
@                        invariant
@                            ite.seq() == e1, e1.len() == regs@.len(), distinct_paths(regs@),
@                            forall|j: int| 0 <= j < e1.len() ==> (#[trigger] e1[j]).bw.f.p == regs@[j]@ && e1[j].input == enc_input(taken, j),
@                            forall|j: int| 0 <= j < ite.index@ ==> w.archives.dom().contains(#[trigger] regs@[j]@) && w.archives[regs@[j]@] == e1[j].input,
@                            forall|j: int| ite.index@ <= j < e1.len() ==> ((#[trigger] e1[j]).finished ==> w.archives.dom().contains(regs@[j]@) && w.archives[regs@[j]@] == e1[j].input),
                    {
                        enc.do_finish(Tracked(w))?;
                    }
@                    proof {
@                        let k = taken.len() as int;
@                        assert(whole.take(k) =~= taken);
@                        assert(archives_hold(w.archives, regs@, whole.take(k)));
@                    }
                    Ok::<(), MonorailError>(())
                }
//!end

//!type src/app/log.rs Compressor
pub struct Compressor {
    pub index: usize,
    pub num_threads: usize,
    pub req_channels: Vec<(
        mpsc::Sender<CompressRequest>,
        Option<mpsc::Receiver<CompressRequest>>,
    )>,
    pub registrations: Vec<Vec<path::PathBuf>>,
    pub shutdown: sync::Arc<sync::atomic::AtomicBool>,
}
//!end
//!type src/app/log.rs CompressorClient
pub struct CompressorClient {
    pub file_name: String,
    pub encoder_index: usize,
    pub req_tx: mpsc::Sender<CompressRequest>,
}
//!end
impl ChanMsg for CompressRequest { closed spec fn apply(&self, chan: int, sink: Map<(int, int), Seq<u8>>) -> Map<(int, int), Seq<u8>> { sink } }
impl Compressor {
    // one channel and one list of registered archives per thread
    pub open spec fn wf(&self) -> bool {
        &&& self.num_threads > 0
        &&& self.req_channels@.len() == self.num_threads
        &&& self.registrations@.len() == self.num_threads
    }
//!fn src/app/log.rs Compressor::new rules=R12 props=C08
    pub(crate) fn new(num_threads: usize, shutdown: sync::Arc<sync::atomic::AtomicBool>) -> ⟦(r: ⟧Self⟦)⟧
@        ensures
@            // one channel and one empty registration list per thread; nothing registered yet
@            r.num_threads == num_threads, r.index == 0, r.req_channels@.len() == num_threads, r.registrations@.len() == num_threads,
@            forall|t: int| 0 <= t < num_threads ==> (#[trigger] r.registrations@[t])@.len() == 0,
@            // C08: the threads' channels are pairwise different (a routing key names one thread)
@            forall|a: int, b: int| 0 <= a < b < num_threads ==> (#[trigger] r.req_channels@[a]).0.chan != (#[trigger] r.req_channels@[b]).0.chan, // [C08]
    {
        let mut req_channels⟦: Vec<(mpsc::Sender<CompressRequest>, Option<mpsc::Receiver<CompressRequest>>)>⟧ = vec![];
        let mut registrations⟦: Vec<Vec<path::PathBuf>>⟧ = vec![];
@        let ghost used: Set<int> = Set::empty();
        for _i in 0..num_threads
@            invariant
@                req_channels@.len() == _i, registrations@.len() == _i,
@                forall|t: int| 0 <= t < _i ==> (#[trigger] registrations@[t])@.len() == 0,
@                forall|t: int| 0 <= t < _i ==> used.contains((#[trigger] req_channels@[t]).0.chan),
@                forall|a: int, b: int| 0 <= a < b < _i ==> (#[trigger] req_channels@[a]).0.chan != (#[trigger] req_channels@[b]).0.chan,
        {
            let (req_tx, req_rx) = mpsc::channel_fresh(1000, Ghost(used));
@            proof { used = used.insert(req_tx.chan); }
            req_channels.push((req_tx, Some(req_rx)));
            registrations.push(vec![]);
        }
        Self {
            index: 0,
            num_threads,
            req_channels,
            registrations,
            shutdown,
        }
    }
//!end
//!fn src/app/log.rs Compressor::register props=C08
    pub(crate) fn register(&mut self, p: &path::Path) -> ⟦(res: ⟧Result<CompressorClient, MonorailError>⟦)⟧
@        requires old(self).wf(), old(self).index < usize::MAX, file_name_of(p@) is Some, utf8_name(file_name_of(p@)->Some_0),
@        ensures
@            final(self).wf(), final(self).num_threads == old(self).num_threads, final(self).req_channels == old(self).req_channels, final(self).index == old(self).index + 1,
@            // C08: the client's routing key is (the channel of thread t, the position of p among that thread's registrations), t = index mod threads:
@            // the thread that receives Data(i, ..) on this channel owns registrations[t], and registrations[t][i] is p - a fresh slot,
@            // so two registrations never share a key; every other registration is untouched
@            res matches Ok(c) ==> {
@                let t = (old(self).index % old(self).num_threads) as int;
@                &&& c.req_tx.chan == old(self).req_channels@[t].0.chan
@                &&& c.encoder_index == old(self).registrations@[t]@.len()
@                &&& final(self).registrations@[t]@ == old(self).registrations@[t]@.push(final(self).registrations@[t]@[c.encoder_index as int])
@                &&& final(self).registrations@[t]@[c.encoder_index as int]@ == p@
@                &&& forall|u: int| 0 <= u < old(self).num_threads && u != t ==> final(self).registrations@[u] == old(self).registrations@[u]
@                // the name the client carries (block headers, `log tail`) is the archive's file name
@                &&& Some(c.file_name@) == file_name_of(p@)
@            }, // [C08]
    {
        // todo; check path not already seen
        let thread_index = self.index % self.num_threads;
        let encoder_index = self.registrations[thread_index].len();
        self.registrations[thread_index].push(p.to_path_buf());
        self.index += 1;

        let file_name = p.file_name().unwrap().to_str().unwrap().to_string(); // todo; monorailerror

        Ok(CompressorClient {
            file_name,
            encoder_index,
            req_tx: self.req_channels[thread_index].0.clone(),
        })
    }
//!end
}

// ---- initialize_compressor (app/run.rs): one pair of clients per target of the group ----
//!type src/app/run.rs Logs
pub struct Logs {
    pub stdout_path: path::PathBuf,
    pub stderr_path: path::PathBuf,
}
//!end
//!type src/app/run.rs PlanTarget
pub struct PlanTarget {
    pub path: String,
    pub command_work_path: path::PathBuf,
    pub command_path: Option<path::PathBuf>,
    pub command_args: Option<Vec<String>>,
    pub logs: Logs,
}
//!end
pub mod log { pub use super::Compressor; pub use super::CompressorClient; }
// C08: a client writes into the archive `p`: its channel is thread t's and `p` is that thread's registration at the client's index
pub open spec fn routes_to(c: Compressor, cl: CompressorClient, p: Seq<char>) -> bool {
    exists|t: int| 0 <= t < c.num_threads && cl.req_tx.chan == (#[trigger] c.req_channels@[t]).0.chan
        && 0 <= cl.encoder_index < c.registrations@[t]@.len() && c.registrations@[t]@[cl.encoder_index as int]@ == p
}
pub open spec fn names_ok(t: PlanTarget) -> bool {
    file_name_of(t.logs.stdout_path@) is Some && utf8_name(file_name_of(t.logs.stdout_path@)->Some_0) && file_name_of(t.logs.stderr_path@) is Some && utf8_name(file_name_of(t.logs.stderr_path@)->Some_0)
}
proof fn lemma_routes_kept(c0: Compressor, c1: Compressor, t: int, cl: CompressorClient, p: Seq<char>)
    requires c0.wf(), c1.wf(), c0.num_threads == c1.num_threads, c0.req_channels == c1.req_channels, 0 <= t < c0.num_threads,
        c1.registrations@[t]@ == c0.registrations@[t]@.push(c1.registrations@[t]@[c0.registrations@[t]@.len() as int]),
        forall|u: int| 0 <= u < c0.num_threads && u != t ==> c1.registrations@[u] == c0.registrations@[u],
        routes_to(c0, cl, p),
    ensures routes_to(c1, cl, p),
{
    let u = choose|u: int| 0 <= u < c0.num_threads && cl.req_tx.chan == (#[trigger] c0.req_channels@[u]).0.chan && 0 <= cl.encoder_index < c0.registrations@[u]@.len() && c0.registrations@[u]@[cl.encoder_index as int]@ == p;
    assert(cl.req_tx.chan == c1.req_channels@[u].0.chan);
    if u == t { assert(c1.registrations@[t]@[cl.encoder_index as int] == c0.registrations@[t]@[cl.encoder_index as int]); }
}
//!fn src/app/run.rs initialize_compressor props=C08,C20
fn initialize_compressor(
    plan_targets: &[PlanTarget],
    num_threads: usize,
) -> ⟦(res: ⟧Result<
    (
        log::Compressor,
        Vec<(log::CompressorClient, log::CompressorClient)>,
    ),
    MonorailError,
>⟦)⟧
@    requires
@        num_threads > 0, 2 * plan_targets@.len() < usize::MAX,
@        // ASSUMED of the plan (Logs::new joins the names stdout.zst / stderr.zst onto the task's log directory)
@        forall|i: int| 0 <= i < plan_targets@.len() ==> names_ok(#[trigger] plan_targets@[i]),
@    ensures
@        res matches Ok(p) ==> {
@            &&& p.1@.len() == plan_targets@.len()
@            // C08: the i-th pair of clients writes into the i-th target's two archives - stdout client into its stdout archive, stderr
@            // client into its stderr archive
@            &&& forall|i: int| 0 <= i < plan_targets@.len() ==> routes_to(p.0, (#[trigger] p.1@[i]).0, plan_targets@[i].logs.stdout_path@) && routes_to(p.0, p.1@[i].1, plan_targets@[i].logs.stderr_path@)
@            // C20: and carries that archive's file name (the stream name of its block headers)
@            &&& forall|i: int| 0 <= i < plan_targets@.len() ==> Some((#[trigger] p.1@[i]).0.file_name@) == file_name_of(plan_targets@[i].logs.stdout_path@) && Some(p.1@[i].1.file_name@) == file_name_of(plan_targets@[i].logs.stderr_path@)
@        }, // [C08,C20]
{
    let mut compressor = log::Compressor::new(
        num_threads,
        sync::Arc::new(sync::atomic::AtomicBool::new(false)),
    );
    let mut clients⟦: Vec<(log::CompressorClient, log::CompressorClient)>⟧ = Vec::new();

    for plan_target in ⟦itp: ⟧plan_targets.iter()
@        invariant
@            compressor.wf(), compressor.num_threads == num_threads, compressor.index == 2 * itp.index@, 2 * plan_targets@.len() < usize::MAX,
@            clients@.len() == itp.index@, itp.seq().len() == plan_targets@.len(), forall|q: int| 0 <= q < plan_targets@.len() ==> *itp.seq()[q] == plan_targets@[q],
@            forall|i: int| 0 <= i < plan_targets@.len() ==> names_ok(#[trigger] plan_targets@[i]),
@            forall|i: int| 0 <= i < itp.index@ ==> routes_to(compressor, (#[trigger] clients@[i]).0, plan_targets@[i].logs.stdout_path@) && routes_to(compressor, clients@[i].1, plan_targets@[i].logs.stderr_path@),
@            forall|i: int| 0 <= i < itp.index@ ==> Some((#[trigger] clients@[i]).0.file_name@) == file_name_of(plan_targets@[i].logs.stdout_path@) && Some(clients@[i].1.file_name@) == file_name_of(plan_targets@[i].logs.stderr_path@),
    {
@        let ghost c0 = compressor;
@        let ghost n = itp.index@;
@        assert(names_ok(plan_targets@[n])); assert(*plan_target == plan_targets@[n]);
        let stdout_client = compressor.register(&plan_target.logs.stdout_path)?;
@        let ghost c1 = compressor;
@        let ghost t1 = (c0.index % c0.num_threads) as int;
        let stderr_client = compressor.register(&plan_target.logs.stderr_path)?;
@        let ghost t2 = (c1.index % c1.num_threads) as int;
@        proof {
@            assert forall|i: int| 0 <= i < n implies routes_to(compressor, (#[trigger] clients@[i]).0, plan_targets@[i].logs.stdout_path@) && routes_to(compressor, clients@[i].1, plan_targets@[i].logs.stderr_path@) by {
@                lemma_routes_kept(c0, c1, t1, clients@[i].0, plan_targets@[i].logs.stdout_path@); lemma_routes_kept(c1, compressor, t2, clients@[i].0, plan_targets@[i].logs.stdout_path@);
@                lemma_routes_kept(c0, c1, t1, clients@[i].1, plan_targets@[i].logs.stderr_path@); lemma_routes_kept(c1, compressor, t2, clients@[i].1, plan_targets@[i].logs.stderr_path@);
@            }
@            assert(routes_to(c1, stdout_client, plan_target.logs.stdout_path@)) by { assert(c1.req_channels@[t1].0.chan == stdout_client.req_tx.chan); }
@            lemma_routes_kept(c1, compressor, t2, stdout_client, plan_target.logs.stdout_path@);
@            assert(routes_to(compressor, stderr_client, plan_target.logs.stderr_path@)) by { assert(compressor.req_channels@[t2].0.chan == stderr_client.req_tx.chan); }
@        }
        clients.push((stdout_client, stderr_client));
    }
    Ok((compressor, clients))
}
//!end
} // verus!
fn main() {}
