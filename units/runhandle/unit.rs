#![feature(allocator_api)]
#![allow(unused)]
// unit `runhandle`: the orchestration of one `run` in app/run.rs — selection of targets, argmap loading, effect order
// (C05 selection, C11 argmap order, C12 pointer-last / slot wipe, C13 order).  Most callees are ASSUMED here through the
// contracts listed below; the ones marked `//!stub` are proved in their own units.
use vstd::prelude::*;
verus! {
//!include prelude/std_gaps.rs
//!include prelude/keymap.rs
//!include prelude/app.rs
pub mod graph { pub use super::graph_err::GraphError; }

pub open spec fn next_slot(i: int, m: int) -> int { if i >= m { 1 } else { i + 1 } }
pub open spec fn str_views(v: Seq<String>) -> Seq<Seq<char>> { v.map_values(|s: String| s@) }
pub open spec fn group_views(g: Seq<Vec<String>>) -> Seq<Seq<Seq<char>>> { g.map_values(|v: Vec<String>| str_views(v@)) }
pub open spec fn ref_views(v: Seq<&String>) -> Seq<Seq<char>> { v.map_values(|s: &String| s@) }
// what `analyze` answers for an index whose visible roots are `roots` and a change list (None: no checkpoint)
pub uninterp spec fn analyze_groups(roots: Set<Seq<char>>, changes: Option<Seq<Seq<char>>>) -> Seq<Seq<Seq<char>>>;
pub uninterp spec fn analyze_targets(roots: Set<Seq<char>>, changes: Option<Seq<Seq<char>>>) -> Seq<Seq<char>>;
pub open spec fn in_groups(g: Seq<Seq<Seq<char>>>, t: Seq<char>) -> bool { exists|a: int, b: int| 0 <= a < g.len() && 0 <= b < g[a].len() && #[trigger] g[a][b] == t }
pub open spec fn in_names(v: Seq<Seq<char>>, t: Seq<char>) -> bool { exists|a: int| 0 <= a < v.len() && #[trigger] v[a] == t }
// `format!("{}.json", m)`: the requested name followed by `.json`, whatever dots the name contains
pub open spec fn argmap_file_name_of(m: Seq<char>) -> Seq<char> { m + ".json"@ }
#[verifier::external_body] pub fn argmap_file_name(m: &String) -> (r: String) ensures r@ == argmap_file_name_of(m@) { unimplemented!() }
pub uninterp spec fn argmap_dir(target: Seq<char>, work_path: Seq<char>) -> Seq<char>;
// the merge attempts C11 documents for one target: its `base` file (unless disabled), then each requested argmap file in the order given
pub open spec fn expected_merges(target: Seq<char>, dir: Seq<char>, use_base: bool, names: Seq<&String>, upto: int) -> Seq<(Seq<char>, Seq<char>)>
    decreases upto
{
    if upto <= 0 { if use_base { seq![(target, path_join(dir, "base.json"@))] } else { Seq::empty() } }
    else { expected_merges(target, dir, use_base, names, upto - 1).push((target, path_join(dir, argmap_file_name_of(names[upto - 1]@)))) }
}
pub open spec fn merged_for(log: Seq<(Seq<char>, Seq<char>)>, t: Seq<char>) -> bool { exists|i: int| 0 <= i < log.len() && (#[trigger] log[i]).0 == t }

pub mod tracking {
    use vstd::prelude::*;
    use super::*;
    pub struct Run { pub path: path::PathBuf, pub id: usize }
    pub struct Checkpoint { pub x: u8 }
    pub struct Table { pub x: u8 }
    impl Table {
        #[verifier::external_body] pub fn new(p: &path::PathBuf) -> (r: Result<Table, MonorailError>) { unimplemented!() }
        // a blank in-memory checkpoint (nothing is read or written)
        #[verifier::external_body] pub fn new_checkpoint(&self) -> Checkpoint { unimplemented!() }
        // ASSUMED here (Checkpoint::open is under contract in unit tracking): reads only; Ok only when a checkpoint file exists;
        // the error is TrackingCheckpointNotFound exactly when there is none - a file that exists but cannot be read or decoded is
        // some other error
        #[verifier::external_body] pub fn open_checkpoint(&self, Tracked(w): Tracked<&mut World>) -> (r: Result<Checkpoint, MonorailError>)
            ensures *final(w) == *old(w), r is Ok ==> old(w).cp_file is Some,
                (r matches Err(e) && e is TrackingCheckpointNotFound) <==> old(w).cp_file is None,
        { unimplemented!() }
    }
    impl Run {
        // contract of Run::save as used by `run` (the crash-safety contract is proved in unit tracking): ASSUMED here, with
        // the C12 obligation as its precondition - the pointer may only name a slot that holds a complete result of this run
        #[verifier::external_body] pub fn save(&mut self, Tracked(w): Tracked<&mut World>) -> (r: Result<(), MonorailError>)
            requires old(w).executed, old(w).result_stored.contains(old(self).id as int),
            ensures r is Ok ==> final(w).pointer_saved == old(w).pointer_saved.push(old(self).id as int),
                r is Err ==> final(w).pointer_saved == old(w).pointer_saved,
                final(w).ran_groups == old(w).ran_groups, final(w).argmap_log == old(w).argmap_log, final(w).result_stored == old(w).result_stored, final(w).wiped == old(w).wiped, final(w).executed == old(w).executed,
        { unimplemented!() }
    }
}
pub mod git {
    use vstd::prelude::*;
    use super::*;
//!type src/core/git.rs GitOptions
    pub struct GitOptions<'a> {
        pub begin: Option<&'a str>,
        pub end: Option<&'a str>,
        pub git_path: &'a str,
    }
//!end
    pub uninterp spec fn git_changes(work_path: Seq<char>) -> Seq<Seq<char>>;
    // ASSUMED: git is not modelled (C02, C07 are not applicable); the change list is an uninterpreted function of the repository
    // C09: git is only asked once the configuration's graph has been built and found acyclic - a cyclic configuration is rejected with the
    // graph-cycle error before any other program is started
    #[verifier::external_body] pub async fn get_git_all_changes<'a>(o: &GitOptions<'a>, c: &tracking::Checkpoint, work_path: &path::Path, Tracked(w): Tracked<&mut World>) -> (r: Result<Vec<Change>, MonorailError>)
        requires old(w).graph_checked,
        ensures *final(w) == *old(w), r matches Ok(v) ==> change_views(v@) == git_changes(work_path@) { unimplemented!() }
}
//!type src/core/mod.rs Change
pub struct Change {
    pub name: String,
}
//!end
pub open spec fn change_views(v: Seq<Change>) -> Seq<Seq<char>> { v.map_values(|c: Change| c.name@) }
pub open spec fn opt_change_views(c: Option<Vec<Change>>) -> Option<Seq<Seq<char>>> { match c { Some(v) => Some(change_views(v@)), None => None } }
impl Config {
    #[verifier::external_body] pub fn get_tracking_path(&self, work_path: &path::Path) -> path::PathBuf { unimplemented!() }
//!assumed src/core/mod.rs Config::get_target_path_set sha=af4fc913a65ee524
    // ASSUMED (repo function): the set of all configured target paths
    #[verifier::external_body] pub fn get_target_path_set(&self) -> (r: HashSet<&String>) ensures is_all_paths(self.targets@, r@) { unimplemented!() }
}
pub open spec fn is_all_paths(ts: Seq<Target>, s: Set<Seq<char>>) -> bool { forall|p: Seq<char>| #![trigger s.contains(p)] s.contains(p) <==> exists|i: int| 0 <= i < ts.len() && #[trigger] ts[i].path@ == p }
pub mod core {
    use vstd::prelude::*;
    use super::*;
    pub(crate) use super::Config; pub(crate) use super::Target;
    pub struct Index<'a> { pub ghost roots: Set<Seq<char>>, pub ghost ts: Seq<Target>, pub x: &'a u8 }
    impl<'a> Index<'a> {
        // ASSUMED here (proved in unit index: the visible set is the closure of exactly these roots)
        #[verifier::external_body] pub fn new(cfg: &'a Config, visible_targets: &HashSet<&String>, work_path: &path::Path) -> (r: Result<Index<'a>, MonorailError>)
            ensures r matches Ok(ix) ==> ix.roots == visible_targets@ && ix.ts == cfg.targets@ { unimplemented!() }
        // R12 target for `core::Index::new(..)` inside handle_run: the same, and it records that the graph has been checked (a cyclic
        // configuration makes it fail: proved in unit index)
        #[verifier::external_body] pub fn new_w(Tracked(w): Tracked<&mut World>, cfg: &'a Config, visible_targets: &HashSet<&String>, work_path: &path::Path) -> (r: Result<Index<'a>, MonorailError>)
            ensures r matches Ok(ix) ==> ix.roots == visible_targets@ && ix.ts == cfg.targets@ && final(w).graph_checked,
                final(w).cp_file == old(w).cp_file, final(w).ran_groups == old(w).ran_groups, final(w).argmap_log == old(w).argmap_log, final(w).result_stored == old(w).result_stored, final(w).wiped == old(w).wiped,
                final(w).executed == old(w).executed, final(w).pointer_saved == old(w).pointer_saved, final(w).recorded_id == old(w).recorded_id { unimplemented!() }
        #[verifier::external_body] pub fn get_target_index(&self, target: &str) -> (r: Result<&usize, MonorailError>)
            ensures r matches Ok(i) ==> *i < self.ts.len() && self.ts[*i as int].path@ == target@ { unimplemented!() }
    }
}
pub mod analyze {
    use vstd::prelude::*;
    use super::*;
    pub struct AnalyzeInput { pub show_changes: bool, pub show_change_targets: bool, pub show_target_groups: bool }
    impl AnalyzeInput { #[verifier::external_body] pub fn new(a: bool, b: bool, c: bool) -> (r: Self) ensures r.show_changes == a, r.show_change_targets == b, r.show_target_groups == c { unimplemented!() } }
    pub struct AnalyzeOutput { pub targets: Vec<String>, pub target_groups: Option<Vec<Vec<String>>>, pub checkpointed: bool }
    // ASSUMED (repo function app/analyze.rs::analyze; its per-change kernel analyze_change is proved in unit analyze):
    // the answer is a function of the index's visible roots and of the change list; every grouped target is in `targets`
    #[verifier::external_body] pub fn analyze(input: &AnalyzeInput, index: &mut core::Index<'_>, changes: Option<Vec<Change>>) -> (r: Result<AnalyzeOutput, MonorailError>)
        ensures final(index).roots == old(index).roots, final(index).ts == old(index).ts,
            r matches Ok(ao) ==> (ao.target_groups is Some <==> input.show_target_groups)
                && str_views(ao.targets@) == analyze_targets(old(index).roots, opt_change_views(changes))
                && (ao.target_groups matches Some(g) ==> group_views(g@) == analyze_groups(old(index).roots, opt_change_views(changes))
                    && forall|t: Seq<char>| in_groups(group_views(g@), t) ==> in_names(str_views(ao.targets@), t)),
    { unimplemented!() }
}

//!type src/app/run.rs HandleRunInput
pub struct HandleRunInput<'a> {
    pub git_opts: git::GitOptions<'a>,
    pub commands: Vec<&'a String>,
    pub sequences: Vec<&'a String>,
    pub targets: HashSet<&'a String>,
    pub args: Vec<&'a String>,
    pub argmaps: Vec<&'a String>,
    pub include_deps: bool,
    pub fail_on_undefined: bool,
    pub use_base_argmaps: bool,
}
//!end
impl TargetArgMaps {
    // ASSUMED (repo function core/mod.rs): the target's argmap directory
    #[verifier::external_body] pub fn get_path(&self, target_path: &path::Path) -> (r: path::PathBuf) { unimplemented!() }
}
pub struct ArgMap { pub x: u8 }
impl ArgMap {
    #[verifier::external_body] pub fn new() -> ArgMap { unimplemented!() }
    // ASSUMED (repo function): loads one argmap file and appends its entries under the target key; a missing file contributes nothing.
    // Every attempt is recorded, in order, in the ghost log
    #[verifier::external_body] pub fn merge_target_argmap(&mut self, target: &str, p: &path::Path, Tracked(w): Tracked<&mut World>) -> (r: Result<(), MonorailError>)
        ensures final(w).argmap_log == old(w).argmap_log.push((target@, p@)),
            final(w).ran_groups == old(w).ran_groups, final(w).result_stored == old(w).result_stored, final(w).wiped == old(w).wiped, final(w).executed == old(w).executed, final(w).pointer_saved == old(w).pointer_saved, final(w).recorded_id == old(w).recorded_id,
    { unimplemented!() }
    #[verifier::external_body] pub fn merge_run_input(&mut self, input: &HandleRunInput) -> (r: Result<(), MonorailError>) { unimplemented!() }
}
pub struct Plan { pub ghost groups: Seq<Seq<Seq<char>>>, pub x: u8 }
pub struct RunOutput { pub failed: bool, pub checkpointed: bool, pub x: u8 }
// contract of get_next_tracking_run as used here: the new id is next_slot(recorded id, max) (slot arithmetic proved in unit runplan)
#[verifier::external_body] fn get_next_tracking_run(cfg: &core::Config, tracking_table: &tracking::Table, Tracked(w): Tracked<&mut World>) -> (r: Result<tracking::Run, MonorailError>)
    ensures *final(w) == *old(w), r matches Ok(run) ==> run.id == next_slot(old(w).recorded_id, cfg.max_retained_runs as int) && old(w).recorded_id >= 0
{ unimplemented!() }
// ASSUMED (repo function): removes and recreates the slot directory.  C13: it must never be the slot the pointer records
#[verifier::external_body] fn setup_run_path(cfg: &core::Config, run_id: usize, work_path: &path::Path, Tracked(w): Tracked<&mut World>) -> (r: Result<path::PathBuf, MonorailError>)
    requires cfg.max_retained_runs >= 2 ==> run_id != old(w).recorded_id,
    ensures r matches Ok(p) ==> slot_of(p@) == run_id, final(w).cp_file == old(w).cp_file,
        final(w).wiped == old(w).wiped.insert(run_id as int), final(w).result_stored == old(w).result_stored.remove(run_id as int),
        final(w).ran_groups == old(w).ran_groups, final(w).argmap_log == old(w).argmap_log, final(w).executed == old(w).executed, final(w).pointer_saved == old(w).pointer_saved, final(w).recorded_id == old(w).recorded_id,
{ unimplemented!() }
// contract of get_all_commands (order of commands: proved in unit runplan)
#[verifier::external_body] fn get_all_commands<'a>(cfg: &'a core::Config, commands: &'a [&'a String], sequences: &'a [&'a String]) -> (r: Result<Vec<&'a String>, MonorailError>) { unimplemented!() }
// ASSUMED here (get_plan: one plan target per (command, target), same groups in the same order)
#[verifier::external_body] fn get_plan<'a>(index: &core::Index<'_>, commands: &'a [&'a String], targets: &[Target], target_groups: &[Vec<String>], work_path: &path::Path, run_path: &path::Path, argmap: &ArgMap) -> (r: Result<Plan, MonorailError>)
    ensures r matches Ok(p) ==> p.groups == group_views(target_groups@)
{ unimplemented!() }
// ASSUMED here (run_internal = process_plan, proved in unit runexec): executes the plan
//!assumed src/app/run.rs run_internal sha=f90095fda50149a0
#[verifier::external_body] async fn run_internal<'a>(cfg: &'a core::Config, plan: Plan, commands: &'a [&'a String], fail_on_undefined: bool, invocation: &'a str, checkpointed: bool, Tracked(w): Tracked<&mut World>) -> (r: Result<RunOutput, MonorailError>)
    ensures final(w).executed, final(w).ran_groups == plan.groups, r matches Ok(o) ==> o.checkpointed == checkpointed, final(w).cp_file == old(w).cp_file,
        final(w).argmap_log == old(w).argmap_log, final(w).result_stored == old(w).result_stored, final(w).wiped == old(w).wiped, final(w).pointer_saved == old(w).pointer_saved, final(w).recorded_id == old(w).recorded_id,
{ unimplemented!() }
pub uninterp spec fn slot_of(run_path: Seq<char>) -> int;
// ASSUMED here (the file-level contract of store_run_output is proved in unit tracking): writes the compressed result document into the slot directory
#[verifier::external_body] fn store_run_output(run_output: &RunOutput, run_path: &path::Path, Tracked(w): Tracked<&mut World>) -> (r: Result<(), MonorailError>)
    requires old(w).executed, old(w).wiped.contains(slot_of(run_path@)),
    ensures r is Ok ==> final(w).result_stored == old(w).result_stored.insert(slot_of(run_path@)), r is Err ==> final(w).result_stored == old(w).result_stored,
        final(w).ran_groups == old(w).ran_groups, final(w).argmap_log == old(w).argmap_log, final(w).wiped == old(w).wiped, final(w).executed == old(w).executed, final(w).pointer_saved == old(w).pointer_saved, final(w).recorded_id == old(w).recorded_id,
{ unimplemented!() }

//!fn src/app/run.rs merge_target_argmaps rules=R10,R16 props=C11
fn merge_target_argmaps<'a>(
    cfg: &'a core::Config,
    index: &'a core::Index,
    input: &'a HandleRunInput<'a>,
    target: &String,
    work_path: &path::Path,
    argmap: &mut ArgMap,
 Tracked(w): Tracked<&mut World>) -> ⟦(res: ⟧Result<(), MonorailError>⟦)⟧
@    requires index.ts == cfg.targets@,
@    ensures
@        // C11: for one target, its `base` argmap (unless --no-base-argmaps) and then every requested argmap file, in the order given
@        res is Ok ==> exists|dir: Seq<char>| #![trigger expected_merges(target@, dir, input.use_base_argmaps, input.argmaps@, input.argmaps@.len() as int)]
@            final(w).argmap_log == old(w).argmap_log + (if input.use_base_argmaps || input.argmaps@.len() > 0 { expected_merges(target@, dir, input.use_base_argmaps, input.argmaps@, input.argmaps@.len() as int) } else { Seq::empty() }), // [C11]
@        final(w).argmap_log.len() >= old(w).argmap_log.len(), forall|i: int| 0 <= i < old(w).argmap_log.len() ==> final(w).argmap_log[i] == old(w).argmap_log[i],
@        res is Ok && (input.use_base_argmaps || input.argmaps@.len() > 0) ==> merged_for(final(w).argmap_log, target@),
@        final(w).ran_groups == old(w).ran_groups, final(w).result_stored == old(w).result_stored, final(w).wiped == old(w).wiped, final(w).executed == old(w).executed, final(w).pointer_saved == old(w).pointer_saved, final(w).recorded_id == old(w).recorded_id,
{
    if input.use_base_argmaps || !input.argmaps.is_empty() {
        let cfg_target = &cfg.targets[*index.get_target_index(target)?];
        let argmap_path = work_path.join(cfg_target.argmaps.get_path(path::Path::new(target)));
@        let ghost dir = argmap_path@;
@        let ghost log0 = w.argmap_log;
        if input.use_base_argmaps {
            argmap.merge_target_argmap(target, &argmap_path.join("base.json"), Tracked(w))?;
        }
@        assert(w.argmap_log =~= log0 + expected_merges(target@, dir, input.use_base_argmaps, input.argmaps@, 0));
        for m in ⟦itm: ⟧&input.argmaps
@            invariant
@                dir == argmap_path@, log0 == old(w).argmap_log,
@                itm.seq().len() == input.argmaps@.len(), forall|q: int| 0 <= q < input.argmaps@.len() ==> *itm.seq()[q] == input.argmaps@[q],
@                w.argmap_log =~= log0 + expected_merges(target@, dir, input.use_base_argmaps, input.argmaps@, itm.index@ as int),
@                w.ran_groups == old(w).ran_groups, w.result_stored == old(w).result_stored, w.wiped == old(w).wiped, w.executed == old(w).executed, w.pointer_saved == old(w).pointer_saved, w.recorded_id == old(w).recorded_id,
        {
            argmap.merge_target_argmap(target, &argmap_path.join(argmap_file_name(m)), Tracked(w))?;
        }
@        proof {
@            let full = expected_merges(target@, dir, input.use_base_argmaps, input.argmaps@, input.argmaps@.len() as int);
@            assert(w.argmap_log =~= log0 + full);
@            assert(full.len() > 0) by { lemma_expected_nonempty(target@, dir, input.use_base_argmaps, input.argmaps@, input.argmaps@.len() as int); }
@            assert(w.argmap_log[log0.len() as int] == full[0]);
@            lemma_expected_target(target@, dir, input.use_base_argmaps, input.argmaps@, input.argmaps@.len() as int, 0);
@        }
    }
    Ok(())
}
//!end
proof fn lemma_expected_nonempty(target: Seq<char>, dir: Seq<char>, use_base: bool, names: Seq<&String>, upto: int)
    requires 0 <= upto <= names.len(), use_base || upto > 0
    ensures expected_merges(target, dir, use_base, names, upto).len() > 0
    decreases upto
{ }
proof fn lemma_expected_target(target: Seq<char>, dir: Seq<char>, use_base: bool, names: Seq<&String>, upto: int, i: int)
    requires 0 <= upto <= names.len(), 0 <= i < expected_merges(target, dir, use_base, names, upto).len()
    ensures expected_merges(target, dir, use_base, names, upto)[i].0 == target
    decreases upto
{
    if upto > 0 { let prev = expected_merges(target, dir, use_base, names, upto - 1); if i < prev.len() { lemma_expected_target(target, dir, use_base, names, upto - 1, i); } }
}

pub open spec fn singletons_of(g: Seq<Seq<Seq<char>>>, s: Set<Seq<char>>) -> bool {
    &&& forall|a: int| 0 <= a < g.len() ==> (#[trigger] g[a]).len() == 1 && s.contains(g[a][0])
    &&& forall|t: Seq<char>| s.contains(t) ==> in_groups(g, t)
}
// C05: which groups a run executes, for the three selection modes
// C05 / C19: without a checkpoint there is no change list (every target is covered); with one, the changes since it
pub open spec fn changes_for(has_cp: bool, work_path: Seq<char>) -> Option<Seq<Seq<char>>> { if has_cp { Some(git::git_changes(work_path)) } else { None } }
pub open spec fn selection_ok(cfg: Config, input: HandleRunInput, work_path: Seq<char>, has_cp: bool, ran: Seq<Seq<Seq<char>>>) -> bool {
    if input.targets@ =~= Set::<Seq<char>>::empty() {
        exists|all: Set<Seq<char>>| #![trigger analyze_groups(all, changes_for(has_cp, work_path))] is_all_paths(cfg.targets@, all) && ran == analyze_groups(all, changes_for(has_cp, work_path))
    } else if input.include_deps {
        ran == analyze_groups(input.targets@, None::<Seq<Seq<char>>>)
    } else {
        singletons_of(ran, input.targets@)
    }
}

//!fn src/app/run.rs handle_run rules=R1,R10,R12 props=C05,C11,C12,C13,C19,C03,C09
pub(crate) async fn handle_run<'a>(
    cfg: &'a core::Config,
    input: &'a HandleRunInput<'a>,
    invocation: &'a str,
    work_path: &'a path::Path,
 Tracked(w): Tracked<&mut World>) -> ⟦(res: ⟧Result<RunOutput, MonorailError>⟦)⟧
@    requires
@        !old(w).executed, old(w).recorded_id >= 0, old(w).wiped =~= Set::<int>::empty(), old(w).result_stored =~= Set::<int>::empty(), old(w).argmap_log.len() == 0,
@    ensures
@        // C12: the pointer is advanced exactly once, last, to the slot next_slot(previous id, max) - and only after that slot was
@        // wiped, the plan executed and the complete result stored there; C13: that slot is never the recorded one (max >= 2)
@        res is Ok ==> final(w).pointer_saved == old(w).pointer_saved.push(next_slot(old(w).recorded_id, cfg.max_retained_runs as int)), // [C12]
@        res is Ok ==> final(w).executed && final(w).result_stored.contains(next_slot(old(w).recorded_id, cfg.max_retained_runs as int)) && final(w).wiped.contains(next_slot(old(w).recorded_id, cfg.max_retained_runs as int)), // [C12,C13]
@        res is Err ==> final(w).pointer_saved == old(w).pointer_saved, // [C12,C13]
@        // C05: exactly the selected targets are executed, grouped as analyze reports
@        res is Ok ==> selection_ok(*cfg, *input, work_path@, old(w).cp_file is Some, final(w).ran_groups), // [C05,C19,C03]
@        // C19: a run without named targets says `checkpointed` exactly when a checkpoint exists; a checkpoint that exists but cannot be
@        // read is an error, never "no checkpoint" (C05: `run` and `analyze` agree)
@        res matches Ok(o) ==> (input.targets@ =~= Set::<Seq<char>>::empty() ==> o.checkpointed == (old(w).cp_file is Some)), // [C19,C05]
@        // C11: the argmaps of every executed target were merged (base first, then the requested files in order: merge_target_argmaps)
@        (res is Ok && (input.use_base_argmaps || input.argmaps@.len() > 0)) ==> forall|t: Seq<char>| #![trigger in_groups(final(w).ran_groups, t)] in_groups(final(w).ran_groups, t) ==> merged_for(final(w).argmap_log, t), // [C11]
{
    let tracking_table = tracking::Table::new(&cfg.get_tracking_path(work_path))?;
    if cfg.targets.is_empty() {
        return Err(MonorailError::from("No configured targets"));
    }
    let mut tracking_run = get_next_tracking_run(cfg, &tracking_table, Tracked(w))?;
    let run_path = setup_run_path(cfg, tracking_run.id, work_path, Tracked(w))?;
@    let ghost id = tracking_run.id as int;
    let commands = get_all_commands(cfg, &input.commands, &input.sequences)?;
    let mut argmap = ArgMap::new();
    let mut checkpointed = false;

    let (index, target_groups) = match input.targets.len() {
        0 => {
            let ths = cfg.get_target_path_set();
            let mut index = core::Index::new_w(Tracked(w), cfg, &ths, work_path)?;
            let checkpoint = match tracking_table.open_checkpoint(Tracked(w)) {
                Ok(checkpoint) => Some(checkpoint),
                Err(MonorailError::TrackingCheckpointNotFound(_)) => None,
                Err(e) => {
                    return Err(e);
                }
            };

            // Fetch changes from the change provider if a checkpoint exists
            let changes = match checkpoint {
                Some(checkpoint) => match cfg.change_provider.r#use {
                    ChangeProviderKind::Git => Some(
                        git::get_git_all_changes(&input.git_opts, &checkpoint, work_path, Tracked(w)).await?,
                    ),
                },
                None => None,
            };

            checkpointed = changes.is_some();
@            let ghost chv: Option<Seq<Seq<char>>> = opt_change_views(changes);

            let ai = analyze::AnalyzeInput::new(false, false, true);
            let ao = analyze::analyze(&ai, &mut index, changes)?;
            let target_groups = ao
                .target_groups
                .ok_or(MonorailError::from("No target groups found"))?;
@            assert(group_views(target_groups@) == analyze_groups(ths@, chv));
            for t in ⟦it1: ⟧ao.targets.iter()
@                invariant
@                    index.ts == cfg.targets@, it1.seq().len() == ao.targets@.len(), forall|q: int| 0 <= q < ao.targets@.len() ==> *it1.seq()[q] == ao.targets@[q],
@                    (input.use_base_argmaps || input.argmaps@.len() > 0) ==> forall|q: int| 0 <= q < it1.index@ ==> merged_for(w.argmap_log, #[trigger] ao.targets@[q]@),
@                    w.ran_groups == old(w).ran_groups, w.result_stored.contains(id) == false, w.wiped.contains(id), !w.executed, w.pointer_saved == old(w).pointer_saved, w.recorded_id == old(w).recorded_id,
            {
@                let ghost log0 = w.argmap_log;
                merge_target_argmaps(cfg, &index, input, t, work_path, &mut argmap, Tracked(w))?;
@                assert forall|q: int| 0 <= q < it1.index@ && (input.use_base_argmaps || input.argmaps@.len() > 0) implies merged_for(w.argmap_log, #[trigger] ao.targets@[q]@) by {
@                    assert(merged_for(log0, ao.targets@[q]@)); let i = choose|i: int| 0 <= i < log0.len() && (#[trigger] log0[i]).0 == ao.targets@[q]@; assert(w.argmap_log[i] == log0[i]);
@                }
            }
@            assert((input.use_base_argmaps || input.argmaps@.len() > 0) ==> forall|t: Seq<char>| #![trigger in_groups(group_views(target_groups@), t)] in_groups(group_views(target_groups@), t) ==> merged_for(w.argmap_log, t)) by {
@                if input.use_base_argmaps || input.argmaps@.len() > 0 {
@                    assert forall|t: Seq<char>| #![trigger in_groups(group_views(target_groups@), t)] in_groups(group_views(target_groups@), t) implies merged_for(w.argmap_log, t) by {
@                        assert(in_names(str_views(ao.targets@), t));
@                        let a = choose|a: int| 0 <= a < str_views(ao.targets@).len() && #[trigger] str_views(ao.targets@)[a] == t;
@                        assert(ao.targets@[a]@ == t);
@                    }
@                }
@            }

            (index, target_groups)
        }
        _ => {
            let mut index = core::Index::new_w(Tracked(w), cfg, &input.targets, work_path)?;
            let target_groups = if input.include_deps {
                let ai = analyze::AnalyzeInput::new(false, false, true);
                let ao = analyze::analyze(&ai, &mut index, None)?;
                for t in ⟦it2: ⟧ao.targets.iter()
@                    invariant
@                        index.ts == cfg.targets@, it2.seq().len() == ao.targets@.len(), forall|q: int| 0 <= q < ao.targets@.len() ==> *it2.seq()[q] == ao.targets@[q],
@                        (input.use_base_argmaps || input.argmaps@.len() > 0) ==> forall|q: int| 0 <= q < it2.index@ ==> merged_for(w.argmap_log, #[trigger] ao.targets@[q]@),
@                        w.ran_groups == old(w).ran_groups, w.result_stored.contains(id) == false, w.wiped.contains(id), !w.executed, w.pointer_saved == old(w).pointer_saved, w.recorded_id == old(w).recorded_id,
                {
@                    let ghost log0 = w.argmap_log;
                    merge_target_argmaps(cfg, &index, input, t, work_path, &mut argmap, Tracked(w))?;
@                    assert forall|q: int| 0 <= q < it2.index@ && (input.use_base_argmaps || input.argmaps@.len() > 0) implies merged_for(w.argmap_log, #[trigger] ao.targets@[q]@) by {
@                        assert(merged_for(log0, ao.targets@[q]@)); let i = choose|i: int| 0 <= i < log0.len() && (#[trigger] log0[i]).0 == ao.targets@[q]@; assert(w.argmap_log[i] == log0[i]);
@                    }
                }
@                assert((input.use_base_argmaps || input.argmaps@.len() > 0) ==> forall|t: Seq<char>| #![trigger in_names(str_views(ao.targets@), t)] in_names(str_views(ao.targets@), t) ==> merged_for(w.argmap_log, t)) by {
@                    if input.use_base_argmaps || input.argmaps@.len() > 0 {
@                        assert forall|t: Seq<char>| #![trigger in_names(str_views(ao.targets@), t)] in_names(str_views(ao.targets@), t) implies merged_for(w.argmap_log, t) by {
@                            let a = choose|a: int| 0 <= a < str_views(ao.targets@).len() && #[trigger] str_views(ao.targets@)[a] == t; assert(ao.targets@[a]@ == t);
@                        }
@                    }
@                }

                ao.target_groups
                    .ok_or(MonorailError::from("No target groups found"))?
            } else {
                // since the user specified the targets they want, without deps,
                // we will make synthetic serialized length 1 groups that ignore the graph
                let mut tg⟦: Vec<Vec<String>>⟧ = vec![];
                for t in ⟦it3: ⟧input.targets.to_vec()
@                    invariant
@                        index.ts == cfg.targets@,
@                        forall|j: int| 0 <= j < it3.seq().len() ==> input.targets@.contains((#[trigger] it3.seq()[j]).kv()),
@                        tg@.len() == it3.index@, forall|a: int| 0 <= a < tg@.len() ==> (#[trigger] tg@[a])@.len() == 1 && tg@[a]@[0]@ == it3.seq()[a].kv(),
@                        (input.use_base_argmaps || input.argmaps@.len() > 0) ==> forall|a: int| 0 <= a < it3.index@ ==> merged_for(w.argmap_log, (#[trigger] it3.seq()[a]).kv()),
@                        forall|t: Seq<char>| #![trigger input.targets@.contains(t)] input.targets@.contains(t) ==> in_groups(group_views(tg@), t) || in_rest_kv(it3.seq(), it3.index@ as int, t),
@                        w.ran_groups == old(w).ran_groups, w.result_stored.contains(id) == false, w.wiped.contains(id), !w.executed, w.pointer_saved == old(w).pointer_saved, w.recorded_id == old(w).recorded_id,
                {
@                    broadcast use axiom_to_string_refref, axiom_to_string_ref;
@                    let ghost k3 = it3.index@ as int;
@                    let ghost tg0 = tg@;
@                    let ghost log0 = w.argmap_log;
@                    assert((**t)@ == it3.seq()[k3].kv());
                    merge_target_argmaps(cfg, &index, input, t, work_path, &mut argmap, Tracked(w))?;
                    tg.push(vec![t.to_string()]);
@                    proof {
@                        assert(tg@[k3]@[0]@ == it3.seq()[k3].kv());
@                        assert forall|a: int| 0 <= a < k3 + 1 && (input.use_base_argmaps || input.argmaps@.len() > 0) implies merged_for(w.argmap_log, (#[trigger] it3.seq()[a]).kv()) by {
@                            if a < k3 { assert(merged_for(log0, it3.seq()[a].kv())); let i = choose|i: int| 0 <= i < log0.len() && (#[trigger] log0[i]).0 == it3.seq()[a].kv(); assert(w.argmap_log[i] == log0[i]); }
@                        }
@                        assert forall|t2: Seq<char>| #![trigger input.targets@.contains(t2)] input.targets@.contains(t2) implies in_groups(group_views(tg@), t2) || in_rest_kv(it3.seq(), k3 + 1, t2) by {
@                            if in_groups(group_views(tg0), t2) {
@                                let (a, b) = choose|a: int, b: int| 0 <= a < group_views(tg0).len() && 0 <= b < group_views(tg0)[a].len() && #[trigger] group_views(tg0)[a][b] == t2;
@                                assert(tg@[a] == tg0[a]); assert(group_views(tg@)[a][b] == t2);
@                            } else {
@                                assert(in_rest_kv(it3.seq(), k3, t2));
@                                let j = choose|j: int| k3 <= j < it3.seq().len() && (#[trigger] it3.seq()[j]).kv() == t2;
@                                if j == k3 { assert(group_views(tg@)[k3][0] == t2); } else { assert(it3.seq()[j].kv() == t2); }
@                            }
@                        }
@                    }
                }
                tg
            };
            (index, target_groups)
        }
    };

    argmap.merge_run_input(input)?;

    let plan = get_plan(
        &index,
        &commands,
        &cfg.targets,
        &target_groups,
        work_path,
        &run_path,
        &argmap,
    )?;

    let run_output = run_internal(
        cfg,
        plan,
        &commands,
        input.fail_on_undefined,
        invocation,
        checkpointed,
    Tracked(w))
    .await?;

    // Store the run output record
    store_run_output(&run_output, &run_path, Tracked(w))?;

    // Update the run counter
    tracking_run.save(Tracked(w))?;
    Ok(run_output)
}
//!end
pub open spec fn in_rest_kv(s: Seq<&&String>, from: int, r: Seq<char>) -> bool { exists|j: int| from <= j < s.len() && (#[trigger] s[j]).kv() == r }
} // verus!
fn main() {}
