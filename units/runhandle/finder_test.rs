// Run-time finder for handle_run's selection contract (child module of app::run in a scratch copy of the crate; never the deciding step).
// Executable form: which targets a run covers, and what it says about the checkpoint, for every combination of
//   checkpoint state {none, valid, present but unreadable} x selection {no targets, named, named + deps} x interval {none, --begin, --end}.
// C05: without named targets exactly the targets `analyze` reports for the same inputs; an unreadable checkpoint is an error for both.
// C19: no checkpoint => every configured target, checkpointed=false - whatever interval is given.
// C03: named targets (+deps) => the named targets (their dependency closure), independent of any checkpoint or interval.
use super::*;
use crate::core::testing::*;

fn vf_covered(o: &RunOutput) -> std::collections::BTreeSet<String> {
    let v = serde_json::to_value(o).unwrap();
    let mut s = std::collections::BTreeSet::new();
    for crr in v["results"].as_array().unwrap() { for tg in crr["target_groups"].as_array().unwrap() { for (t, _) in tg.as_object().unwrap() { s.insert(t.to_owned()); } } }
    s
}
fn vf_groups(o: &RunOutput) -> Vec<Vec<String>> {
    let v = serde_json::to_value(o).unwrap();
    let mut out = vec![];
    for crr in v["results"].as_array().unwrap() { for tg in crr["target_groups"].as_array().unwrap() { let mut g: Vec<String> = tg.as_object().unwrap().keys().cloned().collect(); g.sort(); out.push(g); } }
    out
}

#[test]
fn vf_handle_run_selection() {
    let rt = tokio::runtime::Builder::new_multi_thread().worker_threads(2).enable_all().build().unwrap();
    let (mut checked, mut bad) = (0u64, 0u64);
    let all: std::collections::BTreeSet<String> = ["target1", "target2", "target3", "target4", "target4/target5", "target6"].iter().map(|s| s.to_string()).collect();
    for cp_state in ["none", "valid", "unreadable"] { for interval in ["none", "begin", "end"] { for sel in ["all", "named", "deps"] {
        checked += 1;
        let td = new_testdir().unwrap();
        let rp = td.path();
        let what = format!("run with checkpoint={} interval={} selection={}", cp_state, interval, sel);
        let r: Option<String> = rt.block_on(async {
            let cfg = new_test_repo(rp).await;
            add(".", rp).await; commit(rp).await;
            let base = get_head(rp).await;
            create_file(rp, "target2", "edited.txt", b"edit", false).await;
            add("target2/edited.txt", rp).await; commit(rp).await;
            let head = get_head(rp).await;
            // checkpoint at `base`: target2 (and what uses it) changed since
            let cp_path = cfg.get_tracking_path(rp).join("checkpoint.json.zst");
            match cp_state {
                "valid" => { let tt = tracking::Table::new(&cfg.get_tracking_path(rp)).unwrap(); let mut cp = tt.new_checkpoint(); cp.id = base.clone(); cp.save().unwrap(); }
                "unreadable" => { std::fs::create_dir_all(cp_path.parent().unwrap()).unwrap(); std::fs::write(&cp_path, b"").unwrap(); }
                _ => {}
            }
            let command = "vf-no-such-command".to_string();
            let t3 = "target3".to_string();
            let mut targets = HashSet::new();
            if sel != "all" { targets.insert(&t3); }
            let git_opts = git::GitOptions { begin: if interval == "begin" { Some(base.as_str()) } else { None }, end: if interval == "end" { Some(head.as_str()) } else { None }, git_path: "git" };
            let input = HandleRunInput { git_opts, commands: vec![&command], sequences: vec![], targets, args: vec![], argmaps: vec![], include_deps: sel == "deps", fail_on_undefined: false, use_base_argmaps: true };
            let res = handle_run(&cfg, &input, "finder", rp).await;
            // nothing is defined for cmd0 in this repository and --fail-on-undefined is not given: an undefined command is skipped, never a failure
            let said_failed = res.as_ref().ok().map(|o| o.failed).unwrap_or(false);
            // what `analyze` says for the same checkpoint and interval
            let ai = analyze::HandleAnalyzeInput { git_opts: git::GitOptions { begin: input.git_opts.begin, end: input.git_opts.end, git_path: "git" }, analyze_input: analyze::AnalyzeInput::new(false, false, true) };
            let an = analyze::handle_analyze(&cfg, &ai, rp).await;
            let verdict = match sel {
                "all" => match (cp_state, res) {
                    ("unreadable", Ok(o)) => Some(format!("the checkpoint file exists but cannot be read: `analyze` says {:?}, yet the run went ahead over {:?} with checkpointed={} (C05)", an.as_ref().err().map(|e| e.to_string()), vf_covered(&o), o.checkpointed)),
                    ("unreadable", Err(_)) => None,
                    (_, Err(e)) => Some(format!("failed: {} (C05)", e)),
                    ("none", Ok(o)) => { if vf_covered(&o) != all || o.checkpointed { Some(format!("there is no checkpoint: the run must cover every configured target and say checkpointed=false; it covered {:?}, checkpointed={} (C19)", vf_covered(&o), o.checkpointed)) } else { None } }
                    (_, Ok(o)) => match an { Ok(a) => { let want: std::collections::BTreeSet<String> = a.targets.iter().cloned().collect(); if vf_covered(&o) != want || !o.checkpointed { Some(format!("`analyze` reports {:?} for the same checkpoint and interval, the run covered {:?} (checkpointed={}) (C05)", want, vf_covered(&o), o.checkpointed)) } else { None } } Err(e) => Some(format!("analyze failed: {} (C05)", e)) },
                },
                "named" => match res { Ok(o) => { if vf_groups(&o) != vec![vec!["target3".to_string()]] { Some(format!("`-t target3` without --deps must run exactly target3; groups {:?} (C05)", vf_groups(&o))) } else { None } } Err(e) => if cp_state == "unreadable" { None } else { Some(format!("failed: {} (C05)", e)) } },
                _ => match res { Ok(o) => { let want = vec![vec!["target1".to_string(), "target2".to_string()], vec!["target3".to_string()]]; if vf_groups(&o) != want { Some(format!("`-t target3 --deps` must run the dependency closure of target3, dependencies first - {:?} - whatever the checkpoint or interval; groups {:?} (C03)", want, vf_groups(&o))) } else { None } } Err(e) => if cp_state == "unreadable" { None } else { Some(format!("failed: {} (C03)", e)) } },
            };
            if said_failed { Some(verdict.map(|v| v + "; also: ").unwrap_or_default() + "no target defines the command vf-no-such-command and --fail-on-undefined was not given, yet the run reports failed=true: undefined commands are skipped (C16) (C05) (C06)") } else { verdict }
        });
        if let Some(p) = r { bad += 1; println!("VF-FAIL {} :: {}", what, p); }
    } } }
    println!("VF-SUMMARY test=handle_run_selection checked={} nontrivial={} bad={}", checked, checked, bad);
}
