#![feature(allocator_api)]
#![allow(unused)]
// unit `checkpoint`: app/checkpoint.rs — the checkpoint store reflects the last successful update (C19)
use vstd::prelude::*;
verus! {
//!include prelude/std_gaps.rs
//!include prelude/keymap.rs
//!include prelude/app.rs
pub mod graph { pub use super::graph_err::GraphError; }
//!type src/core/mod.rs Change
pub struct Change {
    pub name: String,
}
//!end
impl Config { #[verifier::external_body] pub fn get_tracking_path(&self, work_path: &path::Path) -> path::PathBuf { unimplemented!() } }
pub mod core { pub(crate) use super::Config; pub(crate) use super::ChangeProviderKind; }
pub mod tracking {
    use vstd::prelude::*;
    use super::*;
//!type src/core/tracking.rs Checkpoint
pub struct Checkpoint {
    pub path: path::PathBuf,
    pub id: String,
    pub pending: Option<HashMap<String, String>>,
}
//!end
    impl Checkpoint {
        // what the checkpoint file holds for this record: its id and its pending map
        pub open spec fn stored(&self) -> (Seq<char>, Option<Map<Seq<char>, String>>) { (self.id@, match self.pending { Some(m) => Some(m@), None => None }) }
        // ASSUMED (repo function core/tracking.rs + zstd/serde round trip): writes the record as the checkpoint file
        #[verifier::external_body] pub fn save(&mut self, Tracked(w): Tracked<&mut World>) -> (r: Result<(), MonorailError>)
            ensures *final(self) == *old(self), r is Ok ==> final(w).cp_file == Some(old(self).stored()), r is Err ==> final(w).cp_file == old(w).cp_file { unimplemented!() }
    }
    // #[derive(Default)]: empty id, no pending map
    impl Default for Checkpoint { #[verifier::external_body] fn default() -> (r: Self) ensures r.id@ == Seq::<char>::empty(), r.pending is None { unimplemented!() } }
    pub struct Table { pub x: u8 }
    impl Table {
        #[verifier::external_body] pub fn new(p: &path::PathBuf) -> (r: Result<Table, MonorailError>) { unimplemented!() }
        // ASSUMED: reads back exactly what the file holds; TrackingCheckpointNotFound iff there is no file
        #[verifier::external_body] pub fn open_checkpoint(&self, Tracked(w): Tracked<&mut World>) -> (r: Result<Checkpoint, MonorailError>)
            ensures *final(w) == *old(w), r matches Ok(cp) ==> old(w).cp_file == Some(cp.stored()) && cp.path@ == cp_path(),
                r matches Err(e) ==> (e is TrackingCheckpointNotFound <==> old(w).cp_file is None) { unimplemented!() }
        #[verifier::external_body] pub fn new_checkpoint(&self) -> (r: Checkpoint) ensures r.path@ == cp_path(), r.pending is None { unimplemented!() }
    }
}
pub uninterp spec fn cp_path() -> Seq<char>;
pub open spec fn change_names(v: Seq<Change>) -> Seq<Seq<char>> { Seq::new(v.len(), |i: int| v[i].name@) }
pub open spec fn has_name(s: Seq<Seq<char>>, p: Seq<char>) -> bool { exists|i: int| 0 <= i < s.len() && #[trigger] s[i] == p }
// C07: the pending map records, for each of the given paths, the checksum of what is there now
pub open spec fn covers(pending: Option<HashMap<String, String>>, ps: Seq<Seq<char>>, work: Seq<char>) -> bool {
    forall|p: Seq<char>| #![trigger has_name(ps, p)] has_name(ps, p) ==> (pending matches Some(m) && m@.dom().contains(p) && m@[p]@ == file::sha_at(path_join(work, p)))
}
pub mod file {
    use vstd::prelude::*;
    use super::*;
    // the SHA-256 (hex) of what is at the path now; the empty string when there is nothing (ASSUMED: core/file.rs, not verified here)
    pub uninterp spec fn sha_at(full: Seq<char>) -> Seq<char>;
    #[verifier::external_body] pub async fn get_file_checksum(p: &path::PathBuf) -> (r: Result<String, MonorailError>) ensures r matches Ok(s) ==> s@ == sha_at(p@) { unimplemented!() }
}
pub mod git {
    use vstd::prelude::*;
    use super::*;
    pub struct GitOptions<'a> { pub begin: Option<&'a str>, pub end: Option<&'a str>, pub git_path: &'a str }
    pub uninterp spec fn rev_parse(work_path: Seq<char>, reference: Seq<char>) -> Seq<char>;
    // ASSUMED: git is not modelled; `rev-parse <ref>` is an uninterpreted function of the repository
    #[verifier::external_body] pub async fn git_cmd_rev_parse(git_path: &str, work_path: &path::Path, reference: &str) -> (r: Result<String, MonorailError>)
        ensures r matches Ok(s) ==> s@ == rev_parse(work_path@, reference@) { unimplemented!() }
    // what get_git_all_changes reports (characterised in unit git: untracked + tracked differences - settled paths); a function of the
    // repository state, the interval, the checkpoint's commit and its pending map
    pub uninterp spec fn all_changes(work: Seq<char>, begin: Option<&str>, end: Option<&str>, cp_id: Seq<char>, pending: Option<HashMap<String, String>>) -> Seq<Seq<char>>;
    #[verifier::external_body] pub async fn get_git_all_changes<'a>(o: &'a GitOptions<'a>, c: &'a tracking::Checkpoint, work_path: &path::Path) -> (r: Result<Vec<Change>, MonorailError>)
        ensures r matches Ok(v) ==> change_names(v@) == all_changes(work_path@, o.begin, o.end, c.id@, c.pending),
            // ... which depends on the checkpoint only through what its file holds (id, view of the pending map)
            r matches Ok(v) ==> change_names(v@) == all_changes_v(work_path@, o.begin, o.end, c.stored().0, c.stored().1) { unimplemented!() }
    pub uninterp spec fn all_changes_v(work: Seq<char>, begin: Option<&str>, end: Option<&str>, cp_id: Seq<char>, pending: Option<Map<Seq<char>, String>>) -> Seq<Seq<char>>;
}
//!type src/app/checkpoint.rs CheckpointUpdateInput
pub struct CheckpointUpdateInput<'a> {
    pub id: Option<&'a str>,
    pub pending: bool,
    pub git_opts: git::GitOptions<'a>,
}
//!end
//!type src/app/checkpoint.rs CheckpointUpdateOutput
pub struct CheckpointUpdateOutput {
    pub checkpoint: tracking::Checkpoint,
}
//!end
//!type src/app/checkpoint.rs CheckpointShowOutput
pub struct CheckpointShowOutput {
    pub checkpoint: tracking::Checkpoint,
}
//!end
//!type src/app/checkpoint.rs CheckpointDeleteOutput
pub struct CheckpointDeleteOutput {
    pub checkpoint: tracking::Checkpoint,
}
//!end

//!fn src/app/checkpoint.rs checkpoint_update_git rules=R1,R10,R16 props=C19,C07
async fn checkpoint_update_git<'a>(
    cfg: &core::Config,
    input: &CheckpointUpdateInput<'a>,
    work_path: &path::Path,
 Tracked(w): Tracked<&mut World>) -> ⟦(res: ⟧Result<CheckpointUpdateOutput, MonorailError>⟦)⟧
@    ensures
@        // C19: after a successful update the store holds exactly what the update returned
@        res matches Ok(o) ==> final(w).cp_file == Some(o.checkpoint.stored()), // [C19]
@        // C19: without --id the recorded commit is what HEAD resolves to; with --id it is that id
@        res matches Ok(o) ==> o.checkpoint.id@ == (match input.id { Some(id) => id@, None => git::rev_parse(work_path@, "HEAD"@) }), // [C19]
@        // a failed update leaves the store as it was
@        res is Err ==> final(w).cp_file == old(w).cp_file, // [C19]
@        // C07: with --pending, every path that is changed right now (against HEAD, plus untracked) is recorded with the checksum of its
@        // current content - so that, read back through this checkpoint, none of them counts as changed until its content changes again
@        (res is Ok && input.pending) ==> covers(res->Ok_0.checkpoint.pending, git::all_changes(work_path@, input.git_opts.begin, input.git_opts.end, Seq::<char>::empty(), None), work_path@), // [C07]
{
    let tracking = tracking::Table::new(&cfg.get_tracking_path(work_path))?;
    let mut checkpoint = match tracking.open_checkpoint(Tracked(w)) {
        Ok(cp) => cp,
        Err(MonorailError::TrackingCheckpointNotFound(_)) => tracking.new_checkpoint(),
        // TODO: need to set path on checkpoint tho; don't use default
        Err(e) => {
            return Err(e);
        }
    };

    checkpoint.id = match input.id {
        Some(id) => id.to_string(),
        None => git::git_cmd_rev_parse(input.git_opts.git_path, work_path, "HEAD").await?,
    };

    if input.pending {
        // get all changes with default checkpoint, i.e. [HEAD, staging area]
        let pending_changes =
            git::get_git_all_changes(&input.git_opts, &Default::default(), work_path).await?;
        if !pending_changes.is_empty() {
            let mut pending⟦: HashMap<String, String>⟧ = HashMap::new();
@            let ghost pc = change_names(pending_changes@);
            for change in ⟦itc: ⟧pending_changes.iter()
@                invariant w.cp_file == old(w).cp_file,
@                    itc.seq().len() == pending_changes@.len(), forall|q: int| 0 <= q < itc.seq().len() ==> *itc.seq()[q] == pending_changes@[q], pc == change_names(pending_changes@),
@                    forall|q: int| 0 <= q < itc.index@ ==> pending@.dom().contains(#[trigger] pc[q]) && pending@[pc[q]]@ == file::sha_at(path_join(work_path@, pc[q])),
            {
@                let ghost k = itc.index@ as int;
@                let ghost pm = pending@;
                let p = work_path.join(&change.name);

                pending.insert(change.name.clone(), file::get_file_checksum(&p).await?);
@                assert forall|q: int| 0 <= q < k + 1 implies pending@.dom().contains(#[trigger] pc[q]) && pending@[pc[q]]@ == file::sha_at(path_join(work_path@, pc[q])) by {
@                    if q < k { assert(pm.dom().contains(pc[q])); if pc[q] == pc[k] { } }
@                }
            }
            checkpoint.pending = Some(pending);
@            assert(covers(checkpoint.pending, pc, work_path@)) by {
@                assert forall|p: Seq<char>| #![trigger has_name(pc, p)] has_name(pc, p) implies (checkpoint.pending matches Some(m) && m@.dom().contains(p) && m@[p]@ == file::sha_at(path_join(work_path@, p))) by {
@                    let i = choose|i: int| 0 <= i < pc.len() && #[trigger] pc[i] == p; }
@            }
        }
    }
    checkpoint.save(Tracked(w))?;

    Ok(CheckpointUpdateOutput { checkpoint })
}
//!end

//!fn src/app/checkpoint.rs handle_checkpoint_show rules=R1,R10 props=C19
pub(crate) async fn handle_checkpoint_show(
    cfg: &core::Config,
    work_path: &path::Path,
 Tracked(w): Tracked<&mut World>) -> ⟦(res: ⟧Result<CheckpointShowOutput, MonorailError>⟦)⟧
@    ensures
@        *final(w) == *old(w),
@        // C19: show returns what the store holds; it fails when there is no checkpoint
@        res matches Ok(o) ==> old(w).cp_file == Some(o.checkpoint.stored()), // [C19]
@        old(w).cp_file is None ==> res is Err, // [C19]
{
    let tracking = tracking::Table::new(&cfg.get_tracking_path(work_path))?;
    Ok(CheckpointShowOutput {
        checkpoint: tracking.open_checkpoint(Tracked(w))?,
    })
}
//!end

//!fn src/app/checkpoint.rs handle_checkpoint_delete rules=R1,R10 props=C19
pub(crate) async fn handle_checkpoint_delete(
    cfg: &core::Config,
    work_path: &path::Path,
 Tracked(w): Tracked<&mut World>) -> ⟦(res: ⟧Result<CheckpointDeleteOutput, MonorailError>⟦)⟧
@    ensures
@        // C19: after a successful delete there is no checkpoint
@        res is Ok ==> final(w).cp_file is None, // [C19]
@        res is Err ==> final(w).cp_file == old(w).cp_file,
{
    let tracking = tracking::Table::new(&cfg.get_tracking_path(work_path))?;
    let mut checkpoint = tracking.open_checkpoint(Tracked(w))?;
    checkpoint.id = "".to_string();
    checkpoint.pending = None;

    tokio::fs::remove_file(&checkpoint.path, Tracked(w)).await?;

    Ok(CheckpointDeleteOutput { checkpoint })
}
//!end

// history lemma (C19): over any sequence of successful updates, shows and deletes, `show` returns what the most recent
// successful update returned, and fails after a delete - by induction over the three contracts above
pub enum Op { Update((Seq<char>, Option<Map<Seq<char>, String>>)), Delete, Show }
pub open spec fn store_after(ops: Seq<Op>, s0: Option<(Seq<char>, Option<Map<Seq<char>, String>>)>) -> Option<(Seq<char>, Option<Map<Seq<char>, String>>)>
    decreases ops.len()
{
    if ops.len() == 0 { s0 } else { match ops.last() { Op::Update(v) => Some(v), Op::Delete => None, Op::Show => store_after(ops.drop_last(), s0) } }
}
pub open spec fn last_update(ops: Seq<Op>) -> Option<(Seq<char>, Option<Map<Seq<char>, String>>)>
    decreases ops.len()
{
    if ops.len() == 0 { None } else { match ops.last() { Op::Update(v) => Some(v), Op::Delete => None, Op::Show => last_update(ops.drop_last()) } }
}
proof fn lemma_show_is_last_update(ops: Seq<Op>)
    ensures store_after(ops, None) == last_update(ops)
    decreases ops.len()
{ if ops.len() > 0 { lemma_show_is_last_update(ops.drop_last()); } }

// ---- handle_analyze: what `analyze` is told about the checkpoint (C19) ----
//!type src/app/analyze.rs HandleAnalyzeInput
pub struct HandleAnalyzeInput<'a> {
    pub git_opts: git::GitOptions<'a>,
    pub analyze_input: AnalyzeInput,
}
//!end
pub struct AnalyzeInput { pub x: u8 }
pub struct AnalyzeOutput { pub ghost all_targets: bool, pub checkpointed: bool, pub ghost from_changes: Option<Seq<Seq<char>>> }
pub mod core_ix {
    use vstd::prelude::*;
    use super::*;
    pub struct Index { pub x: u8 }
    impl Index { #[verifier::external_body] pub fn new(cfg: &Config, visible: &HashSet<&String>, work_path: &path::Path) -> (r: Result<Index, MonorailError>) { unimplemented!() } }
}
impl Config { #[verifier::external_body] pub fn get_target_path_set(&self) -> HashSet<&String> { unimplemented!() } }
// contract of `analyze` as used here (proved in unit analyze): without a change list the answer is checkpointed=false with every
// configured target; with one it is checkpointed=true
#[verifier::external_body] pub fn analyze(input: &AnalyzeInput, index: &mut core_ix::Index, changes: Option<Vec<Change>>) -> (r: Result<AnalyzeOutput, MonorailError>)
    ensures r matches Ok(o) ==> o.checkpointed == (changes is Some) && (changes is None ==> o.all_targets),
        r matches Ok(o) ==> o.from_changes == (match changes { Some(v) => Some(change_names(v@)), None => None }),
{ unimplemented!() }
//!fn src/app/analyze.rs handle_analyze rules=R1,R10,R12 props=C19,C02,C07,C01,C05,C09
pub(crate) async fn handle_analyze<'a>(
    cfg: &'a core::Config,
    input: &HandleAnalyzeInput<'a>,
    work_path: &'a path::Path,
 Tracked(w): Tracked<&mut World>) -> ⟦(res: ⟧Result<AnalyzeOutput, MonorailError>⟦)⟧
@    ensures
@        // C19: without a checkpoint (never written, deleted, or removed with the output directory) `analyze` reports checkpointed=false
@        // together with every configured target - whatever interval or other options were given; with one, checkpointed=true
@        res matches Ok(o) ==> (old(w).cp_file is None ==> !o.checkpointed && o.all_targets), // [C19]
@        // (C01 / C05: a checkpoint that exists but cannot be read is an error - `analyze` never falls back to "no checkpoint")
@        res matches Ok(o) ==> (old(w).cp_file is Some ==> o.checkpointed), // [C19,C01,C05]
@        // C02 / C07: with a checkpoint, what is analyzed is the change provider's answer for the requested interval and THE STORED
@        // checkpoint - its commit and its pending map, whatever options were given (an explicit --begin replaces the commit, never the
@        // pending map)
@        res matches Ok(o) ==> (old(w).cp_file matches Some(st) ==> o.from_changes == Some(git::all_changes_v(work_path@, input.git_opts.begin, input.git_opts.end, st.0, st.1))), // [C02,C07]
@        final(w).cp_file == old(w).cp_file,
{
    let changes = match cfg.change_provider.r#use {
        ChangeProviderKind::Git => match cfg.change_provider.r#use {
            ChangeProviderKind::Git => {
                let tracking = tracking::Table::new(&cfg.get_tracking_path(work_path))?;
                let checkpoint = match tracking.open_checkpoint(Tracked(w)) {
                    Ok(checkpoint) => Some(checkpoint),
                    Err(MonorailError::TrackingCheckpointNotFound(_)) => None,
                    Err(e) => {
                        return Err(e);
                    }
                };
                // Only check the change provider if a checkpoint is informing us
                match checkpoint {
                    Some(checkpoint) => Some(
                        git::get_git_all_changes(&input.git_opts, &checkpoint, work_path).await?,
                    ),
                    None => None,
                }
            }
        },
    };
    let mut index = core_ix::Index::new(cfg, &cfg.get_target_path_set(), work_path)?;

    analyze(&input.analyze_input, &mut index, changes)
}
//!end
} // verus!
fn main() {}
