// Run-time finder for unit `checkpoint` (child module of app::analyze in a scratch copy of the crate; never the deciding step).
// The git-free part of C19: the checkpoint file reads back exactly what was saved last, whatever it held before; after delete or
// `out delete --all` there is no checkpoint: show fails and analyze reports checkpointed=false with every configured target,
// with or without an explicit interval.
use super::*;
use crate::core::tracking;
use std::collections::HashMap;

fn vf_cfg(wp: &std::path::Path) -> core::Config {
    for d in ["a", "b", "b/c"] { std::fs::create_dir_all(wp.join(d)).unwrap(); std::fs::write(wp.join(d).join("f"), b"x").unwrap(); }
    serde_json::from_str(r#"{"targets":[{"path":"b/c"},{"path":"a"},{"path":"b"}]}"#).unwrap()
}

#[tokio::test]
async fn vf_checkpoint_store() {
    let (mut checked, mut bad) = (0u64, 0u64);
    let td = crate::core::testing::new_testdir().unwrap();
    let wp = td.path();
    let cfg = vf_cfg(wp);
    let table = tracking::Table::new(&cfg.get_tracking_path(wp)).unwrap();
    // 1. a sequence of saves of very different sizes: each read back exactly (C19: `show` returns what the last update stored)
    let long_pending: HashMap<String, String> = (0..400).map(|i| (format!("some/long/path/number/{}/file.rs", i), format!("{:064x}", i * 7919))).collect();
    let records: Vec<(String, Option<HashMap<String, String>>)> = vec![
        ("a".repeat(40), Some(long_pending.clone())), ("b".repeat(40), None), ("c".repeat(7), Some([("x".to_string(), "y".to_string())].into_iter().collect())),
        ("d".repeat(4000), None), ("e".to_string(), None), ("f".repeat(40), Some(long_pending)),
        // highly compressible: hundreds of pending files with one and the same content checksum under similar paths (empty __init__.py, .gitkeep ..)
        ("9".repeat(40), Some((0..600).map(|i| (format!("pkg/module{:04}/__init__.py", i), "e3b0c44298fc1c149afbf4c8996fb92427ae41e4649b934ca495991b7852b855".to_string())).collect())),
        ("0".repeat(64), Some((0..3000).map(|i| (format!("a/{}", i), "0".repeat(64))).collect())),
    ];
    for (k, (id, pending)) in records.iter().enumerate() {
        checked += 1;
        let mut cp = match table.open_checkpoint() { Ok(c) => c, Err(_) => table.new_checkpoint() };
        cp.id = id.clone();
        cp.pending = pending.clone();
        if let Err(e) = cp.save() { bad += 1; println!("VF-FAIL save #{} of a checkpoint (id of {} bytes, {} pending entries) :: failed: {} (C19)", k, id.len(), pending.as_ref().map(|m| m.len()).unwrap_or(0), e); continue; }
        let shown_ok = crate::app::checkpoint::handle_checkpoint_show(&cfg, wp).await.is_ok();
        match table.open_checkpoint() {
            Ok(o) => if o.id != *id || o.pending != *pending || !shown_ok {
                bad += 1; println!("VF-FAIL save #{} of a checkpoint (id of {} bytes, {} pending entries) after a record of another size :: reading it back gives id of {} bytes, {} pending entries (`checkpoint show` ok={}) (C19)", k, id.len(), pending.as_ref().map(|m| m.len()).unwrap_or(0), o.id.len(), o.pending.as_ref().map(|m| m.len()).unwrap_or(0), shown_ok); },
            Err(e) => { bad += 1; println!("VF-FAIL save #{} of a checkpoint (id of {} bytes, {} pending entries) :: it cannot be read back: {} (`checkpoint show` ok={}) (C19)", k, id.len(), pending.as_ref().map(|m| m.len()).unwrap_or(0), e, shown_ok); }
        }
    }
    // 2. no checkpoint (deleted / out delete --all / never written): show fails, analyze says checkpointed=false + every target
    for how in ["checkpoint delete", "out delete --all", "never written"] {
        for (begin, end) in [(None, None), (Some("HEAD~1"), None), (None, Some("HEAD")), (Some("abc"), Some("def"))] {
            checked += 1;
            let td2 = crate::core::testing::new_testdir().unwrap();
            let wp2 = td2.path();
            let cfg2 = vf_cfg(wp2);
            let t2 = tracking::Table::new(&cfg2.get_tracking_path(wp2)).unwrap();
            if how != "never written" { let mut cp = t2.new_checkpoint(); cp.id = "0123456789".repeat(4); cp.save().unwrap(); }
            match how {
                "checkpoint delete" => { crate::app::checkpoint::handle_checkpoint_delete(&cfg2, wp2).await.unwrap(); }
                "out delete --all" => { crate::app::out::out_delete(&wp2.join(&cfg2.out_dir), &crate::app::out::OutDeleteInput { all: true }).unwrap(); }
                _ => {}
            }
            let what = format!("no checkpoint ({}), analyze with begin={:?} end={:?}", how, begin, end);
            if crate::app::checkpoint::handle_checkpoint_show(&cfg2, wp2).await.is_ok() { bad += 1; println!("VF-FAIL {} :: `checkpoint show` still succeeds (C19)", what); continue; }
            let input = HandleAnalyzeInput { git_opts: git::GitOptions { begin, end, git_path: "/nonexistent/git" }, analyze_input: AnalyzeInput::new(false, false, false) };
            match handle_analyze(&cfg2, &input, wp2).await {
                Ok(o) => if o.checkpointed || o.targets != vec!["a".to_string(), "b".to_string(), "b/c".to_string()] { bad += 1; println!("VF-FAIL {} :: reports checkpointed={} targets={:?}; without a checkpoint it must be false with every configured target (C19)", what, o.checkpointed, o.targets); },
                Err(e) => { bad += 1; println!("VF-FAIL {} :: analyze fails: {} (C19)", what, e); }
            }
        }
    }
    println!("VF-SUMMARY test=checkpoint_store checked={} nontrivial={} bad={}", checked, checked, bad);
}

// C09: a configuration whose dependency relation has a cycle is rejected by `analyze --target-groups` with the graph-cycle error -
// whatever the checkpoint says: also when a checkpoint exists and nothing at all has changed since (real git repository).
#[tokio::test]
async fn vf_cyclic_configuration_with_checkpoint() {
    let (mut checked, mut bad) = (0u64, 0u64);
    let g = |dir: &std::path::Path, args: &[&str]| { let o = std::process::Command::new("git").current_dir(dir).args(args).env("GIT_CONFIG_GLOBAL", "/dev/null").env("GIT_CONFIG_SYSTEM", "/dev/null").output().expect("git"); assert!(o.status.success(), "git {:?}", args); };
    for (what, dirty) in [("nothing changed since the checkpoint", false), ("one file changed since the checkpoint", true)] {
        checked += 1;
        let td = crate::core::testing::new_testdir().unwrap();
        let wp = td.path();
        for d in ["x", "y"] { std::fs::create_dir_all(wp.join(d)).unwrap(); std::fs::write(wp.join(d).join("f"), b"x").unwrap(); }
        std::fs::write(wp.join(".gitignore"), "monorail-out/\n").unwrap();
        g(wp, &["init", "-q", "."]); g(wp, &["config", "user.email", "a@b"]); g(wp, &["config", "user.name", "n"]); g(wp, &["add", "-A"]); g(wp, &["commit", "-q", "-m", "c1"]);
        let cfg: core::Config = serde_json::from_str(r#"{"targets":[{"path":"x","uses":["y"]},{"path":"y","uses":["x"]}]}"#).unwrap();
        let up = crate::app::checkpoint::handle_checkpoint_update(&cfg, &crate::app::checkpoint::CheckpointUpdateInput { id: None, pending: false, git_opts: Default::default() }, wp).await;
        if let Err(e) = up { bad += 1; println!("VF-FAIL cyclic configuration, {} :: `checkpoint update` failed in the set-up: {} (C09)", what, e); continue; }
        if dirty { std::fs::write(wp.join("x/f"), b"changed").unwrap(); }
        let input = HandleAnalyzeInput { git_opts: Default::default(), analyze_input: AnalyzeInput::new(false, false, true) };
        match handle_analyze(&cfg, &input, wp).await {
            Ok(o) => { bad += 1; println!("VF-FAIL cyclic configuration (x uses y, y uses x) with a checkpoint, {} :: `analyze --target-groups` succeeds with groups {:?}; it must be rejected with the graph-cycle error (C09)", what, o.target_groups); }
            Err(e) => { if !e.to_string().to_lowercase().contains("cycle") { bad += 1; println!("VF-FAIL cyclic configuration with a checkpoint, {} :: rejected, but not with the graph-cycle error: {} (C09)", what, e); } }
        }
    }
    println!("VF-SUMMARY test=cyclic_configuration_with_checkpoint checked={} nontrivial={} bad={}", checked, checked, bad);
}
