// Bounded stand-in for the command line of `analyze` / `checkpoint update` (integration test in a scratch copy of the crate, drives the REAL
// binary against a repository built with the installed git): the clap definitions and the From<&ArgMatches> conversions are not under a
// Verus contract.  C02: with a checkpoint, `analyze --changes` reports the tracked differences from the checkpoint commit (or from --begin)
// to the working tree (or to --end), plus the untracked paths, sorted and verbatim - for every choice of --begin / --end.
// The oracle does not use `git diff`: it compares the blobs of the commits (ls-tree / cat-file) with each other or with the files on disk.
// BOUND: one history of three commits with a dirty working tree; 6 combinations of --begin / --end.
use std::collections::{BTreeMap, BTreeSet};
use std::process::Command;
const BIN: &str = env!("CARGO_BIN_EXE_monorail");

fn free_port() -> u16 { std::net::TcpListener::bind("127.0.0.1:0").unwrap().local_addr().unwrap().port() }
fn g(dir: &std::path::Path, args: &[&str]) -> Vec<u8> {
    let o = Command::new("git").current_dir(dir).args(args).env("GIT_CONFIG_GLOBAL", "/dev/null").env("GIT_CONFIG_SYSTEM", "/dev/null").output().expect("git");
    assert!(o.status.success(), "git {:?}: {}", args, String::from_utf8_lossy(&o.stderr));
    o.stdout
}
fn nul_list(b: &[u8]) -> Vec<String> { b.split(|c| *c == 0).filter(|s| !s.is_empty()).map(|s| String::from_utf8_lossy(s).to_string()).collect() }
fn tree_of(dir: &std::path::Path, rev: &str) -> BTreeMap<String, Vec<u8>> {
    let mut m = BTreeMap::new();
    for p in nul_list(&g(dir, &["ls-tree", "-r", "-z", "--name-only", rev])) { let c = g(dir, &["cat-file", "blob", &format!("{}:{}", rev, p)]); m.insert(p, c); }
    m
}
fn write(dir: &std::path::Path, p: &str, c: &str) { let f = dir.join(p); std::fs::create_dir_all(f.parent().unwrap()).unwrap(); std::fs::write(f, c).unwrap(); }
fn head(dir: &std::path::Path) -> String { String::from_utf8(g(dir, &["rev-parse", "HEAD"])).unwrap().trim().to_string() }

#[test]
fn vf_cli_analyze_intervals() {
    let td = tempfile::tempdir().unwrap();
    let dir = td.path().to_path_buf();
    g(&dir, &["init", "-q", "."]); g(&dir, &["config", "user.email", "a@b"]); g(&dir, &["config", "user.name", "n"]);
    let (lp, kp) = (free_port(), free_port());
    write(&dir, "Monorail.json", &format!("{{\"targets\":[{{\"path\":\"a\"}},{{\"path\":\"b\"}},{{\"path\":\"c\"}}],\"server\":{{\"log\":{{\"port\":{}}},\"lock\":{{\"port\":{}}}}}}}", lp, if kp == lp { kp + 1 } else { kp }));
    write(&dir, ".gitignore", "monorail-out/\n");
    write(&dir, "a/one.txt", "one\n"); write(&dir, "b/two.txt", "two\n"); write(&dir, "c/three.txt", "three\n");
    g(&dir, &["add", "-A"]); g(&dir, &["commit", "-q", "-m", "c1"]); let c1 = head(&dir);
    write(&dir, "a/one.txt", "one, changed in c2\n"); write(&dir, "b/added in c2.txt", "new\n");
    g(&dir, &["add", "-A"]); g(&dir, &["commit", "-q", "-m", "c2"]); let c2 = head(&dir);
    write(&dir, "c/three.txt", "three, changed in c3\n"); std::fs::remove_file(dir.join("b/two.txt")).unwrap();
    g(&dir, &["add", "-A"]); g(&dir, &["commit", "-q", "-m", "c3"]); let c3 = head(&dir);
    // the working tree after c3: one tracked edit, one untracked file
    write(&dir, "a/one.txt", "one, edited after c3\n"); write(&dir, "c/untracked \u{fc}.txt", "u\n");
    let mono = |args: &[&str]| Command::new(BIN).current_dir(&dir).args(args).output().unwrap();
    let u = mono(&["checkpoint", "update", "-i", &c1]);
    assert!(u.status.success(), "finder set-up: checkpoint update -i c1 failed: {}{}", String::from_utf8_lossy(&u.stdout), String::from_utf8_lossy(&u.stderr));
    let untracked: BTreeSet<String> = nul_list(&g(&dir, &["ls-files", "-z", "--others", "--exclude-standard"])).into_iter().collect();
    let diff = |from: &str, to: Option<&str>| -> BTreeSet<String> {
        let a = tree_of(&dir, from); let mut out = BTreeSet::new();
        match to {
            Some(t) => { let b = tree_of(&dir, t); for p in a.keys().chain(b.keys()) { if a.get(p) != b.get(p) { out.insert(p.clone()); } } }
            None => { let index: BTreeSet<String> = nul_list(&g(&dir, &["ls-files", "-z"])).into_iter().collect();
                for p in a.keys().cloned().chain(index.iter().cloned()) { let disk = std::fs::read(dir.join(&p)).ok(); if a.get(&p) != disk.as_ref() { out.insert(p); } } }
        }
        out
    };
    let (mut checked, mut bad) = (0u64, 0u64);
    // (begin, end): the interval starts at --begin, else at the checkpoint's commit (c1); it ends at --end, else at the working tree
    let cases: Vec<(Option<&str>, Option<&str>)> = vec![(None, None), (None, Some(&c2)), (None, Some(&c3)), (Some(&c2), None), (Some(&c2), Some(&c3)), (Some(&c1), Some(&c2))];
    for (b, e) in cases {
        checked += 1;
        let mut a: Vec<String> = vec!["analyze".into(), "--changes".into()];
        if let Some(b) = b { a.push("--begin".into()); a.push(b.to_string()); }
        if let Some(e) = e { a.push("--end".into()); a.push(e.to_string()); }
        let name = |r: &str| if r == c1 { "c1" } else if r == c2 { "c2" } else { "c3" };
        let what = format!("checkpoint at c1 (history c1, c2, c3; working tree dirty), `monorail analyze --changes{}{}`", b.map(|x| format!(" --begin {}", name(x))).unwrap_or_default(), e.map(|x| format!(" --end {}", name(x))).unwrap_or_default());
        let args: Vec<&str> = a.iter().map(|s| s.as_str()).collect();
        let o = mono(&args);
        let v: Option<serde_json::Value> = serde_json::from_slice(&o.stdout).ok();
        let got: Option<Vec<String>> = v.as_ref().and_then(|v| v["changes"].as_array()).map(|arr| arr.iter().filter_map(|c| c["path"].as_str().map(|s| s.to_string())).collect());
        let mut want: BTreeSet<String> = diff(b.unwrap_or(&c1), e);
        want.extend(untracked.iter().cloned());
        let want: Vec<String> = want.into_iter().collect();
        match got {
            None => { bad += 1; println!("VF-FAIL {} :: no change list printed (exit {:?}): {} (C02)", what, o.status.code(), String::from_utf8_lossy(&o.stdout).chars().take(160).collect::<String>().replace('\n', " ")); }
            Some(gv) => if gv != want { bad += 1; println!("VF-FAIL {} :: reported {:?}, the tracked differences of that interval plus the untracked paths are {:?} (C02)", what, gv, want); }
        }
    }
    println!("VF-SUMMARY test=cli_analyze_intervals checked={} nontrivial={} bad={}", checked, checked, bad);
}
