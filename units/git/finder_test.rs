// Run-time finder for unit `git` (child module of core::git in a scratch copy of the crate; drives the REAL get_git_all_changes against
// real repositories built with the installed git; never the deciding step).
// C02: the reported changes are exactly { tracked paths whose working-tree content differs from the checkpoint commit - a move is a
// deletion plus a creation } + { untracked, not ignored paths } - { paths whose current SHA-256 equals the pending checksum }, verbatim, sorted.
// The oracle does not use `git diff`: it compares the blobs of the commit (ls-tree / cat-file) with the files on disk and the index listing.
use super::*;
use sha2::Digest;
use std::collections::{BTreeMap, BTreeSet, HashMap};
use std::process::Command;

fn g(dir: &std::path::Path, args: &[&str]) -> Vec<u8> {
    let o = Command::new("git").current_dir(dir).args(args).env("GIT_CONFIG_GLOBAL", "/dev/null").env("GIT_CONFIG_SYSTEM", "/dev/null").output().expect("git");
    assert!(o.status.success(), "git {:?}: {}", args, String::from_utf8_lossy(&o.stderr));
    o.stdout
}
fn nul_list(b: &[u8]) -> Vec<String> { b.split(|c| *c == 0).filter(|s| !s.is_empty()).map(|s| String::from_utf8_lossy(s).to_string()).collect() }
fn sha_hex(b: &[u8]) -> String { let mut h = sha2::Sha256::new(); h.update(b); format!("{:x}", h.finalize()) }
// blobs of a commit: path -> content
fn tree_of(dir: &std::path::Path, rev: &str) -> BTreeMap<String, Vec<u8>> {
    let mut m = BTreeMap::new();
    for p in nul_list(&g(dir, &["ls-tree", "-r", "-z", "--name-only", rev])) { let c = g(dir, &["cat-file", "blob", &format!("{}:{}", rev, p)]); m.insert(p, c); }
    m
}
fn write(dir: &std::path::Path, p: &str, c: &str) { let f = dir.join(p); std::fs::create_dir_all(f.parent().unwrap()).unwrap(); std::fs::write(f, c).unwrap(); }

struct Repo { _td: tempfile::TempDir, dir: std::path::PathBuf, c1: String, c2: String }
fn build() -> Repo {
    let td = tempfile::tempdir().unwrap();
    let dir = td.path().to_path_buf();
    g(&dir, &["init", "-q", "."]); g(&dir, &["config", "user.email", "a@b"]); g(&dir, &["config", "user.name", "n"]);
    write(&dir, ".gitignore", "*.tmp\nbuild/\nmonorail-out/\n");
    write(&dir, "a/one.txt", "one\n"); write(&dir, "a/two.txt", "a file with enough content to be recognised as the same file after a move\nline 2\nline 3\n");
    write(&dir, "b/keep.txt", "keep this content as it is, it is long enough for rename detection too\nsecond line\n"); write(&dir, "b/ü ñ.txt", "x\n"); write(&dir, "c/del.txt", "to be deleted\n"); write(&dir, "c/stay.txt", "stay\n"); write(&dir, "c/again.txt", "tracked in c1 only\n");
    g(&dir, &["add", "-A"]); g(&dir, &["commit", "-q", "-m", "c1"]);
    let c1 = String::from_utf8(g(&dir, &["rev-parse", "HEAD"])).unwrap().trim().to_string();
    write(&dir, "a/one.txt", "one changed in c2\n"); write(&dir, "d/added in c2.txt", "new\n"); std::fs::remove_file(dir.join("c/again.txt")).unwrap();   // c/again.txt: removed by c2 ...
    g(&dir, &["add", "-A"]); g(&dir, &["commit", "-q", "-m", "c2"]);
    let c2 = String::from_utf8(g(&dir, &["rev-parse", "HEAD"])).unwrap().trim().to_string();
    // the working tree / index after c2
    write(&dir, "b/ü ñ.txt", "x\ny\n");                                   // modified, unstaged, non-ASCII name with a space
    write(&dir, "d/staged new.txt", "staged\n"); g(&dir, &["add", "d/staged new.txt"]);   // created and staged
    write(&dir, "d/untracked file.txt", "untracked\n");                  // untracked
    write(&dir, "d/\"quoted\" name.txt", "q\n");                           // untracked, a name git would escape
    write(&dir, "c/again.txt", "back again, untracked\n");                 // ... and back as an untracked file: for a checkpoint at c1 it is both a tracked difference and an untracked path
    write(&dir, "b/zz trailing ", "pending\n");                          // untracked, the name ENDS with a blank (a path is reported verbatim)
    write(&dir, "d/ignored.tmp", "ignored\n"); write(&dir, "build/out.bin", "ignored\n");    // ignored
    std::fs::remove_file(dir.join("c/del.txt")).unwrap();                // deleted, unstaged
    g(&dir, &["mv", "a/two.txt", "c/two-moved.txt"]);                     // moved and staged
    std::fs::rename(dir.join("b/keep.txt"), dir.join("b/kept.txt")).unwrap();               // moved, unstaged: deletion + untracked creation
    Repo { _td: td, dir, c1, c2 }
}
fn oracle(r: &Repo, from: &str, to: Option<&str>, pending: &HashMap<String, String>, with_untracked: bool) -> Vec<String> {
    let a = tree_of(&r.dir, from);
    let mut out = BTreeSet::new();
    match to {
        Some(t) => { let b = tree_of(&r.dir, t); for p in a.keys().chain(b.keys()) { if a.get(p) != b.get(p) { out.insert(p.clone()); } } }
        None => {
            let index: BTreeSet<String> = nul_list(&g(&r.dir, &["ls-files", "-z"])).into_iter().collect();
            for p in a.keys().cloned().chain(index.iter().cloned()) { let disk = std::fs::read(r.dir.join(&p)).ok(); if a.get(&p) != disk.as_ref() { out.insert(p); } }
        }
    }
    if with_untracked { for p in nul_list(&g(&r.dir, &["ls-files", "-z", "--others", "--exclude-standard"])) { out.insert(p); } }
    out.into_iter().filter(|p| match pending.get(p) { Some(c) => { let cur = std::fs::read(r.dir.join(p)).map(|b| sha_hex(&b)).unwrap_or_default(); *c != cur }, None => true }).collect()
}

#[tokio::test(flavor = "multi_thread", worker_threads = 2)]
async fn vf_git_changes_exact() {
    let r = build();
    let (mut checked, mut bad) = (0u64, 0u64);
    let none: HashMap<String, String> = HashMap::new();
    // pending maps: some entries equal to the current content (to be subtracted), some stale
    let mut pend: HashMap<String, String> = HashMap::new();
    pend.insert("b/ü ñ.txt".into(), sha_hex(b"x\ny\n")); pend.insert("d/untracked file.txt".into(), sha_hex(b"something else")); pend.insert("c/del.txt".into(), String::new()); pend.insert("d/staged new.txt".into(), sha_hex(b"staged\n"));
    // every entry current, one of them for the path that is listed twice (tracked difference and untracked file)
    let mut pend_all: HashMap<String, String> = HashMap::new();
    pend_all.insert("c/again.txt".into(), sha_hex(b"back again, untracked\n")); pend_all.insert("b/ü ñ.txt".into(), sha_hex(b"x\ny\n")); pend_all.insert("c/del.txt".into(), String::new()); pend_all.insert("d/staged new.txt".into(), sha_hex(b"staged\n"));
    // (description, checkpoint id, pending, begin, end)
    let cases: Vec<(&str, String, Option<&HashMap<String, String>>, Option<String>, Option<String>)> = vec![
        ("checkpoint at HEAD, no pending", r.c2.clone(), None, None, None),
        ("checkpoint at an older commit, no pending", r.c1.clone(), None, None, None),
        ("checkpoint at HEAD with pending checksums", r.c2.clone(), Some(&pend), None, None),
        ("checkpoint at an older commit with pending checksums", r.c1.clone(), Some(&pend), None, None),
        ("checkpoint at an older commit, every pending checksum still current (one of the paths is both a tracked difference and an untracked file)", r.c1.clone(), Some(&pend_all), None, None),
        ("explicit --begin c1 --end c2", r.c2.clone(), None, Some(r.c1.clone()), Some(r.c2.clone())),
        ("explicit --begin c1 (to the working tree)", r.c2.clone(), None, Some(r.c1.clone()), None),
    ];
    for (what, id, pending, begin, end) in cases {
        checked += 1;
        let cp = tracking::Checkpoint { path: r.dir.join("cp"), id: id.clone(), pending: pending.cloned() };
        let opts = GitOptions { begin: begin.as_deref(), end: end.as_deref(), git_path: "git" };
        let got = get_git_all_changes(&opts, &cp, &r.dir).await;
        let from = begin.clone().unwrap_or(id.clone());
        let want = oracle(&r, &from, end.as_deref(), pending.unwrap_or(&none), true);
        match got {
            Ok(v) => { let names: Vec<String> = v.iter().map(|c| c.name.clone()).collect();
                if names != want { bad += 1;
                    let missing: Vec<&String> = want.iter().filter(|p| !names.contains(p)).collect(); let extra: Vec<&String> = names.iter().filter(|p| !want.contains(p)).collect();
                    println!("VF-FAIL repository with a modified, a staged, an untracked, a deleted and two moved files; {} :: missing {:?}, unexpected {:?} (reported {:?}) (C02)", what, missing, extra, names); } }
            Err(e) => { bad += 1; println!("VF-FAIL {} :: get_git_all_changes failed: {} (C02)", what, e); }
        }
    }
    println!("VF-SUMMARY test=git_changes_exact checked={} nontrivial={} bad={}", checked, checked, bad);
}

#[test]
fn vf_pending_fixpoint() {
    // the futures of handle_checkpoint_update / get_git_all_changes are deep in a debug build: run on a thread with a large stack
    let h = std::thread::Builder::new().stack_size(512 << 20).spawn(|| {
        tokio::runtime::Builder::new_multi_thread().worker_threads(2).thread_stack_size(256 << 20).enable_all().build().unwrap().block_on(pending_fixpoint_body())
    }).unwrap();
    h.join().unwrap();
}
async fn pending_fixpoint_body() {
    // C07: right after `checkpoint update --pending` - whatever is modified, staged, untracked, deleted or moved - nothing is reported as
    // changed; a later edit to content the file never had, a new file or a deletion is reported (exactly that path), and a further update
    // clears it again
    let r = build();
    let cfg: crate::core::Config = serde_json::from_str(r#"{"targets":[{"path":"a"},{"path":"b"},{"path":"c"},{"path":"d"}]}"#).unwrap();
    let (mut checked, mut bad) = (0u64, 0u64);
    let table = tracking::Table::new(&cfg.get_tracking_path(&r.dir)).unwrap();
    let update = || async { crate::app::checkpoint::handle_checkpoint_update(&cfg, &crate::app::checkpoint::CheckpointUpdateInput { id: None, pending: true, git_opts: GitOptions { begin: None, end: None, git_path: "git" } }, &r.dir).await };
    let report = || async { let cp = table.open_checkpoint().unwrap(); get_git_all_changes(&GitOptions { begin: None, end: None, git_path: "git" }, &cp, &r.dir).await.map(|v| v.into_iter().map(|c| c.name).collect::<Vec<String>>()) };
    let expect = |what: &str, got: Result<Vec<String>, MonorailError>, want: Vec<&str>, bad: &mut u64| {
        match got { Ok(names) => { let w: Vec<String> = want.iter().map(|s| s.to_string()).collect(); if names != w { *bad += 1; println!("VF-FAIL {} :: reported changes {:?}, expected {:?} (C07)", what, names, w); } }
            Err(e) => { *bad += 1; println!("VF-FAIL {} :: get_git_all_changes failed: {} (C07)", what, e); } }
    };
    checked += 1;
    if let Err(e) = update().await { bad += 1; println!("VF-FAIL `checkpoint update --pending` in a repository with modified, staged, untracked, deleted and moved files :: failed: {} (C07)", e); }
    expect("immediately after `checkpoint update --pending` (dirty repository: modified, staged, untracked, deleted, moved files; names with spaces and non-ASCII characters)", report().await, vec![], &mut bad);
    // later edits, one at a time, cumulative
    let steps: Vec<(&str, Box<dyn Fn()>, Vec<&str>)> = vec![
        ("a tracked file gets new content", Box::new(|| write(&r.dir, "a/one.txt", "brand new content\n")), vec!["a/one.txt"]),
        ("the non-ASCII file that was pending gets new content", Box::new(|| write(&r.dir, "b/ü ñ.txt", "x\ny\nz\n")), vec!["a/one.txt", "b/ü ñ.txt"]),
        ("a new untracked file appears", Box::new(|| write(&r.dir, "c/fresh file.txt", "fresh\n")), vec!["a/one.txt", "b/ü ñ.txt", "c/fresh file.txt"]),
        ("a committed file is deleted", Box::new(|| std::fs::remove_file(r.dir.join("c/stay.txt")).unwrap()), vec!["a/one.txt", "b/ü ñ.txt", "c/fresh file.txt", "c/stay.txt"]),
        ("the moved file gets new content at its new place", Box::new(|| write(&r.dir, "c/two-moved.txt", "edited after the move\n")), vec!["a/one.txt", "b/ü ñ.txt", "c/fresh file.txt", "c/stay.txt", "c/two-moved.txt"]),
        ("the pending file whose name ends with a blank gets new content", Box::new(|| write(&r.dir, "b/zz trailing ", "pending\nand more\n")), vec!["a/one.txt", "b/zz trailing ", "b/ü ñ.txt", "c/fresh file.txt", "c/stay.txt", "c/two-moved.txt"]),
    ];
    for (what, act, want) in steps {
        checked += 1;
        act();
        expect(&format!("after `checkpoint update --pending`, then: {}", what), report().await, want, &mut bad);
    }
    checked += 1;
    if let Err(e) = update().await { bad += 1; println!("VF-FAIL second `checkpoint update --pending` :: failed: {} (C07)", e); }
    // everything that was dirty before the first update and has not been touched since is still dirty against HEAD: the second update
    // must record it again
    expect("immediately after a second `checkpoint update --pending` (files dirty since before the first update untouched in between)", report().await, vec![], &mut bad);
    // an empty file is not a missing file
    let steps2: Vec<(&str, Box<dyn Fn()>, Vec<&str>)> = vec![
        ("a committed file is truncated to zero bytes", Box::new(|| write(&r.dir, "d/added in c2.txt", "")), vec!["d/added in c2.txt"]),
    ];
    for (what, act, want) in steps2 { checked += 1; act(); expect(&format!("after the second update, then: {}", what), report().await, want, &mut bad); }
    checked += 1;
    if let Err(e) = update().await { bad += 1; println!("VF-FAIL third `checkpoint update --pending` :: failed: {} (C07)", e); }
    expect("immediately after a third `checkpoint update --pending` (one file is empty now)", report().await, vec![], &mut bad);
    checked += 1;
    std::fs::remove_file(r.dir.join("d/added in c2.txt")).unwrap();
    expect("after the third update, then: the file that was recorded while EMPTY is deleted", report().await, vec!["d/added in c2.txt"], &mut bad);
    checked += 1;
    if let Err(e) = update().await { bad += 1; println!("VF-FAIL fourth `checkpoint update --pending` :: failed: {} (C07)", e); }
    write(&r.dir, "d/added in c2.txt", "");
    expect("after a fourth update that recorded the file as DELETED, then: it is re-created empty", report().await, vec!["d/added in c2.txt"], &mut bad);
    println!("VF-SUMMARY test=pending_fixpoint checked={} nontrivial={} bad={}", checked, checked, bad);
}

// C19: the id recorded for a reference is what `git rev-parse <reference>` prints when it SUCCEEDS; a reference that does not resolve - an
// unborn HEAD, for which git echoes the word back and exits non-zero; a name that does not exist - is an error, never an id
#[test]
fn vf_rev_parse() {
    let rt = tokio::runtime::Builder::new_multi_thread().worker_threads(2).enable_all().build().unwrap();
    let (mut checked, mut bad) = (0u64, 0u64);
    let td = tempfile::tempdir().unwrap();
    let dir = td.path().to_path_buf();
    g(&dir, &["init", "-q", "."]); g(&dir, &["config", "user.email", "a@b"]); g(&dir, &["config", "user.name", "n"]);
    for reference in ["HEAD", "nosuchref"] {
        checked += 1;
        match rt.block_on(git_cmd_rev_parse("git", &dir, reference)) {
            Ok(id) => { bad += 1; println!("VF-FAIL `git rev-parse {}` in a repository without any commit :: returned the id {:?}; the reference does not resolve (git exits non-zero): this must be an error, not a checkpoint id (C19)", reference, id); }
            Err(_) => {}
        }
    }
    write(&dir, "a/one.txt", "one\n"); g(&dir, &["add", "-A"]); g(&dir, &["commit", "-q", "-m", "c1"]);
    let want = String::from_utf8(g(&dir, &["rev-parse", "HEAD"])).unwrap().trim().to_string();
    for reference in ["HEAD", "nosuchref"] {
        checked += 1;
        match (reference, rt.block_on(git_cmd_rev_parse("git", &dir, reference))) {
            ("HEAD", Ok(id)) if id == want => {}
            ("HEAD", r) => { bad += 1; println!("VF-FAIL `git rev-parse HEAD` after one commit :: {:?}, HEAD resolves to {} (C19)", r.map_err(|e| e.to_string()), want); }
            (_, Ok(id)) => { bad += 1; println!("VF-FAIL `git rev-parse nosuchref` :: returned the id {:?} for a reference that does not exist (C19)", id); }
            (_, Err(_)) => {}
        }
    }
    println!("VF-SUMMARY test=rev_parse checked={} nontrivial={} bad={}", checked, checked, bad);
}
