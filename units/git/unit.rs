#![feature(allocator_api)]
#![allow(unused)]
// unit `git`: core/git.rs — which questions monorail puts to git, and how it combines the answers (C02; the fixpoint part of C07)
use vstd::prelude::*;
verus! {
//!include prelude/std_gaps.rs
//!include prelude/keymap.rs
//!include prelude/app.rs
pub mod graph { pub use super::graph_err::GraphError; }
//!type src/core/mod.rs Change
pub struct Change {
    pub name: String,
}
//!end
pub mod tracking {
    use vstd::prelude::*;
    use super::*;
//!type src/core/tracking.rs Checkpoint
pub struct Checkpoint {
    pub path: path::PathBuf,
    pub id: String,
    pub pending: Option<HashMap<String, String>>,
}
//!end
}
//!type src/core/git.rs GitOptions
pub struct GitOptions<'a> {
    pub begin: Option<&'a str>,
    pub end: Option<&'a str>,
    pub git_path: &'a str,
}
//!end

// ================= ASSUMED: git (the documented behaviour of the two commands, as functions of the repository state) =================
// The repository - commits, index, working tree - does not change during one monorail command; what git prints is a function of the
// argument list and the directory.
pub uninterp spec fn git_stdout(args: Seq<Seq<char>>, work: Seq<char>) -> Seq<u8>;
// tracked paths whose content differs between commit `from` and commit `to` (None: the working tree): created, modified or deleted;
// a moved file is a deletion of the old path and a creation of the new one.  Sorted, verbatim.
pub uninterp spec fn diff_paths(work: Seq<char>, from: Seq<char>, to: Option<Seq<char>>) -> Seq<Seq<char>>;
// untracked paths not excluded by the standard ignore rules.  Sorted, verbatim.
pub uninterp spec fn untracked_paths(work: Seq<char>) -> Seq<Seq<char>>;
pub uninterp spec fn nul_join(p: Seq<Seq<char>>) -> Seq<u8>;      // each path followed by a NUL byte
pub uninterp spec fn parse_nul(b: Seq<u8>) -> Seq<Seq<char>>;     // the non-empty NUL-separated fields, decoded
pub open spec fn sv(a: Seq<&str>) -> Seq<Seq<char>> { Seq::new(a.len(), |i: int| a[i]@) }
// git-diff(1): `--name-only` prints the path of every file that differs; `--no-renames` turns rename detection off, so a moved file
// appears under both its old and its new path; `-z` separates the paths by NUL and prints them verbatim (no quoting, no escaping).
// One revision: that commit against the working tree; two revisions: the first against the second.
pub open spec fn diff_args1(a: Seq<char>) -> Seq<Seq<char>> { seq!["diff"@, "--name-only"@, "--no-renames"@, "-z"@, a] }
pub open spec fn diff_args2(a: Seq<char>, b: Seq<char>) -> Seq<Seq<char>> { seq!["diff"@, "--name-only"@, "--no-renames"@, "-z"@, a, b] }
pub open spec fn others_args() -> Seq<Seq<char>> { seq!["ls-files"@, "--others"@, "--exclude-standard"@, "-z"@] }
pub broadcast axiom fn axiom_git_diff_one(work: Seq<char>, a: Seq<char>)
    ensures #[trigger] git_stdout(diff_args1(a), work) == nul_join(diff_paths(work, a, None));
pub broadcast axiom fn axiom_git_diff_two(work: Seq<char>, a: Seq<char>, b: Seq<char>)
    ensures #[trigger] git_stdout(diff_args2(a, b), work) == nul_join(diff_paths(work, a, Some(b)));
// git-ls-files(1): `--others --exclude-standard` lists the untracked files that are not ignored; `-z` as above.
pub broadcast axiom fn axiom_git_others(work: Seq<char>)
    ensures #[trigger] git_stdout(others_args(), work) == nul_join(untracked_paths(work));
pub broadcast axiom fn axiom_parse_join(p: Seq<Seq<char>>) ensures #[trigger] parse_nul(nul_join(p)) == p;

// ---- the child process: its argument list decides what its stdout will carry ----
pub struct ChildStdout { pub ghost out: Seq<u8> }
pub struct ChildStderr { pub x: u8 }
pub struct Child { pub stdout: Option<ChildStdout>, pub stderr: Option<ChildStderr>, pub ghost ok_out: Seq<u8>, pub ghost exit_ok: bool }
pub mod process { use vstd::prelude::*; pub struct ExitStatus { pub ghost ok: bool } impl ExitStatus { #[verifier::external_body] pub fn success(&self) -> (r: bool) ensures r == self.ok { unimplemented!() } } }
impl ChildStdout {
    #[verifier::external_body] pub async fn read_to_end(&mut self, buf: &mut Vec<u8>) -> (r: Result<usize, std::io::Error>)
        ensures r is Ok ==> final(buf)@ == old(buf)@ + old(self).out { unimplemented!() }
}
impl ChildStderr { #[verifier::external_body] pub async fn read_to_string(&mut self, buf: &mut String) -> (r: Result<usize, std::io::Error>) { unimplemented!() } }
impl Child { #[verifier::external_body] pub async fn wait(&mut self) -> (r: Result<process::ExitStatus, std::io::Error>) ensures r matches Ok(st) ==> st.ok == old(self).exit_ok { unimplemented!() } }
// whether `git <args>` run in `work` exits with status 0 (uninterpreted: a function of the repository)
pub uninterp spec fn git_exit_ok(args: Seq<Seq<char>>, work: Seq<char>) -> bool;
// the text a byte string denotes (String::from_utf8 / read_to_string) and str::trim
pub uninterp spec fn text_of(b: Seq<u8>) -> Seq<char>;
pub uninterp spec fn trimmed(s: Seq<char>) -> Seq<char>;
pub assume_specification [str::trim] (s: &str) -> (r: &str) ensures r@ == trimmed(s@);
impl ChildStdout { #[verifier::external_body] pub async fn read_to_string(&mut self, buf: &mut String) -> (r: Result<usize, std::io::Error>) ensures r is Ok ==> final(buf)@ == old(buf)@ + text_of(old(self).out) { unimplemented!() } }
#[verifier::external_body] pub fn wait_err(e: std::io::Error) -> (r: MonorailError) ensures r is Generic { unimplemented!() }
//!assumed src/core/git.rs get_git_cmd_child sha=e68c7f3bbcde4d18
// ASSUMED (repo function, a tokio Command builder chain): runs `git <args>` in work_path with both outputs piped
#[verifier::external_body] pub(crate) async fn get_git_cmd_child(git_path: &str, work_path: &path::Path, args: &[&str]) -> (r: Result<Child, MonorailError>)
    ensures r matches Ok(c) ==> c.stdout is Some && c.stdout->Some_0.out == git_stdout(sv(args@), work_path@) && c.exit_ok == git_exit_ok(sv(args@), work_path@) { unimplemented!() }
//!assumed src/core/git.rs parse_nul_paths sha=f1d1beaf155fd278
// ASSUMED (repo function, iterator adapters): the non-empty NUL-separated fields as changes, in order
#[verifier::external_body] fn parse_nul_paths(data: &[u8]) -> (r: Vec<Change>) ensures names(r@) == parse_nul(data@) { unimplemented!() }
pub open spec fn names(v: Seq<Change>) -> Seq<Seq<char>> { Seq::new(v.len(), |i: int| v[i].name@) }

pub open spec fn has(s: Seq<Seq<char>>, p: Seq<char>) -> bool { exists|i: int| 0 <= i < s.len() && #[trigger] s[i] == p }
pub uninterp spec fn name_le(a: Seq<char>, b: Seq<char>) -> bool;
pub open spec fn sorted_names(s: Seq<Seq<char>>) -> bool { forall|i: int, j: int| 0 <= i < j < s.len() ==> name_le(#[trigger] s[i], #[trigger] s[j]) }
// the SHA-256 (hex) of what is at <work>/<path> now; the empty string when there is nothing (file.rs: get_file_checksum)
pub uninterp spec fn cur_sha(work: Seq<char>, p: Seq<char>) -> Seq<char>;
// C02 / C07: a path is settled when the checkpoint's pending map records exactly its current checksum
pub open spec fn settled(pending: Option<HashMap<String, String>>, work: Seq<char>, p: Seq<char>) -> bool {
    pending matches Some(m) && m@.dom().contains(p) && m@[p]@ == cur_sha(work, p)
}
// ASSUMED (std): Vec::extend appends in order; slice::sort is a sorted rearrangement
#[verifier::external_body] fn extend_changes(v: &mut Vec<Change>, src: Vec<Change>) ensures names(final(v)@) == names(old(v)@) + names(src@) { unimplemented!() }
pub open spec fn no_dup_names(s: Seq<Seq<char>>) -> bool { forall|i: int, j: int| 0 <= i < j < s.len() ==> #[trigger] s[i] != #[trigger] s[j] }
// ASSUMED (std): Vec::dedup on a sorted vector leaves one of each (equal names are adjacent once sorted); order and membership are kept
#[verifier::external_body] fn dedup_changes(v: &mut Vec<Change>)
    requires sorted_names(names(old(v)@)),
    ensures sorted_names(names(final(v)@)), no_dup_names(names(final(v)@)), forall|p: Seq<char>| #![trigger has(names(final(v)@), p)] has(names(final(v)@), p) <==> has(names(old(v)@), p) { unimplemented!() }
#[verifier::external_body] fn sort_changes(v: &mut Vec<Change>)
    ensures sorted_names(names(final(v)@)), forall|p: Seq<char>| #![trigger has(names(final(v)@), p)] has(names(final(v)@), p) <==> has(names(old(v)@), p) { unimplemented!() }
//!assumed src/core/git.rs get_filtered_changes sha=7f9a521091b74cce
// ASSUMED (repo function, a tokio_stream adapter chain over file::checksum_is_equal): keeps, in order, the changes that are not settled
#[verifier::external_body] pub(crate) async fn get_filtered_changes(changes: Vec<Change>, pending: &HashMap<String, String>, work_path: &path::Path) -> (r: Vec<Change>)
    ensures forall|p: Seq<char>| #![trigger has(names(r@), p)] has(names(r@), p) <==> (has(names(changes@), p) && !(pending@.dom().contains(p) && pending@[p]@ == cur_sha(work_path@, p)))
{ unimplemented!() }
// what the tracked part is computed from: --begin, else the checkpoint's commit, else HEAD against the working tree
pub open spec fn tracked_part(work: Seq<char>, begin: Option<&str>, end: Option<&str>, cp_id: Seq<char>) -> Seq<Seq<char>> {
    match begin {
        Some(b) => diff_paths(work, b@, match end { Some(e) => Some(e@), None => None }),
        None => if cp_id.len() > 0 { diff_paths(work, cp_id, match end { Some(e) => Some(e@), None => None }) } else { diff_paths(work, "HEAD"@, None) },
    }
}

//!fn src/core/git.rs git_cmd_diff_changes rules=R1,R12,R16 props=C02,C07,C01
pub(crate) async fn git_cmd_diff_changes(
    git_path: &str,
    work_path: &path::Path,
    begin: Option<&str>,
    end: Option<&str>,
) -> ⟦(res: ⟧Result<Vec<Change>, MonorailError>⟦)⟧
@    requires begin is Some || end is Some,
@    ensures
@        // C02: git is asked for the names of ALL paths that differ (rename detection off: a move is a deletion plus a creation), printed
@        // verbatim (NUL-separated: never quoted or escaped); one revision means "against the working tree"
@        res matches Ok(v) ==> names(v@) == (match (begin, end) {
@            (Some(b), Some(e)) => diff_paths(work_path@, b@, Some(e@)), (Some(b), None) => diff_paths(work_path@, b@, None),
@            (None, Some(e)) => diff_paths(work_path@, e@, None), (None, None) => Seq::<Seq<char>>::empty() }), // [C02,C07,C01]
{
    let mut args⟦: Vec<&str>⟧ = vec!["diff", "--name-only", "--no-renames", "-z"];
    if let Some(begin) = begin {
        args.push(begin);
    }
    if let Some(end) = end {
        args.push(end);
    }
@    proof {
@        broadcast use axiom_git_diff_one, axiom_git_diff_two, axiom_parse_join;
@        match (begin, end) {
@            (Some(b), Some(e)) => { assert(sv(args@) =~= diff_args2(b@, e@)); },
@            (Some(b), None) => { assert(sv(args@) =~= diff_args1(b@)); },
@            (None, Some(e)) => { assert(sv(args@) =~= diff_args1(e@)); },
@            (None, None) => {},
@        }
@    }
    let mut child = get_git_cmd_child(git_path, work_path, &args).await?;
    let mut stdout_data⟦: Vec<u8>⟧ = Vec::new();
    if let Some(mut stdout) = child.stdout.take() {
        stdout.read_to_end(&mut stdout_data).await?;
    }
@    proof { broadcast use axiom_git_diff_one, axiom_git_diff_two, axiom_parse_join; assert(stdout_data@ =~= git_stdout(sv(args@), work_path@)); }
    let out = parse_nul_paths(&stdout_data);
    let mut stderr_string = String::new();
    if let Some(mut stderr) = child.stderr.take() {
        stderr.read_to_string(&mut stderr_string).await?;
    }
    let status = child.wait().await.map_err(wait_err)?;
    if status.success() {
        Ok(out)
    } else {
        Err(MonorailError::Generic(fmt_opaque()))
    }
}
//!end
//!fn src/core/git.rs git_cmd_other_changes rules=R1,R12,R16 props=C02,C07,C01
pub(crate) async fn git_cmd_other_changes(
    git_path: &str,
    work_path: &path::Path,
) -> ⟦(res: ⟧Result<Vec<Change>, MonorailError>⟦)⟧
@    ensures
@        // C02: every untracked path that the ignore rules do not exclude, verbatim
@        res matches Ok(v) ==> names(v@) == untracked_paths(work_path@), // [C02,C07,C01]
{
@    proof { broadcast use axiom_git_others, axiom_parse_join; }
    let mut child = get_git_cmd_child(
        git_path,
        work_path,
        &["ls-files", "--others", "--exclude-standard", "-z"],
    )
    .await?;
@    proof { assert(sv((["ls-files", "--others", "--exclude-standard", "-z"])@) =~= others_args()); }
    let mut stdout_data⟦: Vec<u8>⟧ = Vec::new();
    if let Some(mut stdout) = child.stdout.take() {
        stdout.read_to_end(&mut stdout_data).await?;
    }
@    proof { broadcast use axiom_git_others, axiom_parse_join; assert(stdout_data@ =~= git_stdout(others_args(), work_path@)); }
    let out = parse_nul_paths(&stdout_data);
    let mut stderr_string = String::new();
    if let Some(mut stderr) = child.stderr.take() {
        stderr.read_to_string(&mut stderr_string).await?;
    }
    let status = child.wait().await.map_err(wait_err)?;
    if status.success() {
        Ok(out)
    } else {
        Err(MonorailError::Generic(fmt_opaque()))
    }
}
//!end
//!fn src/core/git.rs git_cmd_rev_parse rules=R1,R12,R16 props=C19
pub(crate) async fn git_cmd_rev_parse(
    git_path: &str,
    work_path: &path::Path,
    reference: &str,
) -> ⟦(res: ⟧Result<String, MonorailError>⟦)⟧
@    ensures
@        // C19: the commit recorded for a reference is what `git rev-parse <reference>` printed - and only when git SUCCEEDED: a reference
@        // that does not resolve (an unborn HEAD echoes back the word it was given, with a non-zero exit status) is an error, never an id
@        res matches Ok(s) ==> git_exit_ok(seq!["rev-parse"@, reference@], work_path@) && s@ == trimmed(text_of(git_stdout(seq!["rev-parse"@, reference@], work_path@))), // [C19]
{
    let mut child = get_git_cmd_child(git_path, work_path, &["rev-parse", reference]).await?;
@    assert(sv((&["rev-parse", reference])@) =~= seq!["rev-parse"@, reference@]);
    let mut stdout_string = String::new();
    if let Some(mut stdout) = child.stdout.take() {
        stdout.read_to_string(&mut stdout_string).await?;
    }
    let mut stderr_string = String::new();
    if let Some(mut stderr) = child.stderr.take() {
        stderr.read_to_string(&mut stderr_string).await?;
    }
    let status = child.wait().await.map_err(wait_err)?;
    if status.success() {
        Ok(stdout_string.trim().to_string())
    } else {
        Err(MonorailError::Generic(fmt_opaque()))
    }
}
//!end
//!fn src/core/git.rs get_git_diff_changes rules=R1 props=C02,C07,C01
pub(crate) async fn get_git_diff_changes<'a>(
    git_opts: &'a GitOptions<'a>,
    checkpoint: &'a tracking::Checkpoint,
    work_path: &path::Path,
) -> ⟦(res: ⟧Result<Vec<Change>, MonorailError>⟦)⟧
@    ensures
@        // C02: the tracked part is the difference from --begin when given, else from the checkpoint's commit, to --end when given, else
@        // to the working tree; without either, HEAD against the working tree
@        res matches Ok(v) ==> names(v@) == tracked_part(work_path@, git_opts.begin, git_opts.end, checkpoint.id@), // [C02,C07,C01]
{
    let begin = git_opts.begin.or_else(|| ⟦-> (o: Option<&'a str>) ensures checkpoint.id@.len() == 0 ==> o is None, checkpoint.id@.len() > 0 ==> (o matches Some(s) && s@ == checkpoint.id@) {⟧{
        // otherwise, check checkpoint.id; if provided, use that
        if checkpoint.id.is_empty() {
            None
        } else {
            Some(&checkpoint.id)
        }
    }⟦}⟧);
    let end = match begin {
        Some(_) => git_opts.end,
        // if otherwise unspecified, HEAD is our stopping point
        None => Some("HEAD"),
    };
    git_cmd_diff_changes(git_opts.git_path, work_path, begin, end).await
}
//!end
//!fn src/core/git.rs get_git_all_changes rules=R1,R11,R12 props=C02,C07,C01
pub(crate) async fn get_git_all_changes<'a>(
    git_opts: &'a GitOptions<'a>,
    checkpoint: &'a tracking::Checkpoint,
    work_path: &path::Path,
) -> ⟦(res: ⟧Result<Vec<Change>, MonorailError>⟦)⟧
@    ensures
@        // C02: exactly the tracked differences plus the untracked paths, minus the paths whose current checksum is the one the checkpoint
@        // recorded as pending - reported sorted
@        res matches Ok(v) ==> sorted_names(names(v@)), // [C02]
@        // ... each path once: a path that is both a tracked difference and an untracked file (removed by a later commit, back as an
@        // untracked file) is one change
@        res matches Ok(v) ==> no_dup_names(names(v@)), // [C02]
@        res matches Ok(v) ==> forall|p: Seq<char>| #![trigger has(names(v@), p)] has(names(v@), p) <==>
@            ((has(untracked_paths(work_path@), p) || has(tracked_part(work_path@, git_opts.begin, git_opts.end, checkpoint.id@), p)) && !settled(checkpoint.pending, work_path@, p)), // [C02,C07,C01]
{
    let (diff_changes, mut other_changes) = try_join2(get_git_diff_changes(git_opts, checkpoint, work_path).await, git_cmd_other_changes(git_opts.git_path, work_path).await)?;
@    let ghost un = names(other_changes@);
@    let ghost tr = names(diff_changes@);
    extend_changes(&mut other_changes, diff_changes);
@    let ghost all = names(other_changes@);
@    assert forall|p: Seq<char>| has(all, p) <==> (has(un, p) || has(tr, p)) by {
@        if has(un, p) { let i = choose|i: int| 0 <= i < un.len() && #[trigger] un[i] == p; assert(all[i] == p); }
@        if has(tr, p) { let i = choose|i: int| 0 <= i < tr.len() && #[trigger] tr[i] == p; assert(all[un.len() + i] == p); }
@        if has(all, p) { let i = choose|i: int| 0 <= i < all.len() && #[trigger] all[i] == p; if i < un.len() { assert(un[i] == p); } else { assert(tr[i - un.len()] == p); } }
@    }
    let mut filtered_changes = {
        match &checkpoint.pending {
            Some(pending) => {
                if !pending.is_empty() {
                    get_filtered_changes(other_changes, pending, work_path).await
                } else {
                    other_changes
                }
            }
            None => other_changes,
        }
    };
@    assert forall|p: Seq<char>| #![trigger has(names(filtered_changes@), p)] has(names(filtered_changes@), p) <==> (has(all, p) && !settled(checkpoint.pending, work_path@, p)) by { }
    sort_changes(&mut filtered_changes);
    dedup_changes(&mut filtered_changes);
    Ok(filtered_changes)
}
//!end

// ================= C07: the fixpoint law, as lemmas over the two contracts =================
// `checkpoint update --pending` (unit checkpoint: checkpoint_update_git) records, for every path get_git_all_changes reports with the DEFAULT
// checkpoint, the checksum of its current content (`covers`).  get_git_all_changes (above) reports a path iff it is untracked or differs
// and is not settled.  Hence, as long as the repository does not change and the checkpoint names the commit HEAD resolves to:
pub proof fn lemma_nothing_changed_after_update(work: Seq<char>, id: Seq<char>, pending: Option<HashMap<String, String>>, seen_by_update: Seq<Seq<char>>, seen_after: Seq<Seq<char>>)
    requires
        // get_git_all_changes' postcondition, default checkpoint (empty id, no pending map): what the update saw
        forall|p: Seq<char>| #![trigger has(seen_by_update, p)] has(seen_by_update, p) <==> ((has(untracked_paths(work), p) || has(tracked_part(work, None, None, Seq::<char>::empty()), p)) && !settled(None, work, p)),
        // checkpoint_update_git's postcondition [C07]: everything it saw is recorded with its current checksum
        forall|p: Seq<char>| #![trigger has(seen_by_update, p)] has(seen_by_update, p) ==> settled(pending, work, p),
        // the new checkpoint names the commit HEAD resolved to (ASSUMED of git: a commit id and the name that resolves to it denote one tree)
        id.len() > 0, diff_paths(work, id, None) == diff_paths(work, "HEAD"@, None),
        // get_git_all_changes' postcondition, new checkpoint: what analyze / run see afterwards
        forall|p: Seq<char>| #![trigger has(seen_after, p)] has(seen_after, p) <==> ((has(untracked_paths(work), p) || has(tracked_part(work, None, None, id), p)) && !settled(pending, work, p)),
    ensures
        // C07: immediately after `checkpoint update --pending` nothing is reported as changed
        seen_after.len() == 0,
{
    if seen_after.len() > 0 {
        let p = seen_after[0];
        assert(has(seen_after, p));
        assert(has(untracked_paths(work), p) || has(tracked_part(work, None, None, Seq::<char>::empty()), p));
        assert(has(seen_by_update, p));
    }
}
// ... and a path whose content afterwards becomes something the checkpoint did not record is reported again as soon as git lists it
pub proof fn lemma_edit_reappears(work: Seq<char>, id: Seq<char>, pending: Option<HashMap<String, String>>, seen_after: Seq<Seq<char>>, p: Seq<char>)
    requires
        forall|q: Seq<char>| #![trigger has(seen_after, q)] has(seen_after, q) <==> ((has(untracked_paths(work), q) || has(tracked_part(work, None, None, id), q)) && !settled(pending, work, q)),
        has(untracked_paths(work), p) || has(tracked_part(work, None, None, id), p),
        pending matches Some(m) ==> (m@.dom().contains(p) ==> m@[p]@ != cur_sha(work, p)),
    ensures has(seen_after, p)
{ }
} // verus!
fn main() {}
