#![feature(allocator_api)]
#![allow(unused)]
// unit `render`: core/graph.rs Dag::render_dotfile - the dot file holds exactly one node line per target and one edge line per dependency (C10)
use vstd::prelude::*;
verus! {
//!include prelude/std_gaps.rs
//!include prelude/keymap.rs
//!include prelude/app.rs
pub mod graph { pub use super::graph_err::GraphError; }
use graph_err::GraphError;
#[verifier::external_body] pub fn dot_io(e: std::io::Error) -> (r: GraphError) ensures r is DotFileIo { unimplemented!() }
//!type src/core/graph.rs CycleState
@#[derive(PartialEq, Eq, Structural)]
pub enum CycleState {
    Unknown,
    Yes(usize),
    No,
}
//!end
//!type src/core/graph.rs Dag
pub struct Dag {
    // Adjacency list storing dependencies.
    pub adj_list: Vec<Vec<usize>>,
    pub visibility: Vec<bool>,
    pub cycle_state: CycleState,

    pub label2node: HashMap<String, usize>,
    pub node2label: HashMap<usize, String>,
}
//!end
// the text of one node line / one edge line (format!): functions of the numbers and the label
pub uninterp spec fn node_line(n: int, label: Seq<char>) -> Seq<char>;
pub uninterp spec fn edge_line(a: int, b: int) -> Seq<char>;
#[verifier::external_body] pub fn push_node_line(s: &mut String, n: usize, label: &String) ensures final(s)@ == old(s)@ + node_line(n as int, label@) { unimplemented!() }
#[verifier::external_body] pub fn push_edge_line(s: &mut String, a: usize, b: usize) ensures final(s)@ == old(s)@ + edge_line(a as int, b as int) { unimplemented!() }
#[verifier::external_body] pub fn push_char(s: &mut String, c: char) ensures final(s)@ == old(s)@.push(c) { unimplemented!() }
// the node lines of nodes 0..n, the edge lines of one row, of rows 0..n - in that order
pub open spec fn nodes_text(labels: Map<usize, String>, n: int) -> Seq<char> decreases n { if n <= 0 { Seq::empty() } else { nodes_text(labels, n - 1) + node_line(n - 1, labels[(n - 1) as usize]@) } }
pub open spec fn row_text(a: int, row: Seq<usize>, k: int) -> Seq<char> decreases k { if k <= 0 { Seq::empty() } else { row_text(a, row, k - 1) + edge_line(a, row[k - 1] as int) } }
pub open spec fn edges_text(adj: Seq<Vec<usize>>, n: int) -> Seq<char> decreases n { if n <= 0 { Seq::empty() } else { edges_text(adj, n - 1) + row_text(n - 1, adj[n - 1]@, adj[n - 1]@.len() as int) } }
pub open spec fn dot_text(d: Dag) -> Seq<char> {
    "digraph DAG {\n"@ + "// Target nodes\n"@ + nodes_text(d.node2label@, d.adj_list@.len() as int) + "// Uses edges\n"@ + edges_text(d.adj_list@, d.adj_list@.len() as int)
        + "node [shape=circle, style=filled, color=lightblue];\n"@ + "edge [color=gray];\n"@ + seq!['}']
}
impl Dag {
    // ASSUMED here (proved in unit graph): the label of a node
    #[verifier::external_body] pub fn get_label_by_node(&self, node: &usize) -> (r: Result<&String, GraphError>)
        ensures r matches Ok(l) ==> self.node2label@.dom().contains(*node) && *l == self.node2label@[*node] { unimplemented!() }
//!fn src/core/graph.rs Dag::render_dotfile rules=R3,R4,R10,R12,R17 props=C10
    pub(crate) fn render_dotfile(&self, p: &path::Path, Tracked(w): Tracked<&mut World>) -> ⟦(res: ⟧Result<(), GraphError>⟦)⟧
@        requires recoverable(*old(w)), p@ != old(w).ptr,
@        ensures
@            // C10: after a successful render the file holds exactly the rendering of THIS graph - one node line per target, one edge line per
@            // dependency, in order, and nothing else: whatever the file held before (a longer, older rendering leaves nothing behind)
@            res is Ok ==> final(w).fs.dom().contains(p@) && final(w).fs[p@] == str_bytes(dot_text(*self)), // [C10]
    {
        let mut f = fs::OpenOptions::new()
            .create(true)
            .write(true)
            .truncate(true)
            .open(p, Tracked(w))
            .map_err(dot_io)?;
        let mut s = String::new();
        s.push_str("digraph DAG {\n");

        // emit nodes and labels
        s.push_str("// Target nodes\n");
        for n in 0..self.adj_list.len()
@            invariant s@ == "digraph DAG {\n"@ + "// Target nodes\n"@ + nodes_text(self.node2label@, n as int),
        {
            push_node_line(&mut s, n, self.get_label_by_node(&n)?);
        }
        // emit edges
        s.push_str("// Uses edges\n");
@        let ghost pre = "digraph DAG {\n"@ + "// Target nodes\n"@ + nodes_text(self.node2label@, self.adj_list@.len() as int) + "// Uses edges\n"@;
        for n1 in 0..self.adj_list.len()
@            invariant s@ == pre + edges_text(self.adj_list@, n1 as int),
        { let nodes = &self.adj_list[n1];
            for n2 in ⟦it2: ⟧nodes.iter()
@                invariant s@ == pre + edges_text(self.adj_list@, n1 as int) + row_text(n1 as int, nodes@, it2.index@ as int),
            {
                push_edge_line(&mut s, n1, *n2);
            }
        }

        // style
        s.push_str("node [shape=circle, style=filled, color=lightblue];\n");
        s.push_str("edge [color=gray];\n");
        push_char(&mut s, '}');

        // write string to file
@        assert(s@ =~= dot_text(*self));
@        assert(w.fs[p@] =~= Seq::<u8>::empty() && f.pos == 0 && f.p == p@);
        f.write_all(s.as_bytes(), Tracked(w)).map_err(dot_io)?;
@        assert(fs::overwrite(Seq::<u8>::empty(), 0, str_bytes(s@)) =~= str_bytes(s@));
        Ok(())
    }
//!end
}
} // verus!
fn main() {}
