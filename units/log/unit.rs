#![feature(allocator_api)]
#![allow(unused)]
// unit `log`: app/log.rs log plumbing under contract (C08, C15, C20; shutdown protocol for C06)
use vstd::prelude::*;
verus! {
//!include prelude/std_gaps.rs
//!include prelude/keymap.rs
//!include prelude/app.rs
pub mod graph { pub use super::graph_err::GraphError; }
use tokio::sync::mpsc;

//!const src/app/log.rs FLUSH_INTERVAL_MS
const FLUSH_INTERVAL_MS: u64 = 500_u64;
//!end

//!type src/app/log.rs CompressRequest
pub enum CompressRequest {
    Data(usize, sync::Arc<Vec<Vec<u8>>>),
    End(usize),
    Shutdown,
}
//!end
// what the compressor thread does with a request (ASSUMED here; the thread body is Compressor::run): Data(i, d) appends
// the bytes of d, in order, to encoder i of that thread and to nothing else; End / Shutdown append nothing
impl ChanMsg for CompressRequest {
    closed spec fn apply(&self, chan: int, sink: Map<(int, int), Seq<u8>>) -> Map<(int, int), Seq<u8>> {
        match self {
            CompressRequest::Data(i, d) => sink.insert((chan, *i as int), sink[(chan, *i as int)] + flat((**d)@)),
            _ => sink,
        }
    }
}
//!type src/app/log.rs CompressorClient
pub struct CompressorClient {
    pub file_name: String,
    pub encoder_index: usize,
    pub req_tx: mpsc::Sender<CompressRequest>,
}
//!end
//!type src/app/log.rs LogServerClient
pub struct LogServerClient {
    pub stream: sync::Arc<tokio::sync::Mutex<tokio::net::TcpStream>>,
    pub args: server::LogFilterInput,
}
//!end

impl CompressorClient {
    spec fn key(&self) -> (int, int) { (self.req_tx.chan, self.encoder_index as int) }
//!fn src/app/log.rs CompressorClient::data rules=R10 props=C08,C15
    pub(crate) async fn data(&self, data: sync::Arc<Vec<Vec<u8>>>, Tracked(w): Tracked<&mut World>) -> ⟦(r: ⟧Result<(), MonorailError>⟦)⟧
@        ensures
@            r is Ok ==> final(w).sink == old(w).sink.insert(self.key(), old(w).sink[self.key()] + flat((*data)@)) && final(w).cc_errs == old(w).cc_errs,
@            r is Err ==> final(w).sink == old(w).sink && final(w).cc_errs == old(w).cc_errs + 1,
@            final(w).tail == old(w).tail, final(w).tail_locks == old(w).tail_locks,
    {
        self.req_tx
            .send(CompressRequest::Data(self.encoder_index, data), Tracked(w))
            .await
            .map_err(MonorailError::from)
    }
//!end

//!fn src/app/log.rs CompressorClient::end rules=R10 props=C08,C15
    pub(crate) async fn end(&self, Tracked(w): Tracked<&mut World>) -> ⟦(r: ⟧Result<(), MonorailError>⟦)⟧
@        ensures
@            final(w).sink == old(w).sink, final(w).tail == old(w).tail, final(w).tail_locks == old(w).tail_locks,
@            r is Ok ==> final(w).cc_errs == old(w).cc_errs,
@            r is Err ==> final(w).cc_errs == old(w).cc_errs + 1,
    {
        self.req_tx
            .send(CompressRequest::End(self.encoder_index), Tracked(w))
            .await
            .map_err(MonorailError::from)
    }
//!end
//!fn src/app/log.rs CompressorClient::shutdown rules=R10 props=C06
    pub(crate) async fn shutdown(&self, Tracked(w): Tracked<&mut World>) -> ⟦(r: ⟧Result<(), MonorailError>⟦)⟧
@        ensures
@            // C06: asking an already stopped compressor thread to stop is not a failure (several clients share a thread)
@            r is Ok, // [C06]
@            final(w).sink == old(w).sink, final(w).tail == old(w).tail, final(w).trace == old(w).trace,
    {
        // Every client of a compressor thread sends Shutdown, and the thread exits
        // on the first one it receives. A closed channel therefore means the thread
        // has already shut down, which is the state being asked for.
        let _ = self.req_tx.send(CompressRequest::Shutdown, Tracked(w)).await;
        Ok(())
    }
//!end
}

impl LogServerClient {
//!fn src/app/log.rs LogServerClient::data rules=R1,R10 props=C20,C15
    pub(crate) async fn data(
        &mut self,
        data: sync::Arc<Vec<Vec<u8>>>,
        header: &[u8],
    Tracked(w): Tracked<&mut World>) -> ⟦(r: ⟧Result<(), MonorailError>⟦)⟧
@        ensures
@            // C20: one header followed by the lines, contiguous on the connection, under exactly one hold of the connection mutex
@            r is Ok ==> final(w).tail == old(w).tail + header@ + flat((*data)@), // [C20]
@            final(w).tail_locks == old(w).tail_locks + 1, // [C20]
@            // C15: the listener side never touches the stored logs or the compressor channel
@            final(w).sink == old(w).sink, final(w).cc_errs == old(w).cc_errs, // [C15]
    {
        let mut guard = self.stream.lock(Tracked(w)).await;
        guard.write_all(header, Tracked(w)).await.map_err(MonorailError::from)?;
@        let ghost t0 = old(w).tail + header@;
        for v in ⟦it: ⟧data.iter()
@            invariant
@                it.seq().len() == (*data)@.len(), forall|j: int| 0 <= j < (*data)@.len() ==> *it.seq()[j] == (*data)@[j],
@                w.tail == t0 + flat((*data)@.take(it.index@ as int)),
@                w.tail_locks == old(w).tail_locks + 1, w.sink == old(w).sink, w.cc_errs == old(w).cc_errs,
        {
@            proof { let k = it.index@ as int; assert((*data)@.take(k + 1) =~= (*data)@.take(k).push((*data)@[k])); lemma_flat_push((*data)@.take(k), (*data)@[k]); }
            guard.write_all(v, Tracked(w)).await.map_err(MonorailError::from)?;
        }
@        proof { assert((*data)@.take((*data)@.len() as int) =~= (*data)@); }
        Ok(())
    }
//!end
}

//!fn src/app/log.rs is_log_allowed props=C20,C08
pub(crate) fn is_log_allowed(
    targets: &HashSet<String>,
    commands: &HashSet<String>,
    target: &str,
    command: &str,
) -> ⟦(r: ⟧bool⟦)⟧
@    ensures
@        // C20: a task is admitted iff its target and its command pass the listener's filters (an empty filter admits all)
@        r == ((targets@ =~= Set::<Seq<char>>::empty() || targets@.contains(target@)) && (commands@ =~= Set::<Seq<char>>::empty() || commands@.contains(command@))), // [C20,C08]
{
    let target_allowed = targets.is_empty() || targets.contains(target);
    let command_allowed = commands.is_empty() || commands.contains(command);
    target_allowed && command_allowed
}
//!end

//!fn src/app/log.rs process_bufs rules=R1,R10,R11 props=C15,C08,C20
async fn process_bufs(
    header: &str,
    bufs: Vec<Vec<u8>>,
    compressor_client: &CompressorClient,
    log_stream_client: &mut Option<LogServerClient>,
    should_end: bool,
 Tracked(w): Tracked<&mut World>) -> ⟦(res: ⟧Result<(), MonorailError>⟦)⟧
@    requires old(w).sink.dom().contains(compressor_client.key()),
@    ensures
@        // C15: the outcome depends on the compressor side only: it fails iff a compressor-channel send failed, whatever the listener does
@        res is Ok <==> final(w).cc_errs == old(w).cc_errs, // [C15]
@        final(w).cc_errs >= old(w).cc_errs,
@        // C08 / C15: exactly the given bytes reach this task's encoder, nothing reaches any other, with or without a listener
@        res is Ok ==> final(w).sink == old(w).sink.insert(compressor_client.key(), old(w).sink[compressor_client.key()] + flat(bufs@)), // [C08,C15]
@        forall|k: (int, int)| k != compressor_client.key() ==> final(w).sink[k] == old(w).sink[k] && (final(w).sink.dom().contains(k) <==> old(w).sink.dom().contains(k)), // [C08]
@        old(w).sink.dom().contains(compressor_client.key()) ==> final(w).sink.dom().contains(compressor_client.key()),
@        // C20 (ghost bookkeeping): w.midline records whether any flush carried a block that does not end at a line boundary
@        res is Ok ==> final(w).midline == (old(w).midline || !all_lines(bufs@)),
{
@    let ghost key = compressor_client.key();
@    let ghost all_bufs = bufs@;
    if !bufs.is_empty() {
@        let ghost b0 = bufs@;
        let bufs_arc = sync::Arc::new(bufs);
        let bufs_arc2 = bufs_arc.clone();
        // Streaming to a `log tail` listener is optional: if the listener has gone
        // away, that must not change the outcome of the task or its stored logs.
        let (streaming, _) = try_join2({
            match log_stream_client {
                Some(lsc) => {
                    Ok::<bool, MonorailError>(lsc.data(bufs_arc2, header.as_bytes(), Tracked(w)).await.is_ok())
                }
                None => Ok(true),
            }
        }, { compressor_client.data(bufs_arc, Tracked(w)).await })?;
        if !streaming {
            *log_stream_client = None;
        }
@        assert(w.sink =~= old(w).sink.insert(key, old(w).sink[key] + flat(b0)));
@    } else {
@        assert(flat(bufs@) =~= Seq::<u8>::empty());
@        assert(old(w).sink[key] + flat(bufs@) =~= old(w).sink[key]);
@        assert(w.sink =~= old(w).sink.insert(key, old(w).sink[key] + flat(bufs@)));
    }
    if should_end {
        compressor_client.end(Tracked(w)).await?;
    }

@    proof { w.midline = old(w).midline || !all_lines(all_bufs); }
    Ok(())
}
//!end

//!fn src/app/log.rs process_reader rules=R1,R7,R10,R11,R17 props=C08,C20,C15
@#[verifier::exec_allows_no_decreases_clause]
pub(crate) async fn process_reader<R>(
    reader__0: tokio::io::BufReader<R>,
    compressor_client: CompressorClient,
    header: String,
    log_stream_client__0: Option<LogServerClient>,
    token: sync::Arc<tokio_util::sync::CancellationToken>,
 Tracked(w): Tracked<&mut World>) -> ⟦(res: ⟧Result<(), MonorailError>⟦)⟧
where
    R: tokio::io::AsyncRead + Unpin,
@    requires
@        reader__0.consumed.len() == 0, old(w).sink.dom().contains(compressor_client.key()),
@    ensures
@        // C08: when the stream was read to its end, exactly its bytes, in order, were handed to this task's encoder -
@        // whatever the chunking, pauses across flush ticks, missing trailing newline or binary content
@        // (C15: with or without a listener, whatever the listener's filters or fate - log_stream_client__0 is unconstrained)
@        res is Ok ==> final(w).sink[compressor_client.key()] == old(w).sink[compressor_client.key()] + reader__0.rest, // [C08,C15]
@        // C08 isolation: nothing is ever handed to another task's encoder
@        forall|k: (int, int)| k != compressor_client.key() ==> final(w).sink[k] == old(w).sink[k], // [C08]
@        // C20: for newline-terminated output every flush - in particular every timer flush - hands the listener whole lines only, so
@        // each block ends at a line boundary and the next header on the shared connection starts a line of its own
@        (res is Ok && nl_terminated(reader__0.rest) && !old(w).midline) ==> !final(w).midline, // [C20]
{ let mut reader = reader__0; let mut log_stream_client = log_stream_client__0;
@    let ghost key = compressor_client.key();
@    let ghost stream = reader.rest;
@    let ghost s0 = old(w).sink[key];
    let mut interval = tokio::time::interval(tokio::time::Duration::from_millis(FLUSH_INTERVAL_MS));
    // The line being read. When the flush timer wins the select below, the read
    // is dropped but the bytes it already consumed have been appended here, so
    // the buffer must outlive the flush and be continued by the next read.
    let mut buf⟦: Vec<u8>⟧ = Vec::new();
@    proof { lemma_buf_at_end_empty(buf@, reader.consumed); lemma_cons_init(s0, stream); assert(reader.consumed =~= Seq::<u8>::empty()); assert(buf@ =~= Seq::<u8>::empty()); }
    loop
@        invariant
@            key == compressor_client.key(), w.sink.dom().contains(key),
@            s0 == old(w).sink[key], stream == reader__0.rest,
@            // C08: every byte consumed from the stream is in the encoder or in the line buffer, in order
@            conserved(w.sink[key], Seq::<u8>::empty(), buf@, s0, reader.consumed, reader.rest, stream), // [C08,C15]
@            forall|k: (int, int)| k != key ==> w.sink[k] == old(w).sink[k],
@            buf_at_end(buf@, reader.consumed),
@            (nl_terminated(stream) && !old(w).midline) ==> !w.midline,
    {
        let mut bufs⟦: Vec<Vec<u8>>⟧ = Vec::new();
@        proof { lemma_all_lines_empty(bufs@); lemma_flat_empty(bufs@); }
        loop
@            invariant_except_break
@                conserved(w.sink[key], flat(bufs@), buf@, s0, reader.consumed, reader.rest, stream), // [C08,C15]
@            invariant
@                key == compressor_client.key(), w.sink.dom().contains(key), s0 == old(w).sink[key], stream == reader__0.rest,
@                forall|k: (int, int)| k != key ==> w.sink[k] == old(w).sink[k],
@                buf_at_end(buf@, reader.consumed),
@                (nl_terminated(stream) && !old(w).midline) ==> !w.midline,
@                nl_terminated(stream) ==> all_lines(bufs@), // [C20] buffers waiting for a flush are whole lines
@            ensures
@                conserved(w.sink[key], Seq::<u8>::empty(), buf@, s0, reader.consumed, reader.rest, stream),
        {
@            let ghost c0 = reader.consumed;
@            let ghost r0 = reader.rest;
@            let ghost b0 = buf@;
@            let ghost k0 = w.sink[key];
            match select_choice(3) {
0 => { let _ = token.cancelled().await; reader.read_until_dropped(b'\n', &mut buf);
@                    proof { lemma_cons_read(k0, flat(bufs@), b0, buf@, s0, c0, reader.consumed, r0, reader.rest, stream); lemma_after_read(b0, buf@, c0, reader.consumed); }
                    if !buf.is_empty() {
                        bufs.push(mem::take(&mut buf));
                    }
                    process_bufs(&header, bufs, &compressor_client, &mut log_stream_client, true, Tracked(w)).await?;
                    return Err(MonorailError::TaskCancelled); }
1 => { let res = reader.read_until(b'\n', &mut buf).await;
@                    proof { lemma_cons_read(k0, flat(bufs@), b0, buf@, s0, c0, reader.consumed, r0, reader.rest, stream); lemma_after_read(b0, buf@, c0, reader.consumed); }
                    match res {
                        Ok(0) => {
                            if !buf.is_empty() {
@                                let ghost ob = bufs@;
@                                let ghost line = buf@;
@                                proof { if nl_terminated(stream) { lemma_cons_stream(k0, flat(bufs@), buf@, s0, reader.consumed, reader.rest, stream); lemma_line_at_eof(buf@, reader.consumed, reader.rest, stream); } }
                                bufs.push(mem::take(&mut buf));
@                                proof { lemma_cons_push(k0, ob, bufs@[bufs@.len() - 1], bufs@, buf@, s0, reader.consumed, reader.rest, stream); if nl_terminated(stream) { lemma_all_lines_push(ob, bufs@[bufs@.len() - 1]); } }
                            }
@                            let ghost pend = flat(bufs@);
@                            let ghost lastbuf = buf@;
                            process_bufs(&header, bufs, &compressor_client, &mut log_stream_client, true, Tracked(w)).await?;
@                            proof { lemma_cons_done(k0, pend, lastbuf, s0, reader.consumed, reader.rest, stream); }
                            return Ok(());
                        },
                        Ok(_n) => {
@                            let ghost ob = bufs@;
@                            let ghost line = buf@;
@                            // a completed read ends with the newline - or with the end of the stream, which is a newline for newline-terminated output
@                            assert(nl_terminated(stream) ==> line.len() > 0 && line.last() == 10u8) by { if nl_terminated(stream) && reader.rest.len() == 0 { lemma_cons_stream(k0, flat(bufs@), buf@, s0, reader.consumed, reader.rest, stream); lemma_line_at_eof(line, reader.consumed, reader.rest, stream); } }
                            bufs.push(mem::take(&mut buf));
@                            proof { lemma_cons_push(k0, ob, bufs@[bufs@.len() - 1], bufs@, buf@, s0, reader.consumed, reader.rest, stream); if nl_terminated(stream) { lemma_all_lines_push(ob, bufs@[bufs@.len() - 1]); } lemma_buf_at_end_empty(buf@, reader.consumed); }
                        }
                        Err(e) => {
                            if !buf.is_empty() {
                                bufs.push(mem::take(&mut buf));
                            }
                            process_bufs(&header, bufs, &compressor_client, &mut log_stream_client, true, Tracked(w)).await?;
                            return Err(MonorailError::from(e));
                        }
                    } }
_ => { let _ = interval.tick().await; reader.read_until_dropped(b'\n', &mut buf);
@                    proof { lemma_cons_read(k0, flat(bufs@), b0, buf@, s0, c0, reader.consumed, r0, reader.rest, stream); lemma_after_read(b0, buf@, c0, reader.consumed); }
@                    let ghost pend = flat(bufs@);
                    process_bufs(&header, bufs, &compressor_client, &mut log_stream_client, false, Tracked(w)).await?;
@                    proof { lemma_cons_flush(k0, pend, buf@, s0, reader.consumed, reader.rest, stream); }
                    break; }
}
        }
    }
}
//!end

//!fn src/app/log.rs stream_archive_file_to_stdout rules=R1,R10,R17 props=C08
fn stream_archive_file_to_stdout(
    header: &[u8],
    path: &path::Path,
    stdout: &mut iox::Stdout,
 Tracked(w): Tracked<&mut World>) -> ⟦(res: ⟧Result<(), MonorailError>⟦)⟧
@    requires old(w).fs.dom().contains(path@) ==> true,
@    ensures
@        // C08 (`log show`): a non-empty stored log is printed as one header followed by exactly its decoded bytes - whatever the
@        // line structure, missing trailing newline or binary content; an empty log prints nothing
@        res is Ok ==> old(w).fs.dom().contains(path@) && final(w).stdout_bytes == old(w).stdout_bytes + (if zstd_dec(old(w).fs[path@]).len() > 0 { header@ + zstd_dec(old(w).fs[path@]) } else { Seq::<u8>::empty() }), // [C08]
{
    let file = fs::File::open(path, Tracked(w))?;
    let reader = iox::BufReader::new(file);
    let decoder = zstd::stream::read::Decoder::new(reader)?;
    let mut line_reader = iox::BufReader::new(decoder);
    let mut line: Vec<u8> = Vec::new();
    let mut wrote_header = false;
@    let ghost content = zstd_dec(old(w).fs[path@]);
@    let ghost out0 = old(w).stdout_bytes;
    while line_reader.read_until(b'\n', &mut line)? > 0
@        invariant
@            content == zstd_dec(old(w).fs[path@]), out0 == old(w).stdout_bytes, old(w).fs.dom().contains(path@),
@            line@.len() == 0,
@            wrote_header <==> line_reader.consumed.len() > 0,
@            line_reader.consumed + line_reader.rest =~= content,
@            w.stdout_bytes =~= out0 + (if line_reader.consumed.len() > 0 { header@ + line_reader.consumed } else { Seq::<u8>::empty() }),
@        ensures
@            line_reader.rest.len() == 0,
@        decreases line_reader.rest.len(),
    {
        if !wrote_header {
            stdout.write_all(header, Tracked(w))?;
            wrote_header = true;
        }
        stdout.write_all(&line, Tracked(w))?;
        line.clear();
    }
@    assert(line_reader.consumed =~= content);

    Ok(())
}
//!end

// ---- LogServerClient::connect: the handshake with the optional listener ----
#[verifier::external_body] pub fn joined_names(s: &HashSet<String>) -> String { unimplemented!() }
#[verifier::external_body] pub fn joined_strs(v: &Vec<&str>) -> String { unimplemented!() }
// serde_json::from_slice: the filter the line denotes
#[verifier::external_body] pub fn filter_from_slice(b: &[u8]) -> (r: Result<server::LogFilterInput, serde_json::Error>)
    ensures r matches Ok(v) ==> json_parse::<server::LogFilterInput>(b@) == Some(v), r is Err ==> json_parse::<server::LogFilterInput>(b@) is None { unimplemented!() }
#[verifier::external_body] pub(crate) fn get_header(filename: &str, target: &str, command: &str, color: bool) -> String { unimplemented!() }
impl server::LogServerConfig { #[verifier::external_body] pub fn address(&self) -> String { unimplemented!() } }
//!const src/app/log.rs STDOUT_FILE
pub const STDOUT_FILE: &⟦'static ⟧str = "stdout.zst";
//!end
//!const src/app/log.rs STDERR_FILE
pub const STDERR_FILE: &⟦'static ⟧str = "stderr.zst";
//!end
impl LogServerClient {
//!fn src/app/log.rs LogServerClient::connect rules=R1,R10,R12 props=C20,C15
    pub(crate) async fn connect(cfg: &server::LogServerConfig, Tracked(w): Tracked<&mut World>) -> ⟦(res: ⟧Result<Self, MonorailError>⟦)⟧
@        ensures
@            // C20: the filters this client applies are the ones the listener sent as its first line (one read: whatever arrives up to the
@            // first newline or the end of the stream - a listener that goes away early is an error, never a wait)
@            res matches Ok(c) ==> exists|line: Seq<u8>| json_parse::<server::LogFilterInput>(line) == Some(c.args), // [C20]
@            // C15: connecting touches nothing of the run: no stored bytes, no compressor channel
@            final(w).sink == old(w).sink, final(w).cc_errs == old(w).cc_errs, // [C15]
    {
        let mut stream = tokio::net::TcpStream::connect_addr(&cfg.address()).await?;
        let mut args_data⟦: Vec<u8>⟧ = Vec::new();
        // pull arg preferences from the server on connect
        let mut br = tokio::io::BufReader::new(&mut stream);
        br.read_until(b'\n', &mut args_data).await?;
        let args: server::LogFilterInput = filter_from_slice(args_data.as_slice())?;
        if args.include_stdout || args.include_stderr {
            let targets = if args.targets.is_empty() {
                String::from("(any target)")
            } else {
                joined_names(&args.targets)
            };
            let commands = if args.commands.is_empty() {
                String::from("(any command)")
            } else {
                joined_names(&args.commands)
            };
            let mut files⟦: Vec<&str>⟧ = vec![];
            if args.include_stdout {
                files.push(STDOUT_FILE);
            }
            if args.include_stderr {
                files.push(STDERR_FILE);
            }
            stream
                .write_all(get_header(&joined_strs(&files), &targets, &commands, false).as_bytes(), Tracked(w))
                .await
                .map_err(MonorailError::from)?;
        }

        Ok(Self {
            stream: sync::Arc::new(tokio::sync::Mutex::new(stream)),
            args,
        })
    }
//!end
}
} // verus!
fn main() {}
