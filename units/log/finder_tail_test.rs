// Bounded stand-in for the `log tail` path end to end (integration test in a scratch copy of the crate, drives the REAL binary):
// LogServer::serve / process, LogServerClient::connect, CommandTask::run's stream selection are not under a Verus contract.
// C20: after its stream header a listener prints header-introduced blocks only; per (stream, target, command) the blocks reassemble
// to that task's output (newline-terminated text), and blocks appear only for what the listener's filters admit.
// BOUND: 3 targets x 2 commands x 2 streams writing concurrently (40..120 lines each, with pauses; one stream with CR LF line ends, one with a 200 KB line), 9 filter combinations.
use std::io::Read;
use std::os::unix::fs::PermissionsExt;
use std::process::{Command, Stdio};
const BIN: &str = env!("CARGO_BIN_EXE_monorail");

fn free_port() -> u16 { std::net::TcpListener::bind("127.0.0.1:0").unwrap().local_addr().unwrap().port() }
// is some socket of this machine listening on the port? (/proc/net/tcp: local address `0100007F:<port hex>`, state 0A = LISTEN)
fn listening(port: u16) -> bool {
    let want = format!(":{:04X}", port);
    for f in ["/proc/net/tcp", "/proc/net/tcp6"] {
        if let Ok(t) = std::fs::read_to_string(f) {
            for l in t.lines().skip(1) { let c: Vec<&str> = l.split_whitespace().collect(); if c.len() > 3 && c[1].ends_with(&want) && c[3] == "0A" { return true; } }
        }
    }
    false
}
fn expected(target: &str, cmd: &str, stream: &str) -> String {
    let n = 40 + 40 * (target.as_bytes()[1] - b'1') as usize;
    let head = if stream == "stdout" && target == "t1" { format!("{}-{}-stdout begin ... end\n", target, cmd) }
        // newline-terminated text whose lines end in CR LF (what `curl -i` prints): the carriage returns are part of the output
        else if stream == "stdout" && target == "t3" && cmd == "other" { "HTTP/1.1 200 OK\r\nServer: x\r\n\r\n".to_string() }
        // one newline-terminated line far longer than any buffer on the way (a minified bundle, a base64 blob)
        else if stream == "stdout" && target == "t2" && cmd == "emit" { "L".repeat(200_000) + "\n" } else { String::new() };
    head + &(0..n).map(|i| format!("{}-{}-{} line {} {}\n", target, cmd, stream, i, "x".repeat(i % 37))).collect::<String>()
}
fn strip_color(s: &str) -> String {
    let mut out = String::new();
    let mut it = s.chars().peekable();
    while let Some(c) = it.next() { if c == '\x1b' { while let Some(d) = it.next() { if d == 'm' { break; } } } else { out.push(c); } }
    out
}

fn run_combo(root: &std::path::Path, seq: u64, so: bool, se: bool, ft: &[&str], fc: &[&str]) -> Option<String> {
        let targets = ["t1", "t2", "t3"];
        let cmds = ["emit", "other"];
        let lp = free_port();
        let kp = loop { let p = free_port(); if p != lp { break p; } };
        let cfg = root.join(format!("Monorail{}.json", seq));
        std::fs::write(&cfg, format!("{{\"targets\":[{{\"path\":\"t1\"}},{{\"path\":\"t2\"}},{{\"path\":\"t3\"}}],\"server\":{{\"log\":{{\"port\":{}}},\"lock\":{{\"port\":{}}}}}}}", lp, kp)).unwrap();
        let mut a: Vec<String> = vec!["-f".into(), cfg.display().to_string(), "log".into(), "tail".into()];
        if so { a.push("--stdout".into()); }
        if se { a.push("--stderr".into()); }
        if !ft.is_empty() { a.push("-t".into()); a.extend(ft.iter().map(|s| s.to_string())); }
        if !fc.is_empty() { a.push("-c".into()); a.extend(fc.iter().map(|s| s.to_string())); }
        let mut tail = Command::new(BIN).current_dir(root).args(&a).stdout(Stdio::piped()).stderr(Stdio::null()).spawn().unwrap();
        // what the listener prints is drained while it runs (a full pipe would stall the listener, and a stalled listener stalls the run)
        let mut tail_out = tail.stdout.take().unwrap();
        let drain = std::thread::spawn(move || { let mut b = Vec::new(); let _ = tail_out.read_to_end(&mut b); b });
        // wait until the listener is bound - WITHOUT connecting to it: `log tail` serves one client at a time and gives up when a client
        // goes away during the handshake, so a probe connection could end the listener before the run connects
        let t0 = std::time::Instant::now();
        loop { if listening(lp) { break; } if t0.elapsed().as_secs() > 10 { break; } std::thread::sleep(std::time::Duration::from_millis(20)); }
        std::thread::sleep(std::time::Duration::from_millis(150));
        let run = Command::new(BIN).current_dir(root).arg("-f").arg(&cfg).args(["run", "-c", "emit", "other", "-t", "t1", "t2", "t3"]).output().unwrap();
        std::thread::sleep(std::time::Duration::from_millis(400));
        let _ = tail.kill();
        let _ = tail.wait();
        let out = String::from_utf8_lossy(&drain.join().unwrap_or_default()).into_owned();
        if !run.status.success() { return Some(format!("the run itself failed: {}", String::from_utf8_lossy(&run.stdout).chars().take(200).collect::<String>().replace('\n', " "))); }
        // parse: block headers set the current (stream, target, command); other lines belong to it
        let mut got: std::collections::BTreeMap<(String, String, String), String> = Default::default();
        let mut cur: Option<(String, String, String)> = None;
        let mut stray = 0usize;
        let mut first = true;
        for line in out.split_inclusive('\n') {
            let plain = strip_color(line.trim_end_matches('\n'));
            let is_header = plain.starts_with("[monorail | ") && plain.ends_with(']');
            // the stream header (sent once at connect, uncoloured) is not a block header (those are coloured)
            if first && is_header && !line.contains('\x1b') { first = false; continue; }
            first = false;
            if is_header {
                let f: Vec<&str> = plain[1..plain.len() - 1].split(" | ").collect();
                if f.len() == 4 { let k = (f[1].trim_end_matches(".zst").to_string(), f[2].to_string(), f[3].to_string()); got.entry(k.clone()).or_default(); cur = Some(k); continue; }
            }
            match &cur { Some(k) => got.get_mut(k).unwrap().push_str(line), None => stray += 1 }
        }
        let mut problems = vec![];
        if stray > 0 { problems.push(format!("{} line(s) before any block header", stray)); }
        for t in targets { for c in cmds { for (s, inc) in [("stdout", so), ("stderr", se)] {
            let admitted = inc && (ft.is_empty() || ft.contains(&t)) && (fc.is_empty() || fc.contains(&c));
            let k = (s.to_string(), t.to_string(), c.to_string());
            match (admitted, got.get(&k)) {
                (true, Some(text)) => { if *text != expected(t, c, s) { problems.push(format!("blocks of ({}, {}, {}) reassemble to {} bytes that differ from the task's {}-byte output (first difference at byte {})", s, t, c, text.len(), expected(t, c, s).len(), text.bytes().zip(expected(t, c, s).bytes()).position(|(a, b)| a != b).unwrap_or(text.len().min(expected(t, c, s).len())))); } }
                (true, None) => problems.push(format!("no block for the admitted ({}, {}, {})", s, t, c)),
                (false, Some(_)) => problems.push(format!("a block for ({}, {}, {}), which the filters do not admit", s, t, c)),
                (false, None) => {}
            }
        } } }
        for k in got.keys() { if !targets.contains(&k.1.as_str()) || !cmds.contains(&k.2.as_str()) { problems.push(format!("a block header for an unknown task {:?}", k)); } }
        if !problems.is_empty() { return Some(problems.join("; ").chars().take(600).collect::<String>()); }
        None
}

#[test]
fn vf_log_tail_blocks() {
    let td = tempfile::tempdir().unwrap();
    let root = td.path();
    let targets = ["t1", "t2", "t3"];
    let cmds = ["emit", "other"];
    for t in targets { for c in cmds {
        let p = root.join(t).join("monorail/cmd").join(format!("{}.sh", c));
        std::fs::create_dir_all(p.parent().unwrap()).unwrap();
        let n = 40 + 40 * (t.as_bytes()[1] - b'1') as usize;
        // both streams written in interleaved bursts with pauses (several flush ticks apart)
        let slow = if t == "t1" { format!("printf '{t}-{c}-stdout begin ...'; sleep 0.8; echo ' end'\n", t = t, c = c) }
            else if t == "t2" && c == "emit" { "head -c 200000 /dev/zero | tr '\\0' 'L'; echo\n".to_string() }
            else if t == "t3" && c == "other" { "printf 'HTTP/1.1 200 OK\\r\\nServer: x\\r\\n\\r\\n'\n".to_string() } else { String::new() };
        let body = format!("#!/bin/bash\npad() {{ printf 'x%.0s' $(seq 1 $1); }}\n{slow}for i in $(seq 0 {}); do p=$(( i % 37 )); s=\"\"; if [ $p -gt 0 ]; then s=$(pad $p); fi; echo \"{t}-{c}-stdout line $i $s\"; echo \"{t}-{c}-stderr line $i $s\" 1>&2; if [ $(( i % 25 )) -eq 24 ]; then sleep 0.3; fi; done\n", n - 1, t = t, c = c, slow = slow);
        std::fs::write(&p, body).unwrap();
        let mut perm = std::fs::metadata(&p).unwrap().permissions(); perm.set_mode(0o755); std::fs::set_permissions(&p, perm).unwrap();
    } }
    let (mut checked, mut bad) = (0u64, 0u64);
    let combos: Vec<(bool, bool, Vec<&str>, Vec<&str>)> = vec![
        (true, false, vec![], vec![]), (false, true, vec![], vec![]), (true, true, vec![], vec![]), (true, false, vec!["t1"], vec![]),
        (false, true, vec![], vec!["emit"]), (true, true, vec!["t2", "t3"], vec!["other"]), (false, false, vec![], vec![]), (true, true, vec!["nosuch"], vec![]),
        // a filter value that is the empty string (`-t "$UNSET"`) names no target: it admits nothing - it is not "no filter"
        (true, true, vec![""], vec![]),
    ];
    // quick tier: 4 of the 8 filter combinations
    let combos: Vec<(bool, bool, Vec<&str>, Vec<&str>)> = if std::env::var("VERIF_TIER").map(|t| t == "thorough").unwrap_or(false) { combos } else { combos.into_iter().enumerate().filter(|(i, _)| [2usize, 3, 5, 8].contains(i)).map(|(_, c)| c).collect() };
    let mut seq = 0u64;
    for (so, se, ft, fc) in combos {
        checked += 1;
        let what = format!("`log tail` with stdout={} stderr={} targets={:?} commands={:?}, then `run -c emit other` over 3 targets", so, se, ft, fc);
        seq += 1;
        // a failure must reproduce on a second, fresh attempt (new ports, new listener) before it is reported
        if run_combo(root, seq, so, se, &ft, &fc).is_some() {
            seq += 1;
            if let Some(p) = run_combo(root, seq, so, se, &ft, &fc) { bad += 1; println!("VF-FAIL {} :: {} (C20)", what, p); }
        }
    }
    println!("VF-SUMMARY test=log_tail_blocks checked={} nontrivial={} bad={}", checked, checked - 1, bad);
}
