// Run-time finder for `log show` (integration test in a scratch copy of the crate, drives the REAL binary; never the deciding step).
// C08: for every selected non-empty log, `log show` prints one header followed by exactly the bytes the process wrote.
use std::os::unix::fs::PermissionsExt;
use std::process::Command;
const BIN: &str = env!("CARGO_BIN_EXE_monorail");

#[test]
fn vf_log_show_bytes() {
    let cases: Vec<(&str, Vec<u8>)> = vec![
        ("plain lines", b"one\ntwo\n".to_vec()),
        ("missing trailing newline", b"one\ntwo".to_vec()),
        ("CRLF line ends", b"a\r\nb\r\n".to_vec()),
        ("binary bytes", vec![0u8, 159, 146, 150, 10, 255, 254, 10, 7]),
        ("only a newline", b"\n".to_vec()),
        // one incompressible line far longer than any encoder block (pseudo-random bytes without a newline), then a short line
        ("one 600 KiB incompressible line", { let mut x: u64 = 0x9E3779B97F4A7C15; let mut v: Vec<u8> = (0..600 * 1024).map(|_| { x ^= x << 13; x ^= x >> 7; x ^= x << 17; let b = (x >> 24) as u8; if b == b'\n' { b'.' } else { b } }).collect(); v.extend_from_slice(b"\nend\n"); v }),
    ];
    let (mut checked, mut bad) = (0u64, 0u64);
    for (what, bytes) in cases {
        checked += 1;
        let td = tempfile::tempdir().unwrap();
        let root = td.path();
        std::fs::create_dir_all(root.join("t1/monorail/cmd")).unwrap();
        let payload = root.join("payload.bin");
        std::fs::write(&payload, &bytes).unwrap();
        let script = root.join("t1/monorail/cmd/emit.sh");
        std::fs::write(&script, format!("#!/bin/sh\ncat '{}'\n", payload.display())).unwrap();
        let mut perm = std::fs::metadata(&script).unwrap().permissions();
        perm.set_mode(0o755);
        std::fs::set_permissions(&script, perm).unwrap();
        let l = std::net::TcpListener::bind("127.0.0.1:0").unwrap();
        let port = l.local_addr().unwrap().port();
        drop(l);
        let cfg = root.join("Monorail.json");
        std::fs::write(&cfg, format!("{{\"targets\":[{{\"path\":\"t1\"}}],\"server\":{{\"log\":{{}},\"lock\":{{\"port\":{}}}}}}}", port)).unwrap();
        let run = Command::new(BIN).current_dir(root).arg("-f").arg(&cfg).args(["run", "-c", "emit", "-t", "t1"]).output().unwrap();
        let show = Command::new(BIN).current_dir(root).arg("-f").arg(&cfg).args(["log", "show", "--stdout"]).output().unwrap();
        let out = show.stdout;
        // expected: nothing for an empty log, else one header line then the bytes
        let ok = if !run.status.success() { false } else if bytes.is_empty() { out.is_empty() } else {
            match out.iter().position(|b| *b == b'\n') {
                Some(p) => out[..p].starts_with(b"[monorail | ") && out[p + 1..] == bytes[..] && show.status.success(),
                None => false,
            }
        };
        if !ok {
            bad += 1;
            let tail = match out.iter().position(|b| *b == b'\n') { Some(p) => out[p + 1..].to_vec(), None => out.clone() };
            if bytes.len() > 200 { println!("VF-FAIL process output of {} bytes ({}) :: `log show --stdout` printed {} bytes after its header (exit ok={}); first difference at byte {} (C08)", bytes.len(), what, tail.len(), show.status.success(), tail.iter().zip(bytes.iter()).position(|(a, b)| a != b).unwrap_or(tail.len().min(bytes.len()))); } else {
            println!("VF-FAIL process output {:?} ({}) :: `log show --stdout` printed after its header {:?} (exit ok={}), the stored log is {:?} (C08)", bytes, what, tail, show.status.success(), bytes); }
        }
    }
    println!("VF-SUMMARY test=log_show_bytes checked={} nontrivial={} bad={}", checked, checked - 1, bad);
}
