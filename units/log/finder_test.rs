// Run-time finder for unit `log` (child module of app::log in a scratch copy of the crate; never the deciding step).
// Executable form of the contracts in units/log/unit.rs on the REAL compiled functions: schedule-dependent cases are
// driven through tokio::io::duplex / a local TCP listener.
use super::*;
use std::sync::{atomic::AtomicBool, Arc};
use tokio::io::AsyncWriteExt;

// (chunks with a pause in ms before each, description)
fn reader_cases() -> Vec<(Vec<(u64, Vec<u8>)>, &'static str)> {
    vec![
        (vec![(0, b"one\ntwo\n".to_vec())], "two complete lines"),
        (vec![(0, b"no trailing newline".to_vec())], "missing trailing newline"),
        (vec![(0, b"AAA".to_vec()), (700, b"BBB\n".to_vec())], "pause in the middle of a line straddling the 500 ms flush"),
        (vec![(0, b"x\nAAA".to_vec()), (700, b"BBB".to_vec()), (700, b"CCC\nend".to_vec())], "two mid-line pauses, no trailing newline"),
        (vec![(0, vec![0u8, 255, 10, 13, 0, 200]), (600, vec![1u8, 2, 3])], "binary bytes with a pause"),
        (vec![(0, b"building\nDone.".to_vec()), (700, vec![])], "unterminated last segment, then silence across a flush tick, then EOF"),
        (vec![(0, vec![b'z'; 70000])], "one 70 kB line without newline"),
    ]
}

#[tokio::test(flavor = "multi_thread", worker_threads = 4)]
async fn vf_process_reader_byte_exact() {
    let cases = reader_cases();
    let td = tempfile::tempdir().unwrap();
    let mut compressor = Compressor::new(2, Arc::new(AtomicBool::new(false)));
    let mut clients = vec![];
    let mut paths = vec![];
    for i in 0..cases.len() {
        let p = td.path().join(format!("case{}.zst", i));
        clients.push(compressor.register(&p).unwrap());
        paths.push(p);
    }
    let h = std::thread::spawn(move || compressor.run());
    let mut joins = vec![];
    for (i, (chunks, _)) in cases.iter().enumerate() {
        let (mut tx, rx) = tokio::io::duplex(1 << 20);
        let token = Arc::new(tokio_util::sync::CancellationToken::new());
        let c = clients[i].clone();
        let reader = tokio::spawn(async move { process_reader(tokio::io::BufReader::new(rx), c, "hdr".to_string(), None, token).await });
        let chunks = chunks.clone();
        joins.push(tokio::spawn(async move {
            for (pause, bytes) in chunks {
                if pause > 0 { tokio::time::sleep(std::time::Duration::from_millis(pause)).await; }
                if !bytes.is_empty() { tx.write_all(&bytes).await.unwrap(); }
            }
            drop(tx);
            reader.await.unwrap()
        }));
    }
    let mut results = vec![];
    for j in joins { results.push(j.await.unwrap()); }
    for c in &clients { let _ = c.shutdown().await; }
    let _ = h.join().unwrap();
    let (mut checked, mut bad) = (0u64, 0u64);
    for (i, (chunks, what)) in cases.iter().enumerate() {
        checked += 1;
        let want: Vec<u8> = chunks.iter().flat_map(|(_, b)| b.clone()).collect();
        let got = std::fs::File::open(&paths[i]).ok().and_then(|f| zstd::stream::decode_all(f).ok()).unwrap_or_default();
        if results[i].is_err() || got != want {
            bad += 1;
            let show = |b: &Vec<u8>| if b.len() > 60 { format!("{} bytes", b.len()) } else { format!("{:?}", String::from_utf8_lossy(b)) };
            println!("VF-FAIL writes={:?} ({}) :: process_reader stored {} but the stream carried {} (result ok={}) (C08)",
                chunks.iter().map(|(p, b)| (p, show(b))).collect::<Vec<_>>(), what, show(&got), show(&want), results[i].is_ok());
        }
    }
    println!("VF-SUMMARY test=process_reader_byte_exact checked={} nontrivial={} bad={}", checked, checked - 1, bad);
}

#[tokio::test]
async fn vf_process_bufs_listener_loss() {
    // C15: the listener dies after the handshake; every later process_bufs call must still succeed and store its bytes
    let listener = tokio::net::TcpListener::bind("127.0.0.1:0").await.unwrap();
    let port = listener.local_addr().unwrap().port() as usize;
    let srv = tokio::spawn(async move {
        let (mut sock, _) = listener.accept().await.unwrap();
        sock.write_all(b"{\"commands\":[],\"targets\":[],\"include_stdout\":true,\"include_stderr\":true}\n").await.unwrap();
        let mut b = [0u8; 16];
        let _ = tokio::io::AsyncReadExt::read(&mut sock, &mut b).await;
        drop(sock);
    });
    let cfg: server::LogServerConfig = serde_json::from_str(&format!("{{\"host\":\"127.0.0.1\",\"port\":{}}}", port)).unwrap();
    let mut lsc = Some(LogServerClient::connect(&cfg).await.unwrap());
    srv.await.unwrap();
    let td = tempfile::tempdir().unwrap();
    let p = td.path().join("stdout.zst");
    let mut compressor = Compressor::new(1, Arc::new(AtomicBool::new(false)));
    let client = compressor.register(&p).unwrap();
    let h = std::thread::spawn(move || compressor.run());
    let mut failures = 0;
    for _ in 0..20 {
        let r = process_bufs("hdr\n", vec![b"line\n".to_vec()], &client, &mut lsc, false).await;
        if r.is_err() { failures += 1; }
        tokio::time::sleep(std::time::Duration::from_millis(20)).await;
    }
    let _ = client.end().await;
    let _ = client.shutdown().await;
    let _ = h.join().unwrap();
    let data = std::fs::File::open(&p).ok().and_then(|f| zstd::stream::decode_all(f).ok()).unwrap_or_default();
    let bad = if failures != 0 || data.len() != 100 { 1 } else { 0 };
    if bad == 1 {
        println!("VF-FAIL listener closed after handshake, 20 x process_bufs(\"line\\n\") :: {} calls failed and {} of 100 bytes were stored; the outcome must not depend on the listener (C15)", failures, data.len());
    }
    println!("VF-SUMMARY test=process_bufs_listener_loss checked=20 nontrivial=20 bad={}", bad);
}

#[tokio::test]
async fn vf_shutdown_shared_channel() {
    // C06: two targets => four clients on two compressor threads; clients 0/2 and 1/3 share a channel. Shutting all of them
    // down, with the thread faster than the next send, must not fail a run in which nothing failed
    let td = tempfile::tempdir().unwrap();
    let mut compressor = Compressor::new(2, Arc::new(AtomicBool::new(false)));
    let mut clients = vec![];
    for i in 0..4 { clients.push(compressor.register(&td.path().join(format!("f{}.zst", i))).unwrap()); }
    let h = std::thread::spawn(move || compressor.run());
    let mut results = vec![];
    for c in &clients {
        results.push(c.shutdown().await.is_ok());
        tokio::time::sleep(std::time::Duration::from_millis(50)).await;
    }
    let _ = h.join().unwrap();
    let bad = if results.iter().all(|b| *b) { 0 } else { 1 };
    if bad == 1 {
        println!("VF-FAIL 4 clients on 2 compressor threads, shutdown each with the thread faster than the next send :: shutdown results {:?}; a stopped thread must not turn a clean run into a failure (C06)", results);
    }
    println!("VF-SUMMARY test=shutdown_shared_channel checked=4 nontrivial=2 bad={}", bad);
}

#[tokio::test(flavor = "multi_thread", worker_threads = 2)]
async fn vf_tail_block_is_complete() {
    // C20: whatever the volume of one flush, the bytes the listener receives for a block are header ++ lines, complete
    let listener = tokio::net::TcpListener::bind("127.0.0.1:0").await.unwrap();
    let port = listener.local_addr().unwrap().port() as usize;
    let srv = tokio::spawn(async move {
        let (mut sock, _) = listener.accept().await.unwrap();
        sock.write_all(b"{\"commands\":[],\"targets\":[],\"include_stdout\":true,\"include_stderr\":false}\n").await.unwrap();
        // a slow listener: nothing is read while the block is being written
        tokio::time::sleep(std::time::Duration::from_millis(400)).await;
        let mut all = vec![];
        let _ = tokio::io::AsyncReadExt::read_to_end(&mut sock, &mut all).await;
        all
    });
    let cfg: server::LogServerConfig = serde_json::from_str(&format!("{{\"host\":\"127.0.0.1\",\"port\":{}}}", port)).unwrap();
    let mut lsc = LogServerClient::connect(&cfg).await.unwrap();
    let line: Vec<u8> = { let mut l = vec![b'y'; 1023]; l.push(b'\n'); l };
    let lines: Vec<Vec<u8>> = (0..12 * 1024).map(|_| line.clone()).collect(); // 12 MiB in one flush
    let total: usize = lines.iter().map(|l| l.len()).sum();
    let r = lsc.data(Arc::new(lines), b"[monorail | stdout | big | build]\n").await;
    drop(lsc);
    let got = srv.await.unwrap();
    // the connection first carries the stream header written by connect(); the block follows
    let marker = b"[monorail | stdout | big | build]\n";
    let pos = got.windows(marker.len()).position(|w| w == marker);
    let body = pos.map(|p| got.len() - p - marker.len()).unwrap_or(0);
    let bad = if r.is_ok() && body == total { 0 } else { 1 };
    if bad == 1 {
        println!("VF-FAIL one flush of {} bytes to a listener that is slow to read :: the listener received {} bytes after the block header (data() ok={}); the blocks must reproduce the stored log (C20)", total, body, r.is_ok());
    }
    println!("VF-SUMMARY test=tail_block_is_complete checked=1 nontrivial=1 bad={}", bad);
}

#[tokio::test(flavor = "multi_thread", worker_threads = 4)]
async fn vf_tail_blocks_do_not_interleave() {
    // C20: tasks flush onto ONE shared connection concurrently; whatever the interleaving of the flushes, each block - a header and the
    // lines of that flush - arrives contiguous (per header, the blocks reassemble to what the task sent; no foreign line inside a block)
    let listener = tokio::net::TcpListener::bind("127.0.0.1:0").await.unwrap();
    let port = listener.local_addr().unwrap().port() as usize;
    let srv = tokio::spawn(async move {
        let (mut sock, _) = listener.accept().await.unwrap();
        sock.write_all(b"{\"commands\":[],\"targets\":[],\"include_stdout\":true,\"include_stderr\":true}\n").await.unwrap();
        // a listener that reads in small sips: the writers meet a full socket buffer and yield in the middle of their flushes
        let mut all = vec![]; let mut chunk = vec![0u8; 8192];
        loop { match tokio::io::AsyncReadExt::read(&mut sock, &mut chunk).await { Ok(0) | Err(_) => break, Ok(n) => { all.extend_from_slice(&chunk[..n]); tokio::time::sleep(std::time::Duration::from_micros(300)).await; } } }
        all
    });
    let cfg: server::LogServerConfig = serde_json::from_str(&format!("{{\"host\":\"127.0.0.1\",\"port\":{}}}", port)).unwrap();
    let lsc = LogServerClient::connect(&cfg).await.unwrap();
    let (tasks, batches, per) = (6usize, 25usize, 120usize);
    let mut hs = vec![];
    for k in 0..tasks {
        let mut c = lsc.clone();
        hs.push(tokio::spawn(async move {
            let header = format!("[monorail | stdout | task{} | build]\n", k);
            for b in 0..batches {
                let lines: Vec<Vec<u8>> = (0..per).map(|i| format!("task{} batch{} line{} {}\n", k, b, i, "z".repeat(40 + (i * 7 + k) % 60)).into_bytes()).collect();
                let _ = c.data(Arc::new(lines), header.as_bytes()).await;
            }
        }));
    }
    for h in hs { let _ = h.await; }
    drop(lsc);
    let got = String::from_utf8_lossy(&srv.await.unwrap()).into_owned();
    let (mut cur, mut foreign, mut counts): (Option<usize>, usize, Vec<usize>) = (None, 0, vec![0; tasks]);
    for line in got.lines() {
        if let Some(rest) = line.strip_prefix("[monorail | stdout | task") { if let Some(k) = rest.split(' ').next().and_then(|x| x.parse::<usize>().ok()) { cur = Some(k); continue; } }
        if let Some(rest) = line.strip_prefix("task") { if let Some(k) = rest.split(' ').next().and_then(|x| x.parse::<usize>().ok()) { if k < tasks { counts[k] += 1; if cur != Some(k) { foreign += 1; } } } }
    }
    let complete = counts.iter().all(|c| *c == batches * per);
    let bad = if foreign == 0 && complete { 0 } else { 1 };
    if bad == 1 { println!("VF-FAIL {} tasks flushing {} batches of {} lines each onto one shared listener connection :: {} line(s) arrived under another task's header (lines received per task {:?}, sent {}); a block must stay contiguous (C20)", tasks, batches, per, foreign, counts, batches * per); }
    println!("VF-SUMMARY test=tail_blocks_do_not_interleave checked=1 nontrivial=1 bad={}", bad);
}

#[tokio::test(flavor = "multi_thread", worker_threads = 4)]
async fn vf_reader_with_listener() {
    // C08 / C15: what is stored does not depend on a listener being attached, slow, or gone - also for output without a trailing newline;
    // C20: per header, the blocks a (possibly slow) listener receives reassemble to the stored log of newline-terminated text
    let all_cases: Vec<(Vec<(u64, Vec<u8>)>, &'static str, bool)> = vec![
        (vec![(0, b"one\ntwo\n".to_vec())], "two complete lines", true),
        (vec![(0, b"no trailing newline".to_vec())], "missing trailing newline", false),
        (vec![(0, b"x\ny".to_vec()), (700, b"z".to_vec())], "unterminated tail across a flush tick", false),
        (vec![(0, b"AAA".to_vec()), (700, b"BBB\nlast\n".to_vec())], "pause in the middle of a line", true),
        (vec![(0, (0..30000).flat_map(|i| format!("line {:06} {}\n", i, "p".repeat(120)).into_bytes()).collect()), (900, b"after the flood\n".to_vec())], "4 MB of lines, then one more after a pause", true),
        (vec![(0, b"quiet one\n".to_vec()), (1300, b"quiet two\n".to_vec())], "two lines 1.3 s apart", true),
    ];
    let (mut checked, mut bad) = (0u64, 0u64);
    for mode in ["listener reading at once", "listener that reads nothing for 1.5 s, then everything"] { for group_text in [true, false] {
        // streams that do not end in a newline get a connection of their own: an unterminated last line legitimately glues the next
        // header onto it, which is outside what C20 states (newline-terminated text)
        let text_cases: Vec<(Vec<(u64, Vec<u8>)>, &'static str, bool)> = all_cases.iter().filter(|c| c.2 == group_text).cloned().collect();
        let td = tempfile::tempdir().unwrap();
        let listener = tokio::net::TcpListener::bind("127.0.0.1:0").await.unwrap();
        let port = listener.local_addr().unwrap().port() as usize;
        let stall = mode.starts_with("listener that");
        let srv = tokio::spawn(async move {
            let (mut sock, _) = listener.accept().await.unwrap();
            sock.write_all(b"{\"commands\":[],\"targets\":[],\"include_stdout\":true,\"include_stderr\":true}\n").await.unwrap();
            if stall { tokio::time::sleep(std::time::Duration::from_millis(1500)).await; }
            let mut all = vec![];
            let _ = tokio::io::AsyncReadExt::read_to_end(&mut sock, &mut all).await;
            all
        });
        let cfg: server::LogServerConfig = serde_json::from_str(&format!("{{\"host\":\"127.0.0.1\",\"port\":{}}}", port)).unwrap();
        let lsc = LogServerClient::connect(&cfg).await.unwrap();
        let mut compressor = Compressor::new(2, Arc::new(AtomicBool::new(false)));
        let mut clients = vec![]; let mut paths = vec![];
        for i in 0..text_cases.len() { let p = td.path().join(format!("c{}.zst", i)); clients.push(compressor.register(&p).unwrap()); paths.push(p); }
        let h = std::thread::spawn(move || compressor.run());
        let mut joins = vec![];
        for (i, (chunks, _, _)) in text_cases.iter().enumerate() {
            let (mut tx, rx) = tokio::io::duplex(1 << 16);
            let token = Arc::new(tokio_util::sync::CancellationToken::new());
            let c = clients[i].clone();
            let l = Some(lsc.clone());
            let reader = tokio::spawn(async move { process_reader(tokio::io::BufReader::new(rx), c, format!("[h{}]\n", i), l, token).await });
            let chunks = chunks.clone();
            joins.push(tokio::spawn(async move {
                for (pause, bytes) in chunks { if pause > 0 { tokio::time::sleep(std::time::Duration::from_millis(pause)).await; } if !bytes.is_empty() { tx.write_all(&bytes).await.unwrap(); } }
                drop(tx);
                reader.await.unwrap()
            }));
        }
        let mut results = vec![];
        for j in joins { results.push(tokio::time::timeout(std::time::Duration::from_secs(60), j).await.map(|r| r.unwrap()).map_err(|_| "timeout")); }
        for c in &clients { let _ = c.shutdown().await; }
        let _ = h.join().unwrap();
        drop(lsc);
        let heard = tokio::time::timeout(std::time::Duration::from_secs(30), srv).await.map(|r| r.unwrap()).unwrap_or_default();
        // split what the listener heard into blocks by header line
        let mut blocks: std::collections::BTreeMap<usize, Vec<u8>> = Default::default();
        let mut cur: Option<usize> = None;
        for line in heard.split_inclusive(|b| *b == b'\n') {
            let t = String::from_utf8_lossy(line);
            if let Some(n) = t.strip_prefix("[h").and_then(|x| x.strip_suffix("]\n")).and_then(|x| x.parse::<usize>().ok()) { cur = Some(n); blocks.entry(n).or_default(); continue; }
            if let Some(n) = cur { blocks.get_mut(&n).unwrap().extend_from_slice(line); }
        }
        for (i, (chunks, what, nl_text)) in text_cases.iter().enumerate() {
            checked += 1;
            let want: Vec<u8> = chunks.iter().flat_map(|(_, b)| b.clone()).collect();
            let got = std::fs::File::open(&paths[i]).ok().and_then(|f| zstd::stream::decode_all(f).ok()).unwrap_or_default();
            let ok_res = matches!(&results[i], Ok(Ok(())));
            if !ok_res || got != want {
                bad += 1;
                println!("VF-FAIL stream `{}` with a {} :: stored {} bytes, the process wrote {} (reader finished ok={}); the stored log must not depend on the listener (C08) (C15)", what, mode, got.len(), want.len(), ok_res);
            } else if *nl_text {
                let b = blocks.get(&i).cloned().unwrap_or_default();
                if b != want { bad += 1; println!("VF-FAIL stream `{}` with a {} :: the blocks under its header reassemble to {} bytes, the stored log has {} (first difference at byte {}) (C20)", what, mode, b.len(), want.len(), b.iter().zip(want.iter()).position(|(x, y)| x != y).unwrap_or(b.len().min(want.len()))); }
            }
        }
    } }
    println!("VF-SUMMARY test=reader_with_listener checked={} nontrivial={} bad={}", checked, checked, bad);
}
