#![feature(allocator_api)]
#![allow(unused)]
// unit `outdel`: app/out.rs - what `out delete --all` removes (C19)
use vstd::prelude::*;
verus! {
//!include prelude/std_gaps.rs
//!include prelude/keymap.rs
//!include prelude/app.rs
pub mod graph { pub use super::graph_err::GraphError; }
// `impl AsRef<Path>`: the path a generic argument stands for
pub uninterp spec fn aspath<P>(p: P) -> Seq<char>;
// ASSUMED (std): a `&Path` handed where `impl AsRef<Path>` is expected stands for itself
#[verifier::external_body] pub proof fn axiom_aspath_ref(p: &path::Path) ensures aspath::<&path::Path>(p) == p@ { }
impl AsRef<path::Path> for path::Path { #[verifier::external_body] fn as_ref(&self) -> &path::Path { unimplemented!() } }
// R12 target for `std::fs::read_dir(p)` with `p: impl AsRef<Path>`
#[verifier::external_body] pub fn read_dir_of<P: AsRef<path::Path>>(p: &P) -> (r: Result<ReadDir, std::io::Error>) ensures r matches Ok(rd) ==> rd.dir == aspath(*p) { unimplemented!() }
// DirEntry::metadata (lstat of the entry: a symbolic link is not a directory) and what this unit reads of it
pub uninterp spec fn entry_is_dir(p: Seq<char>) -> bool;
pub struct Metadata { pub ghost p: Seq<char> }
impl Metadata { #[verifier::external_body] pub fn is_dir(&self) -> (r: bool) ensures r == entry_is_dir(self.p) { unimplemented!() } }
impl DirEntry { #[verifier::external_body] pub fn metadata(&self) -> (r: Result<Metadata, std::io::Error>) ensures r matches Ok(m) ==> m.p == self.p { unimplemented!() } }
//!assumed src/app/out.rs calculate_dir_size_in_mb sha=b59ac3bbfa7e2926
// ASSUMED (repo function, floating point; reads only): the size of everything below the directory
#[verifier::external_body] fn calculate_dir_size_in_mb(p: &path::Path) -> (r: Result<f64, MonorailError>) { unimplemented!() }

//!type src/app/out.rs OutDeleteInput
pub struct OutDeleteInput {
    pub all: bool,
}
//!end
//!type src/app/out.rs OutDeleteOutput
pub struct OutDeleteOutput {
    pub recovered_mb: f64,
}
//!end
// the top-level directories of `dir`, in listing order, among its first n entries
pub open spec fn tlds_upto(dir: Seq<char>, n: int) -> Seq<Seq<char>> decreases n {
    if n <= 0 { Seq::empty() } else if entry_is_dir(dir_listing(dir)[n - 1]) { tlds_upto(dir, n - 1).push(dir_listing(dir)[n - 1]) } else { tlds_upto(dir, n - 1) }
}
pub open spec fn views(v: Seq<path::PathBuf>) -> Seq<Seq<char>> { v.map_values(|p: path::PathBuf| p@) }
proof fn lemma_tlds_complete(dir: Seq<char>, n: int, i: int)
    requires 0 <= i < n <= dir_listing(dir).len(), entry_is_dir(dir_listing(dir)[i]),
    ensures tlds_upto(dir, n).contains(dir_listing(dir)[i]),
    decreases n,
{
    if i == n - 1 { assert(tlds_upto(dir, n).last() == dir_listing(dir)[i]); }
    else { lemma_tlds_complete(dir, n - 1, i); let s = tlds_upto(dir, n - 1); let x = dir_listing(dir)[i]; let k = choose|k: int| 0 <= k < s.len() && s[k] == x;
        if entry_is_dir(dir_listing(dir)[n - 1]) { assert(tlds_upto(dir, n)[k] == dir_listing(dir)[i]); } }
}

//!fn src/app/out.rs get_tlds rules=R12 props=C19
fn get_tlds<P: AsRef<path::Path>>(p: P) -> ⟦(res: ⟧Result<Vec<path::PathBuf>, MonorailError>⟦)⟧
@    ensures
@        // exactly the entries of the directory that are directories, each once, in listing order
@        res matches Ok(v) ==> views(v@) == tlds_upto(aspath(p), dir_listing(aspath(p)).len() as int), // [C19]
{
    let mut directories⟦: Vec<path::PathBuf>⟧ = Vec::new();
@    let ghost dir = aspath(p);

    for entry in ⟦ite: ⟧read_dir_of(&p)?.results_vec()
@        invariant
@            dir == aspath(p),
@            ite.seq().len() == dir_listing(dir).len(), forall|q: int| 0 <= q < ite.seq().len() ==> ((#[trigger] ite.seq()[q]) matches Ok(e) ==> e.p == dir_listing(dir)[q]),
@            views(directories@) == tlds_upto(dir, ite.index@ as int),
    {
@        let ghost i = ite.index@ as int;
@        let ghost d0 = directories@;
        let entry = entry?;
        let metadata = entry.metadata()?;

        if metadata.is_dir() {
            directories.push(entry.path());
@            assert(views(directories@) =~= views(d0).push(dir_listing(dir)[i]));
        }
    }

    Ok(directories)
}
//!end

//!fn src/app/out.rs out_delete rules=R10,R17 props=C19
pub(crate) fn out_delete(
    out_dir: &path::Path,
    input: &OutDeleteInput,
 Tracked(w): Tracked<&mut World>) -> ⟦(res: ⟧Result<OutDeleteOutput, MonorailError>⟦)⟧
@    ensures
@        // C19: after a successful `out delete --all` nothing is left inside any top-level directory of the output directory - in
@        // particular nothing inside `tracking/`, where the checkpoint and the run pointer live
@        (res is Ok && input.all) ==> forall|i: int, q: Seq<char>| 0 <= i < dir_listing(out_dir@).len() && entry_is_dir(dir_listing(out_dir@)[i]) && #[trigger] fs::under(#[trigger] dir_listing(out_dir@)[i], q)
@            ==> !final(w).fs.dom().contains(q), // [C19]
@        // without --all nothing is removed
@        !input.all ==> final(w).fs == old(w).fs,
{
    let recovered_mb = calculate_dir_size_in_mb(out_dir)?;
    if input.all {
@        proof { axiom_aspath_ref(out_dir); }
        let tlds = get_tlds(out_dir)?;
@        let ghost n = dir_listing(out_dir@).len() as int;
        for d in ⟦itd: ⟧tlds.iter()
@            invariant
@                input.all, n == dir_listing(out_dir@).len(), views(tlds@) == tlds_upto(out_dir@, n),
@                itd.seq().len() == tlds@.len(), forall|q: int| 0 <= q < tlds@.len() ==> *itd.seq()[q] == tlds@[q],
@                forall|k: int, q: Seq<char>| 0 <= k < itd.index@ && #[trigger] fs::under(#[trigger] tlds@[k]@, q) ==> !w.fs.dom().contains(q),
        {
@            let ghost j = itd.index@ as int;
@            let ghost f0 = w.fs;
            fs::remove_dir_all(d, Tracked(w))?;
@            assert(d@ == tlds@[j]@ && d.pview() == d@);
@            assert forall|k: int, q: Seq<char>| 0 <= k < j + 1 && #[trigger] fs::under(#[trigger] tlds@[k]@, q) implies !w.fs.dom().contains(q) by {
@                if k < j { if !fs::under(d.pview(), q) { assert(w.fs.dom().contains(q) == f0.dom().contains(q)); } }
@            }
        }
@        assert forall|i: int, q: Seq<char>| 0 <= i < n && entry_is_dir(dir_listing(out_dir@)[i]) && #[trigger] fs::under(#[trigger] dir_listing(out_dir@)[i], q) implies !w.fs.dom().contains(q) by {
@            lemma_tlds_complete(out_dir@, n, i);
@            let k = choose|k: int| 0 <= k < tlds_upto(out_dir@, n).len() && tlds_upto(out_dir@, n)[k] == dir_listing(out_dir@)[i];
@            assert(views(tlds@)[k] == tlds@[k]@);
@        }
    }

    Ok(OutDeleteOutput { recovered_mb })
}
//!end
} // verus!
fn main() {}
