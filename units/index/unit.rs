#![feature(allocator_api)]
#![allow(unused)]
// unit `index`: core/mod.rs — path prefixes, Index::new (C10, C01 representation, C03/C05/C09 call sites)
use vstd::prelude::*;
use std::collections::VecDeque;
verus! {
//!include prelude/std_gaps.rs
//!include prelude/keymap.rs
//!include prelude/app.rs
use trie_rs::{Trie, TrieBuilder};

//!fn src/core/mod.rs is_path_prefix props=C01,C10,C04
pub(crate) fn is_path_prefix(prefix: &str, path: &str) -> ⟦(r: ⟧bool⟦)⟧
@    ensures
@        // C01 / C10: whole path components, never raw string prefixes ("app" contains "app/x" but not "app2/x")
@        r == pp(prefix@, path@), // [C01,C10]
{
    strx::starts_with(path, prefix)
        && (strx::len(path) == strx::len(prefix)
            || strx::ends_with_char(prefix, '/')
            || strx::as_bytes(path)[strx::len(prefix)] == b'/')
}
//!end

pub open spec fn in_seq(s: Seq<String>, upto: int, v: Seq<char>) -> bool { exists|i: int| 0 <= i < upto && #[trigger] s[i]@ == v }
pub open spec fn in_rest(s: Seq<String>, from: int, v: Seq<char>) -> bool { exists|i: int| from <= i < s.len() && #[trigger] s[i]@ == v }
//!fn src/core/mod.rs path_prefix_search props=C01,C10,C04
pub(crate) fn path_prefix_search(trie: &Trie<u8>, path: &str) -> ⟦(out: ⟧Vec<String>⟦)⟧
@    ensures
@        // exactly the stored entries that are `path` or contain it (whole components), each once
@        forall|i: int| 0 <= i < out@.len() ==> trie.keys.contains(#[trigger] out@[i]@) && pp(out@[i]@, path@), // [C01,C10]
@        forall|k: Seq<char>| trie.keys.contains(k) && pp(k, path@) ==> exists|i: int| 0 <= i < out@.len() && #[trigger] out@[i]@ == k, // [C01,C10]
@        forall|i: int, j: int| #![trigger out@[i], out@[j]] 0 <= i < j < out@.len() ==> out@[i]@ != out@[j]@,
{
    let mut out: Vec<String> = Vec::new();
    for m in ⟦it: ⟧trie.common_prefix_search_vec(path)
@        invariant
@            forall|i: int| 0 <= i < it.seq().len() ==> trie.keys.contains(#[trigger] it.seq()[i]@) && bp(it.seq()[i]@, path@),
@            forall|i: int, j: int| #![trigger it.seq()[i], it.seq()[j]] 0 <= i < j < it.seq().len() ==> it.seq()[i]@ != it.seq()[j]@,
@            // every entry of out is a stored key that contains path, and was a hit already visited
@            forall|a: int| 0 <= a < out@.len() ==> trie.keys.contains(#[trigger] out@[a]@) && pp(out@[a]@, path@) && in_seq(it.seq(), it.index@ as int, out@[a]@),
@            // every stored key that contains path is in out already, or is a hit still to come
@            forall|k: Seq<char>| #![trigger trie.keys.contains(k)] trie.keys.contains(k) && pp(k, path@) ==> in_seq(out@, out@.len() as int, k) || in_rest(it.seq(), it.index@ as int, k),
@            forall|a: int, b: int| #![trigger out@[a], out@[b]] 0 <= a < b < out@.len() ==> out@[a]@ != out@[b]@,
    {
        let m: String = m;
@        let ghost k = it.index@ as int;
@        let ghost o0 = out@;
@        assert(m@ == it.seq()[k]@);
        if is_path_prefix(&m, path) {
            out.push(m);
@            proof {
@                assert forall|a: int| 0 <= a < out@.len() implies trie.keys.contains(#[trigger] out@[a]@) && pp(out@[a]@, path@) && in_seq(it.seq(), k + 1, out@[a]@) by {
@                    if a < o0.len() { assert(out@[a] == o0[a]); assert(in_seq(it.seq(), k, o0[a]@)); let i = choose|i: int| 0 <= i < k && #[trigger] it.seq()[i]@ == o0[a]@; assert(it.seq()[i]@ == out@[a]@); }
@                    else { assert(it.seq()[k]@ == out@[a]@); }
@                }
@                assert forall|a: int, b: int| #![trigger out@[a], out@[b]] 0 <= a < b < out@.len() implies out@[a]@ != out@[b]@ by {
@                    if b < o0.len() { assert(out@[a] == o0[a] && out@[b] == o0[b]); }
@                    else { assert(out@[a] == o0[a]); assert(in_seq(it.seq(), k, o0[a]@)); let i = choose|i: int| 0 <= i < k && #[trigger] it.seq()[i]@ == o0[a]@; assert(it.seq()[i]@ != it.seq()[k]@); }
@                }
@            }
@        }
@        proof {
@            assert forall|a: int| 0 <= a < out@.len() implies in_seq(it.seq(), k + 1, #[trigger] out@[a]@) by {
@                if a < o0.len() { assert(out@[a] == o0[a]); assert(in_seq(it.seq(), k, o0[a]@)); let i = choose|i: int| 0 <= i < k && #[trigger] it.seq()[i]@ == o0[a]@; assert(it.seq()[i]@ == out@[a]@); }
@                else { assert(it.seq()[k]@ == out@[a]@); }
@            }
@            assert forall|key: Seq<char>| #![trigger trie.keys.contains(key)] trie.keys.contains(key) && pp(key, path@) implies in_seq(out@, out@.len() as int, key) || in_rest(it.seq(), k + 1, key) by {
@                if in_seq(o0, o0.len() as int, key) {
@                    let a = choose|a: int| 0 <= a < o0.len() && #[trigger] o0[a]@ == key; assert(out@[a] == o0[a]); assert(out@[a]@ == key);
@                } else {
@                    assert(in_rest(it.seq(), k, key));
@                    let i = choose|i: int| k <= i < it.seq().len() && #[trigger] it.seq()[i]@ == key;
@                    if i == k { assert(out@.len() == o0.len() + 1); assert(out@[o0.len() as int]@ == key); } else { assert(it.seq()[i]@ == key); }
@                }
@            }
        }
    }
@    proof {
@        assert forall|key: Seq<char>| trie.keys.contains(key) && pp(key, path@) implies exists|i: int| 0 <= i < out@.len() && #[trigger] out@[i]@ == key by {
@            assert(in_seq(out@, out@.len() as int, key));
@        }
@    }
    out
}
//!end

//!include units/graph/vocab.rs
pub mod file {
    use vstd::prelude::*;
    use super::*;
//!assumed src/core/file.rs contains_file sha=baf1f50655bcc89a
    // ASSUMED (repo function core/file.rs, not verified): the path is a file or a directory containing one
    #[verifier::external_body] pub fn contains_file(p: &path::Path) -> (r: Result<(), MonorailError>) { unimplemented!() }
}
pub mod graph { pub use super::graph_err::GraphError; pub use super::Dag; pub use super::CycleState; }
use graph_err::GraphError;
//!type src/core/graph.rs CycleState
@#[derive(PartialEq, Eq, Structural)]
pub enum CycleState {
    Unknown,
    Yes(usize),
    No,
}
//!end
//!type src/core/graph.rs Dag
pub struct Dag {
    // Adjacency list storing dependencies.
    pub adj_list: Vec<Vec<usize>>,
    pub visibility: Vec<bool>,
    pub cycle_state: CycleState,

    pub label2node: HashMap<String, usize>,
    pub node2label: HashMap<usize, String>,
}
//!end
    impl Dag {
        pub open spec fn adj(&self) -> Seq<Seq<usize>> { rows(self.adj_list@) }
        pub open spec fn labels_total(&self) -> bool { forall|i: usize| i < self.adj_list@.len() ==> #[trigger] self.node2label@.dom().contains(i) }
//!stub graph Dag::new
//!stub graph Dag::set
//!stub graph Dag::set_label
//!stub graph Dag::get_node_by_label
//!stub graph Dag::set_subtree_visibility
    }
// ASSUMED (std gaps; R12 substitutes the calls): slice::sort / Vec::dedup on node indices, slice::sort on strings
pub open spec fn memb(s: Seq<usize>, x: int) -> bool { exists|i: int| 0 <= i < s.len() && #[trigger] s[i] == x }
#[verifier::external_body] pub fn sort_usize(v: &mut Vec<usize>)
    ensures forall|x: int| memb(final(v)@, x) <==> memb(old(v)@, x), forall|i: int, j: int| 0 <= i < j < final(v)@.len() ==> final(v)@[i] <= final(v)@[j]
{ unimplemented!() }
#[verifier::external_body] pub fn dedup_usize(v: &mut Vec<usize>)
    ensures forall|x: int| memb(final(v)@, x) <==> memb(old(v)@, x),
        (forall|i: int, j: int| 0 <= i < j < old(v)@.len() ==> old(v)@[i] <= old(v)@[j]) ==> (forall|i: int, j: int| 0 <= i < j < final(v)@.len() ==> final(v)@[i] < final(v)@[j])
{ unimplemented!() }
pub uninterp spec fn str_le(a: Seq<char>, b: Seq<char>) -> bool;
#[verifier::external_body] pub fn sort_strings(v: &mut Vec<String>)
    ensures final(v)@.len() == old(v)@.len(),
        forall|x: Seq<char>| #![trigger in_seq(final(v)@, final(v)@.len() as int, x)] in_seq(final(v)@, final(v)@.len() as int, x) <==> in_seq(old(v)@, old(v)@.len() as int, x),
        forall|i: int, j: int| 0 <= i < j < final(v)@.len() ==> str_le(final(v)@[i]@, final(v)@[j]@),
{ unimplemented!() }

// ---------------- C10: the dependency relation the configuration declares ----------------
pub open spec fn t2i_ok(ts: Seq<Target>, m: Map<Seq<char>, usize>, upto: int) -> bool { forall|j: int| 0 <= j < upto ==> m.dom().contains(#[trigger] ts[j].path@) && m[ts[j].path@] == j }
pub open spec fn distinct_paths(ts: Seq<Target>, upto: int) -> bool { forall|i: int, j: int| 0 <= i < j < upto ==> (#[trigger] ts[i]).path@ != (#[trigger] ts[j]).path@ }
// T_i depends on T_j: j is not i and T_j's directory encloses T_i's directory or some `uses` entry of T_i (whole components)
pub open spec fn dep(ts: Seq<Target>, i: int, j: int) -> bool {
    j != i && (pp(ts[j].path@, ts[i].path@) || exists|k: int| 0 <= k < uses_of(ts[i]).len() && pp(ts[j].path@, #[trigger] uses_of(ts[i])[k]@))
}
// partial: own path (if `own`) plus the first `upto` uses entries
pub open spec fn dep_upto(ts: Seq<Target>, i: int, j: int, own: bool, upto: int) -> bool {
    j != i && ((own && pp(ts[j].path@, ts[i].path@)) || exists|k: int| 0 <= k < upto && pp(ts[j].path@, #[trigger] uses_of(ts[i])[k]@))
}
pub open spec fn adj_is_dep(ts: Seq<Target>, row: Seq<usize>, i: int) -> bool {
    &&& forall|x: int| memb(row, x) <==> (0 <= x < ts.len() && dep(ts, i, x))
    &&& forall|a: int, b: int| 0 <= a < b < row.len() ==> row[a] < row[b]
}
pub open spec fn labels_upto(ts: Seq<Target>, l2n: Map<Seq<char>, usize>, n2l: Map<usize, String>, upto: int) -> bool {
    &&& forall|i: int| 0 <= i < upto ==> l2n.dom().contains(#[trigger] ts[i].path@) && l2n[ts[i].path@] == i
    &&& forall|l: Seq<char>| #![trigger l2n.dom().contains(l)] l2n.dom().contains(l) ==> exists|i: int| 0 <= i < upto && #[trigger] ts[i].path@ == l
    &&& forall|i: usize| #![trigger n2l.dom().contains(i)] n2l.dom().contains(i) <==> i < upto
    &&& forall|i: usize| i < upto ==> (#[trigger] n2l[i])@ == ts[i as int].path@
}
pub open spec fn keys_upto(ts: Seq<Target>, keys: Set<Seq<char>>, upto: int) -> bool {
    forall|l: Seq<char>| #![trigger keys.contains(l)] keys.contains(l) <==> exists|i: int| 0 <= i < upto && #[trigger] ts[i].path@ == l
}
pub open spec fn hit_upto(ts: Seq<Target>, hits: Seq<String>, x: int, k: int) -> bool { exists|j: int| 0 <= j < k && #[trigger] hits[j]@ == ts[x].path@ }
proof fn lemma_dep_upto_full(ts: Seq<Target>, i: int, x: int)
    requires 0 <= i < ts.len()
    ensures dep_upto(ts, i, x, true, uses_of(ts[i]).len() as int) <==> dep(ts, i, x)
{ }
// the visible set: everything reachable from a requested root
pub open spec fn vis_is_closure(adj: Seq<Seq<usize>>, vis: Seq<bool>, l2n: Map<Seq<char>, usize>, roots: Set<Seq<char>>) -> bool {
    forall|v: int| 0 <= v < adj.len() ==> (#[trigger] vis[v] <==> exists|r: Seq<char>| roots.contains(r) && l2n.dom().contains(r) && reachable(adj, l2n[r] as int, v))
}

//!type src/core/mod.rs Index
pub struct Index<'a> {
    pub targets: Vec<String>,
    pub target2index: HashMap<&'a str, usize>,
    pub targets_trie: Trie<u8>,
    pub ignores: Trie<u8>,
    pub uses: Trie<u8>,
    pub use2targets: HashMap<&'a str, Vec<&'a str>>,
    pub ignore2targets: HashMap<&'a str, Vec<&'a str>>,
    pub dag: graph::Dag,
}
//!end
//!include units/index/rep_vocab.rs


// the nodes collected from one prefix search: everything in `nodes` was there before (n0) or is another target whose
// directory contains q; every such target is in `nodes` already or is a hit still to come
pub open spec fn hits_inv(ts: Seq<Target>, n: int, i: int, q: Seq<char>, hits: Seq<String>, k: int, n0: Seq<usize>, nodes: Seq<usize>) -> bool {
    &&& forall|x: int| #![trigger memb(nodes, x)] memb(nodes, x) ==> (0 <= x < n && ((memb(n0, x)) || (x != i && pp(ts[x].path@, q))))
    &&& forall|x: int| #![trigger memb(n0, x)] memb(n0, x) ==> memb(nodes, x)
    &&& forall|x: int| #![trigger ts[x]] 0 <= x < n && x != i && pp(ts[x].path@, q) ==> memb(nodes, x) || in_rest(hits, k, ts[x].path@)
}
proof fn lemma_hit_step(ts: Seq<Target>, n: int, i: int, q: Seq<char>, hits: Seq<String>, k: int, n0: Seq<usize>, nb: Seq<usize>, na: Seq<usize>, xi: int)
    requires
        n == ts.len(), n <= usize::MAX, distinct_paths(ts, n), 0 <= i < n, 0 <= k < hits.len(), 0 <= xi < n, ts[xi].path@ == hits[k]@, pp(hits[k]@, q),
        hits_inv(ts, n, i, q, hits, k, n0, nb),
        (hits[k]@ != ts[i].path@) ==> na == nb.push(xi as usize),
        (hits[k]@ == ts[i].path@) ==> na == nb,
    ensures hits_inv(ts, n, i, q, hits, k + 1, n0, na)
{
    let pushed = hits[k]@ != ts[i].path@;
    assert forall|x: int| #![trigger memb(na, x)] memb(na, x) implies (0 <= x < n && ((memb(n0, x)) || (x != i && pp(ts[x].path@, q)))) by {
        let p = choose|p: int| 0 <= p < na.len() && #[trigger] na[p] == x;
        if p < nb.len() { assert(nb[p] == x); assert(memb(nb, x)); }
        else { assert(x == xi); if xi == i { assert(ts[xi].path@ == ts[i].path@); } }
    }
    assert forall|x: int| #![trigger memb(n0, x)] memb(n0, x) implies memb(na, x) by {
        assert(memb(nb, x)); let p = choose|p: int| 0 <= p < nb.len() && #[trigger] nb[p] == x; assert(na[p] == x);
    }
    assert forall|x: int| #![trigger ts[x]] 0 <= x < n && x != i && pp(ts[x].path@, q) implies memb(na, x) || in_rest(hits, k + 1, ts[x].path@) by {
        if memb(nb, x) { let p = choose|p: int| 0 <= p < nb.len() && #[trigger] nb[p] == x; assert(na[p] == x); }
        else {
            assert(in_rest(hits, k, ts[x].path@));
            let j = choose|j: int| k <= j < hits.len() && #[trigger] hits[j]@ == ts[x].path@;
            if j == k {
                assert(ts[x].path@ == ts[xi].path@);
                assert(x == xi) by { if x < xi { assert(ts[x].path@ != ts[xi].path@); } else if xi < x { assert(ts[xi].path@ != ts[x].path@); } }
                assert(pushed) by { if hits[k]@ == ts[i].path@ { assert(ts[x].path@ == ts[i].path@); if x < i { assert(ts[x].path@ != ts[i].path@); } else { assert(ts[i].path@ != ts[x].path@); } } }
                assert(na[nb.len() as int] == x);
            } else { assert(hits[j]@ == ts[x].path@); }
        }
    }
}
pub open spec fn in_rest_kv(s: Seq<&&String>, from: int, r: Seq<char>) -> bool { exists|j: int| from <= j < s.len() && (#[trigger] s[j]).kv() == r }

// ---------------- building the representation, entry by entry ----------------
// entries of a target: its `uses` (u = true) or its `ignores` (u = false)
pub open spec fn ents(t: Target, u: bool) -> Seq<String> { if u { uses_of(t) } else { ignores_of(t) } }
pub open spec fn before(i2: int, k2: int, i: int, k: int) -> bool { i2 < i || (i2 == i && k2 < k) }
pub open spec fn ent_at(ts: Seq<Target>, u: bool, i2: int, k2: int, g: Seq<char>) -> bool { 0 <= i2 < ts.len() && 0 <= k2 < ents(ts[i2], u).len() && ents(ts[i2], u)[k2]@ == g }
pub open spec fn ent_before(ts: Seq<Target>, u: bool, i: int, k: int, g: Seq<char>) -> bool { exists|i2: int, k2: int| #[trigger] ent_at(ts, u, i2, k2, g) && before(i2, k2, i, k) }
pub open spec fn entl_before(ts: Seq<Target>, u: bool, i: int, k: int, g: Seq<char>, p: Seq<char>) -> bool { exists|i2: int, k2: int| #[trigger] ent_at(ts, u, i2, k2, g) && before(i2, k2, i, k) && ts[i2].path@ == p }
// the builder's key set and the reverse map hold exactly the entries met before position (i, k)
pub open spec fn ent_rep(ts: Seq<Target>, u: bool, i: int, k: int, keys: Set<Seq<char>>, m: Map<Seq<char>, Vec<&str>>) -> bool {
    &&& forall|g: Seq<char>| #![trigger keys.contains(g)] keys.contains(g) <==> ent_before(ts, u, i, k, g)
    &&& forall|g: Seq<char>| #![trigger m.dom().contains(g)] m.dom().contains(g) <==> ent_before(ts, u, i, k, g)
    &&& forall|g: Seq<char>, p: Seq<char>| #![trigger views_in(m[g]@, p)] m.dom().contains(g) ==> (views_in(m[g]@, p) <==> entl_before(ts, u, i, k, g, p))
}
proof fn lemma_ent_step(ts: Seq<Target>, u: bool, i: int, k: int, keys: Set<Seq<char>>, m: Map<Seq<char>, Vec<&str>>, keys2: Set<Seq<char>>, m2: Map<Seq<char>, Vec<&str>>, v: &str)
    requires
        0 <= i < ts.len(), 0 <= k < ents(ts[i], u).len(), ent_rep(ts, u, i, k, keys, m),
        v@ == ts[i].path@,
        keys2 == keys.insert(ents(ts[i], u)[k]@),
        m2.dom() == m.dom().insert(ents(ts[i], u)[k]@),
        m2[ents(ts[i], u)[k]@]@ == (if m.dom().contains(ents(ts[i], u)[k]@) { m[ents(ts[i], u)[k]@]@ } else { Seq::<&str>::empty() }).push(v),
        forall|q: Seq<char>| q != ents(ts[i], u)[k]@ && m.dom().contains(q) ==> m2[q] == m[q],
    ensures ent_rep(ts, u, i, k + 1, keys2, m2)
{
    let g0 = ents(ts[i], u)[k]@;
    assert(ent_at(ts, u, i, k, g0));
    assert forall|g: Seq<char>| ent_before(ts, u, i, k + 1, g) <==> (ent_before(ts, u, i, k, g) || g == g0) by {
        if ent_before(ts, u, i, k + 1, g) {
            let (i2, k2) = choose|i2: int, k2: int| #[trigger] ent_at(ts, u, i2, k2, g) && before(i2, k2, i, k + 1);
            if !(i2 == i && k2 == k) { assert(ent_at(ts, u, i2, k2, g) && before(i2, k2, i, k)); }
        }
        if ent_before(ts, u, i, k, g) { let (i2, k2) = choose|i2: int, k2: int| #[trigger] ent_at(ts, u, i2, k2, g) && before(i2, k2, i, k); assert(ent_at(ts, u, i2, k2, g) && before(i2, k2, i, k + 1)); }
        if g == g0 { assert(ent_at(ts, u, i, k, g) && before(i, k, i, k + 1)); }
    }
    assert forall|g: Seq<char>, p: Seq<char>| #![trigger views_in(m2[g]@, p)] m2.dom().contains(g) implies (views_in(m2[g]@, p) <==> entl_before(ts, u, i, k + 1, g, p)) by {
        let old_list = if m.dom().contains(g) { m[g]@ } else { Seq::<&str>::empty() };
        // entl_before at k+1 == entl_before at k, or the new entry
        assert(entl_before(ts, u, i, k + 1, g, p) <==> (entl_before(ts, u, i, k, g, p) || (g == g0 && p == ts[i].path@))) by {
            if entl_before(ts, u, i, k + 1, g, p) {
                let (i2, k2) = choose|i2: int, k2: int| #[trigger] ent_at(ts, u, i2, k2, g) && before(i2, k2, i, k + 1) && ts[i2].path@ == p;
                if !(i2 == i && k2 == k) { assert(ent_at(ts, u, i2, k2, g) && before(i2, k2, i, k) && ts[i2].path@ == p); }
            }
            if entl_before(ts, u, i, k, g, p) { let (i2, k2) = choose|i2: int, k2: int| #[trigger] ent_at(ts, u, i2, k2, g) && before(i2, k2, i, k) && ts[i2].path@ == p; assert(ent_at(ts, u, i2, k2, g) && before(i2, k2, i, k + 1) && ts[i2].path@ == p); }
            if g == g0 && p == ts[i].path@ { assert(ent_at(ts, u, i, k, g) && before(i, k, i, k + 1) && ts[i].path@ == p); }
        }
        if g == g0 {
            let nl = m2[g]@;
            assert(nl == old_list.push(v));
            if views_in(nl, p) {
                let j = choose|j: int| 0 <= j < nl.len() && (#[trigger] nl[j])@ == p;
                if j < old_list.len() { assert(old_list[j]@ == p); assert(views_in(old_list, p)); assert(m.dom().contains(g)); }
            }
            if m.dom().contains(g) && views_in(m[g]@, p) { let j = choose|j: int| 0 <= j < m[g]@.len() && (#[trigger] m[g]@[j])@ == p; assert(nl[j]@ == p); }
            if p == ts[i].path@ { assert(nl[old_list.len() as int]@ == p); }
            if !m.dom().contains(g) { assert(!ent_before(ts, u, i, k, g)); if entl_before(ts, u, i, k, g, p) { let (i2, k2) = choose|i2: int, k2: int| #[trigger] ent_at(ts, u, i2, k2, g) && before(i2, k2, i, k) && ts[i2].path@ == p; assert(ent_at(ts, u, i2, k2, g) && before(i2, k2, i, k)); } }
        } else {
            assert(m.dom().contains(g));
            assert(m2[g] == m[g]);
        }
    }
}
proof fn lemma_ent_next_target(ts: Seq<Target>, u: bool, i: int, keys: Set<Seq<char>>, m: Map<Seq<char>, Vec<&str>>)
    requires 0 <= i < ts.len(), ent_rep(ts, u, i, ents(ts[i], u).len() as int, keys, m)
    ensures ent_rep(ts, u, i + 1, 0, keys, m)
{
    let len = ents(ts[i], u).len() as int;
    assert forall|g: Seq<char>| ent_before(ts, u, i + 1, 0, g) <==> ent_before(ts, u, i, len, g) by {
        if ent_before(ts, u, i + 1, 0, g) { let (i2, k2) = choose|i2: int, k2: int| #[trigger] ent_at(ts, u, i2, k2, g) && before(i2, k2, i + 1, 0); assert(ent_at(ts, u, i2, k2, g) && before(i2, k2, i, len)); }
        if ent_before(ts, u, i, len, g) { let (i2, k2) = choose|i2: int, k2: int| #[trigger] ent_at(ts, u, i2, k2, g) && before(i2, k2, i, len); assert(ent_at(ts, u, i2, k2, g) && before(i2, k2, i + 1, 0)); }
    }
    assert forall|g: Seq<char>, p: Seq<char>| entl_before(ts, u, i + 1, 0, g, p) <==> entl_before(ts, u, i, len, g, p) by {
        if entl_before(ts, u, i + 1, 0, g, p) { let (i2, k2) = choose|i2: int, k2: int| #[trigger] ent_at(ts, u, i2, k2, g) && before(i2, k2, i + 1, 0) && ts[i2].path@ == p; assert(ent_at(ts, u, i2, k2, g) && before(i2, k2, i, len) && ts[i2].path@ == p); }
        if entl_before(ts, u, i, len, g, p) { let (i2, k2) = choose|i2: int, k2: int| #[trigger] ent_at(ts, u, i2, k2, g) && before(i2, k2, i, len) && ts[i2].path@ == p; assert(ent_at(ts, u, i2, k2, g) && before(i2, k2, i + 1, 0) && ts[i2].path@ == p); }
    }
}
// once every target has been processed the key set / reverse map are exactly the configuration's entries
proof fn lemma_ent_done(ts: Seq<Target>, u: bool, keys: Set<Seq<char>>, m: Map<Seq<char>, Vec<&str>>)
    requires ent_rep(ts, u, ts.len() as int, 0, keys, m)
    ensures
        forall|g: Seq<char>| #![trigger keys.contains(g)] keys.contains(g) <==> exists|i: int| 0 <= i < ts.len() && (if u { has_use(#[trigger] ts[i], g) } else { has_ignore(ts[i], g) }),
        forall|g: Seq<char>| #![trigger m.dom().contains(g)] m.dom().contains(g) <==> keys.contains(g),
        forall|g: Seq<char>, p: Seq<char>| #![trigger views_in(m[g]@, p)] m.dom().contains(g) ==> (views_in(m[g]@, p) <==> exists|i: int| 0 <= i < ts.len() && #[trigger] ts[i].path@ == p && (if u { has_use(ts[i], g) } else { has_ignore(ts[i], g) })),
{
    let n = ts.len() as int;
    assert forall|g: Seq<char>| ent_before(ts, u, n, 0, g) <==> exists|i: int| 0 <= i < ts.len() && (if u { has_use(#[trigger] ts[i], g) } else { has_ignore(ts[i], g) }) by {
        if ent_before(ts, u, n, 0, g) {
            let (i2, k2) = choose|i2: int, k2: int| #[trigger] ent_at(ts, u, i2, k2, g) && before(i2, k2, n, 0);
            if u { assert(uses_of(ts[i2])[k2]@ == g); assert(has_use(ts[i2], g)); } else { assert(ignores_of(ts[i2])[k2]@ == g); assert(has_ignore(ts[i2], g)); }
        }
        if exists|i: int| 0 <= i < ts.len() && (if u { has_use(#[trigger] ts[i], g) } else { has_ignore(ts[i], g) }) {
            let i = choose|i: int| 0 <= i < ts.len() && (if u { has_use(#[trigger] ts[i], g) } else { has_ignore(ts[i], g) });
            if u { let k = choose|k: int| 0 <= k < uses_of(ts[i]).len() && #[trigger] uses_of(ts[i])[k]@ == g; assert(ent_at(ts, u, i, k, g) && before(i, k, n, 0)); }
            else { let k = choose|k: int| 0 <= k < ignores_of(ts[i]).len() && #[trigger] ignores_of(ts[i])[k]@ == g; assert(ent_at(ts, u, i, k, g) && before(i, k, n, 0)); }
        }
    }
    assert forall|g: Seq<char>, p: Seq<char>| entl_before(ts, u, n, 0, g, p) <==> exists|i: int| 0 <= i < ts.len() && #[trigger] ts[i].path@ == p && (if u { has_use(ts[i], g) } else { has_ignore(ts[i], g) }) by {
        if entl_before(ts, u, n, 0, g, p) {
            let (i2, k2) = choose|i2: int, k2: int| #[trigger] ent_at(ts, u, i2, k2, g) && before(i2, k2, n, 0) && ts[i2].path@ == p;
            if u { assert(uses_of(ts[i2])[k2]@ == g); assert(has_use(ts[i2], g)); } else { assert(ignores_of(ts[i2])[k2]@ == g); assert(has_ignore(ts[i2], g)); }
            assert(ts[i2].path@ == p);
        }
        if exists|i: int| 0 <= i < ts.len() && #[trigger] ts[i].path@ == p && (if u { has_use(ts[i], g) } else { has_ignore(ts[i], g) }) {
            let i = choose|i: int| 0 <= i < ts.len() && #[trigger] ts[i].path@ == p && (if u { has_use(ts[i], g) } else { has_ignore(ts[i], g) });
            if u { let k = choose|k: int| 0 <= k < uses_of(ts[i]).len() && #[trigger] uses_of(ts[i])[k]@ == g; assert(ent_at(ts, u, i, k, g) && before(i, k, n, 0) && ts[i].path@ == p); }
            else { let k = choose|k: int| 0 <= k < ignores_of(ts[i]).len() && #[trigger] ignores_of(ts[i])[k]@ == g; assert(ent_at(ts, u, i, k, g) && before(i, k, n, 0) && ts[i].path@ == p); }
        }
    }
}
pub open spec fn rows_empty_from(adj: Seq<Vec<usize>>, from: int) -> bool { forall|j: int| from <= j < adj.len() ==> (#[trigger] adj[j])@.len() == 0 }
pub open spec fn index_ok(ts: Seq<Target>, roots: Set<Seq<char>>, dag: Dag) -> bool {
    let n = ts.len() as int;
    &&& dag.adj_list@.len() == n && distinct_paths(ts, n)
    &&& labels_upto(ts, dag.label2node@, dag.node2label@, n)
    // C10: the adjacency row of every target is exactly its dependency set, strictly increasing
    &&& forall|i: int| 0 <= i < n ==> adj_is_dep(ts, (#[trigger] dag.adj_list@[i])@, i)
    // C03 / C05: exactly the requested targets and everything they transitively depend on are visible
    &&& wf(dag.adj(), dag.visibility@) && dag.cycle_state is Unknown
    &&& vis_is_closure(dag.adj(), dag.visibility@, dag.label2node@, roots)
}
pub open spec fn root_views(s: Set<Seq<char>>) -> Set<Seq<char>> { s }

impl<'a> Index<'a> {
//!fn src/core/mod.rs Index::new rules=R1,R3,R5,R6,R16,R17 props=C10,C03,C05,C09,C01,C04,C11
    pub(crate) fn new(
        cfg: &'a Config,
        visible_targets: &HashSet<&String>,
        work_path: &path::Path,
    ) -> ⟦(res: ⟧Result<Self, MonorailError>⟦)⟧
@        requires cfg.targets@.len() < usize::MAX,
@        ensures
@            res matches Ok(ix) ==> index_ok(cfg.targets@, visible_targets@, ix.dag), // [C10,C03,C05,C09,C04]
@            // C01: the tries and the reverse maps represent the configuration (what analyze_change requires)
@            res matches Ok(ix) ==> rep_ok(ix, cfg.targets@), // [C01]
@            // C11: a target's index is its position in the configuration's target list (merge_target_argmaps uses it to read THAT target's
@            // argmap directory out of cfg.targets)
@            res matches Ok(ix) ==> t2i_ok(cfg.targets@, ix.target2index@, cfg.targets@.len() as int), // [C11]
    {
        let mut targets⟦: Vec<String>⟧ = vec![];
        let mut target2index⟦: HashMap<&str, usize>⟧ = HashMap::new();
        let mut targets_builder⟦: TrieBuilder<u8>⟧ = TrieBuilder::new();
        let mut ignores_builder⟦: TrieBuilder<u8>⟧ = TrieBuilder::new();
        let mut uses_builder⟦: TrieBuilder<u8>⟧ = TrieBuilder::new();
        let mut use2targets = HashMap::<&str, Vec<&str>>::new();
        let mut ignore2targets = HashMap::<&str, Vec<&str>>::new();

        let mut dag = graph::Dag::new(cfg.targets.len());
@        let ghost ts = cfg.targets@;
@        let ghost n = ts.len() as int;

        for i in 0..cfg.targets.len()
@            invariant
@                ts == cfg.targets@, n == ts.len(), n < usize::MAX,
@                dag.adj_list@.len() == n, dag.visibility@.len() == n, dag.cycle_state is Unknown,
@                rows_empty_from(dag.adj_list@, 0), forall|v: int| 0 <= v < n ==> !(#[trigger] dag.visibility@[v]),
@                distinct_paths(ts, i as int), labels_upto(ts, dag.label2node@, dag.node2label@, i as int), keys_upto(ts, targets_builder.keys, i as int),
@                t2i_ok(ts, target2index@, i as int),
@                ent_rep(ts, false, i as int, 0, ignores_builder.keys, ignore2targets@),
        { let target = &cfg.targets[i];target2index.insert(target.path.as_str(), i);
            targets.push(target.path.to_owned());
            let target_path_str = target.path.as_str();
            file::contains_file(&work_path.join(target_path_str))?;

@            let ghost l2n0 = dag.label2node@;
@            let ghost n2l0 = dag.node2label@;
@            let ghost k0 = targets_builder.keys;
            dag.set_label(&target.path, i)
                .map_err(MonorailError::from)?;
            targets_builder.push(&target.path);
@            proof {
@                assert(!l2n0.dom().contains(ts[i as int].path@));
@                assert forall|a: int, b: int| 0 <= a < b < i + 1 implies (#[trigger] ts[a]).path@ != (#[trigger] ts[b]).path@ by {
@                    if b == i { assert(l2n0.dom().contains(ts[a].path@)); }
@                }
@                assert forall|l: Seq<char>| #![trigger dag.label2node@.dom().contains(l)] dag.label2node@.dom().contains(l) implies exists|j: int| 0 <= j < i + 1 && #[trigger] ts[j].path@ == l by {
@                    if l == ts[i as int].path@ { assert(ts[i as int].path@ == l); } else { assert(l2n0.dom().contains(l)); let j = choose|j: int| 0 <= j < i && #[trigger] ts[j].path@ == l; assert(ts[j].path@ == l); }
@                }
@                assert forall|j: int| 0 <= j < i + 1 implies dag.label2node@.dom().contains(#[trigger] ts[j].path@) && dag.label2node@[ts[j].path@] == j by {
@                    if j < i { assert(l2n0.dom().contains(ts[j].path@)); assert(ts[j].path@ != ts[i as int].path@); }
@                }
@                assert forall|j: usize| j < i + 1 implies (#[trigger] dag.node2label@[j])@ == ts[j as int].path@ by {
@                    if j < i { assert(n2l0.dom().contains(j)); assert(dag.node2label@[j] == n2l0[j]); }
@                }
@                assert forall|l: Seq<char>| #![trigger targets_builder.keys.contains(l)] targets_builder.keys.contains(l) <==> exists|j: int| 0 <= j < i + 1 && #[trigger] ts[j].path@ == l by {
@                    if targets_builder.keys.contains(l) { if l == ts[i as int].path@ { assert(ts[i as int].path@ == l); } else { assert(k0.contains(l)); let j = choose|j: int| 0 <= j < i && #[trigger] ts[j].path@ == l; assert(ts[j].path@ == l); } }
@                    if exists|j: int| 0 <= j < i + 1 && #[trigger] ts[j].path@ == l { let j = choose|j: int| 0 <= j < i + 1 && #[trigger] ts[j].path@ == l; if j < i { assert(ts[j].path@ == l); assert(k0.contains(l)); } }
@                }
@            }

            if let Some(ignores) = target.ignores.as_ref() {
@                assert(ents(ts[i as int], false) == ignores@);
                for s in ⟦its: ⟧ignores.iter()
@                    invariant
@                        ts == cfg.targets@, i < ts.len(), *target == ts[i as int], target.ignores == Some(*ignores), target_path_str@ == ts[i as int].path@,
@                        its.seq().len() == ignores@.len(), forall|q: int| 0 <= q < ignores@.len() ==> *its.seq()[q] == ignores@[q],
@                        ent_rep(ts, false, i as int, its.index@ as int, ignores_builder.keys, ignore2targets@),
                {
@                    let ghost kk = its.index@ as int;
@                    let ghost keys0 = ignores_builder.keys;
@                    let ghost m0 = ignore2targets@;
@                    assert(ents(ts[i as int], false) == ignores@ && s@ == ignores@[kk]@);
                    ignores_builder.push(s);
                    ignore2targets.entry_or_default_push(s.as_str(), target_path_str);
@                    proof { lemma_ent_step(ts, false, i as int, kk, keys0, m0, ignores_builder.keys, ignore2targets@, target_path_str); }
                }
@                proof { lemma_ent_next_target(ts, false, i as int, ignores_builder.keys, ignore2targets@); }
@            } else {
@                proof { assert(ents(ts[i as int], false).len() == 0); lemma_ent_next_target(ts, false, i as int, ignores_builder.keys, ignore2targets@); }
            }
            }

        let targets_trie = targets_builder.build();

        // process target uses and build up both the dependency graph, and the direct mapping of non-target uses to the affected targets
        for i in 0..cfg.targets.len()
@            invariant
@                ts == cfg.targets@, n == ts.len(), n < usize::MAX,
@                dag.adj_list@.len() == n, dag.visibility@.len() == n, dag.cycle_state is Unknown,
@                rows_empty_from(dag.adj_list@, i as int), forall|v: int| 0 <= v < n ==> !(#[trigger] dag.visibility@[v]),
@                distinct_paths(ts, n), labels_upto(ts, dag.label2node@, dag.node2label@, n), keys_upto(ts, targets_trie.keys, n),
@                forall|j: int| 0 <= j < i ==> adj_is_dep(ts, (#[trigger] dag.adj_list@[j])@, j),
@                ent_rep(ts, true, i as int, 0, uses_builder.keys, use2targets@), ent_rep(ts, false, n, 0, ignores_builder.keys, ignore2targets@),
        { let target = &cfg.targets[i];let target_path_str = target.path.as_str();
            // if this target is under an existing target, add it as a dep
            let mut nodes⟦: Vec<usize>⟧ = vec![];
@            let ghost l2n = dag.label2node@;
            for t in ⟦ith: ⟧path_prefix_search(&targets_trie, target_path_str)
@                invariant
@                    ts == cfg.targets@, n == ts.len(), n <= usize::MAX, i < n, *target == ts[i as int], l2n == dag.label2node@, target_path_str@ == ts[i as int].path@,
@                    distinct_paths(ts, n), labels_upto(ts, l2n, dag.node2label@, n), keys_upto(ts, targets_trie.keys, n),
@                    forall|j: int| 0 <= j < ith.seq().len() ==> targets_trie.keys.contains(#[trigger] ith.seq()[j]@) && pp(ith.seq()[j]@, target_path_str@),
@                    hits_inv(ts, n, i as int, target_path_str@, ith.seq(), ith.index@ as int, Seq::<usize>::empty(), nodes@),
            {
@                let ghost k = ith.index@ as int;
@                let ghost nb = nodes@;
@                let ghost hits = ith.seq();
@                assert(t@ == hits[k]@);
@                assert(targets_trie.keys.contains(hits[k]@));
@                let ghost xi = choose|xi: int| 0 <= xi < n && #[trigger] ts[xi].path@ == t@;
                if t != target.path {
                    nodes.push(dag.get_node_by_label(&t)?);
@                    assert(nodes@ == nb.push(xi as usize));
                }
@                proof { lemma_hit_step(ts, n, i as int, target_path_str@, hits, k, Seq::<usize>::empty(), nb, nodes@, xi); }
            }
@            assert forall|x: int| #![trigger memb(nodes@, x)] memb(nodes@, x) <==> (0 <= x < n && dep_upto(ts, i as int, x, true, 0)) by {
@                if 0 <= x < n && dep_upto(ts, i as int, x, true, 0) { assert(pp(ts[x].path@, target_path_str@)); }
@                if memb(nodes@, x) { assert(!memb(Seq::<usize>::empty(), x)); }
@            }

            if let Some(uses) = &target.uses {
                for s in ⟦itu: ⟧uses
@                    invariant
@                        ts == cfg.targets@, n == ts.len(), n <= usize::MAX, i < n, *target == ts[i as int], l2n == dag.label2node@, target.uses == Some(*uses),
@                        distinct_paths(ts, n), labels_upto(ts, l2n, dag.node2label@, n), keys_upto(ts, targets_trie.keys, n),
@                        itu.seq().len() == uses@.len(), forall|q: int| 0 <= q < uses@.len() ==> *itu.seq()[q] == uses@[q],
@                        forall|x: int| #![trigger memb(nodes@, x)] memb(nodes@, x) <==> (0 <= x < n && dep_upto(ts, i as int, x, true, itu.index@ as int)),
@                        target_path_str@ == ts[i as int].path@, ent_rep(ts, true, i as int, itu.index@ as int, uses_builder.keys, use2targets@),
                {
                    let uses_path_str = s.as_str();
@                    let ghost ku = itu.index@ as int;
@                    let ghost n0 = nodes@;
@                    assert(uses_of(ts[i as int]) == uses@ && uses_path_str@ == uses@[ku]@);
@                    let ghost ukeys0 = uses_builder.keys;
@                    let ghost um0 = use2targets@;
@                    assert(ents(ts[i as int], true) == uses@);
                    uses_builder.push(uses_path_str);
                    use2targets.entry_or_default_push(s, target_path_str);
@                    proof { lemma_ent_step(ts, true, i as int, ku, ukeys0, um0, uses_builder.keys, use2targets@, target_path_str); }
                    // a dependency has been established between this target and some
                    // number of targets, so we update the graph
                    for t in ⟦ith2: ⟧path_prefix_search(&targets_trie, uses_path_str)
@                        invariant
@                            ts == cfg.targets@, n == ts.len(), n <= usize::MAX, i < n, *target == ts[i as int], l2n == dag.label2node@,
@                            distinct_paths(ts, n), labels_upto(ts, l2n, dag.node2label@, n), keys_upto(ts, targets_trie.keys, n),
@                            forall|j: int| 0 <= j < ith2.seq().len() ==> targets_trie.keys.contains(#[trigger] ith2.seq()[j]@) && pp(ith2.seq()[j]@, uses_path_str@),
@                            hits_inv(ts, n, i as int, uses_path_str@, ith2.seq(), ith2.index@ as int, n0, nodes@),
                    {
@                        let ghost k = ith2.index@ as int;
@                        let ghost nb = nodes@;
@                        let ghost hits = ith2.seq();
@                        assert(t@ == hits[k]@);
@                        assert(targets_trie.keys.contains(hits[k]@));
@                        let ghost xi = choose|xi: int| 0 <= xi < n && #[trigger] ts[xi].path@ == t@;
                        if t != target.path {
                            nodes.push(dag.get_node_by_label(&t)?);
@                            assert(nodes@ == nb.push(xi as usize));
                        }
@                        proof { lemma_hit_step(ts, n, i as int, uses_path_str@, hits, k, n0, nb, nodes@, xi); }
                    }
@                    assert forall|x: int| #![trigger memb(nodes@, x)] memb(nodes@, x) <==> (0 <= x < n && dep_upto(ts, i as int, x, true, ku + 1)) by {
@                        if memb(nodes@, x) {
@                            if memb(n0, x) { assert(dep_upto(ts, i as int, x, true, ku)); }
@                            else { assert(pp(ts[x].path@, uses_of(ts[i as int])[ku]@)); }
@                        }
@                        if 0 <= x < n && dep_upto(ts, i as int, x, true, ku + 1) {
@                            if dep_upto(ts, i as int, x, true, ku) { assert(memb(n0, x)); }
@                            else {
@                                let kk = choose|kk: int| 0 <= kk < ku + 1 && pp(ts[x].path@, #[trigger] uses_of(ts[i as int])[kk]@);
@                                assert(kk == ku);
@                                assert(pp(ts[x].path@, uses_path_str@));
@                            }
@                        }
@                    }
                }
@                assert forall|x: int| #![trigger memb(nodes@, x)] memb(nodes@, x) <==> (0 <= x < n && dep(ts, i as int, x)) by { lemma_dep_upto_full(ts, i as int, x); }
@                proof { assert(ents(ts[i as int], true) == uses@); lemma_ent_next_target(ts, true, i as int, uses_builder.keys, use2targets@); }
@            } else {
@                assert forall|x: int| #![trigger memb(nodes@, x)] memb(nodes@, x) <==> (0 <= x < n && dep(ts, i as int, x)) by { assert(uses_of(ts[i as int]).len() == 0); lemma_dep_upto_full(ts, i as int, x); }
@                proof { assert(ents(ts[i as int], true).len() == 0); lemma_ent_next_target(ts, true, i as int, uses_builder.keys, use2targets@); }
            }
            sort_usize(&mut nodes);
            dedup_usize(&mut nodes);
@            let ghost adj0 = dag.adj_list@;
@            let ghost row = nodes@;
@            assert(adj_is_dep(ts, row, i as int));
            dag.set(i, nodes);
@            proof {
@                assert forall|j: int| 0 <= j < i + 1 implies adj_is_dep(ts, (#[trigger] dag.adj_list@[j])@, j) by { if j < i { assert(dag.adj_list@[j] == adj0[j]); } }
@                assert forall|j: int| i + 1 <= j < dag.adj_list@.len() implies (#[trigger] dag.adj_list@[j])@.len() == 0 by { assert(dag.adj_list@[j] == adj0[j]); }
@            }
            }

        // now that the graph is fully constructed, set subtree visibility
@        let ghost adjf = dag.adj();
@        let ghost l2nf = dag.label2node@;
@        let ghost roots = visible_targets@;
@        proof {
@            assert(adjf.len() == n);
@            assert forall|u: int, k: int| 0 <= u < adjf.len() && 0 <= k < adjf[u].len() implies (#[trigger] adjf[u][k]) < adjf.len() by {
@                assert(adj_is_dep(ts, dag.adj_list@[u]@, u)); assert(adjf[u] == dag.adj_list@[u]@); assert(memb(adjf[u], adjf[u][k] as int));
@            }
@            assert forall|u: int| 0 <= u < adjf.len() implies (#[trigger] adjf[u]).len() <= usize::MAX by { assert(adjf[u] == dag.adj_list@[u]@); assert(dag.adj_list@[u]@.len() == dag.adj_list@[u].len()); }
@            assert(wf(adjf, dag.visibility@));
@        }
        for t in ⟦itv: ⟧visible_targets.to_vec()
@            invariant
@                ts == cfg.targets@, n == ts.len(), adjf == dag.adj(), l2nf == dag.label2node@, roots == visible_targets@,
@                dag.adj_list@.len() == n, dag.visibility@.len() == n, dag.cycle_state is Unknown, wf(adjf, dag.visibility@),
@                distinct_paths(ts, n), labels_upto(ts, dag.label2node@, dag.node2label@, n),
@                forall|i: int| 0 <= i < n ==> adj_is_dep(ts, (#[trigger] dag.adj_list@[i])@, i),
@                forall|j: int| 0 <= j < itv.seq().len() ==> roots.contains((#[trigger] itv.seq()[j]).kv()),
@                keys_upto(ts, targets_trie.keys, n), ent_rep(ts, true, n, 0, uses_builder.keys, use2targets@), ent_rep(ts, false, n, 0, ignores_builder.keys, ignore2targets@),
@                forall|v: int| 0 <= v < n && #[trigger] dag.visibility@[v] ==> exists|r: Seq<char>| roots.contains(r) && l2nf.dom().contains(r) && reachable(adjf, l2nf[r] as int, v),
@                forall|r: Seq<char>, v: int| #![trigger reachable(adjf, l2nf[r] as int, v)] roots.contains(r) && l2nf.dom().contains(r) && 0 <= v < n && reachable(adjf, l2nf[r] as int, v) ==> dag.visibility@[v] || in_rest_kv(itv.seq(), itv.index@ as int, r),
        {
@            let ghost k = itv.index@ as int;
@            let ghost vis0 = dag.visibility@;
@            let ghost rk = itv.seq()[k].kv();
@            assert(t@ == rk);
            let node = dag.get_node_by_label(t)?;
@            assert(node < n) by { let j = choose|j: int| 0 <= j < n && #[trigger] ts[j].path@ == rk; assert(l2nf[ts[j].path@] == j); }
            dag.set_subtree_visibility(node, true)?;
@            proof {
@                assert forall|v: int| 0 <= v < n && #[trigger] dag.visibility@[v] implies exists|r: Seq<char>| roots.contains(r) && l2nf.dom().contains(r) && reachable(adjf, l2nf[r] as int, v) by {
@                    if vis0[v] { } else { assert(reachable(adjf, node as int, v)); assert(roots.contains(rk) && l2nf.dom().contains(rk) && reachable(adjf, l2nf[rk] as int, v)); }
@                }
@                assert forall|r: Seq<char>, v: int| #![trigger reachable(adjf, l2nf[r] as int, v)] roots.contains(r) && l2nf.dom().contains(r) && 0 <= v < n && reachable(adjf, l2nf[r] as int, v) implies dag.visibility@[v] || in_rest_kv(itv.seq(), k + 1, r) by {
@                    if vis0[v] { }
@                    else {
@                        assert(in_rest_kv(itv.seq(), k, r));
@                        let j = choose|j: int| k <= j < itv.seq().len() && (#[trigger] itv.seq()[j]).kv() == r;
@                        if j == k { assert(r == rk); } else { assert(itv.seq()[j].kv() == r); }
@                    }
@                }
@            }
        }
@        proof {
@            assert forall|v: int| 0 <= v < adjf.len() implies (#[trigger] dag.visibility@[v] <==> exists|r: Seq<char>| roots.contains(r) && l2nf.dom().contains(r) && reachable(adjf, l2nf[r] as int, v)) by {
@                if exists|r: Seq<char>| roots.contains(r) && l2nf.dom().contains(r) && reachable(adjf, l2nf[r] as int, v) {
@                    let r = choose|r: Seq<char>| roots.contains(r) && l2nf.dom().contains(r) && reachable(adjf, l2nf[r] as int, v);
@                    assert(reachable(adjf, l2nf[r] as int, v));
@                }
@            }
@        }

        sort_strings(&mut targets);
@        let ghost ukeys = uses_builder.keys;
@        let ghost ikeys = ignores_builder.keys;
@        proof {
@            lemma_ent_done(ts, true, ukeys, use2targets@);
@            lemma_ent_done(ts, false, ikeys, ignore2targets@);
@            assert forall|l: Seq<char>| #![trigger targets_trie.keys.contains(l)] targets_trie.keys.contains(l) <==> is_target(ts, l) by { }
@            assert(rep_parts(ts, targets_trie.keys, ukeys, ikeys, use2targets@, ignore2targets@));
@        }
        Ok(Self {
            targets,
            target2index,
            targets_trie,
            ignores: ignores_builder.build(),
            uses: uses_builder.build(),
            use2targets,
            ignore2targets,
            dag,
        })
    }
//!end
}
} // verus!
fn main() {}
