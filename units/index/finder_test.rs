// Run-time finder for unit `index` (child module of `core` in a scratch copy of the crate; never the deciding step).
// Executable form of index_ok (units/index/unit.rs) on the REAL Index::new: the edges are exactly the declared dependency
// relation (whole path components), and the visible set for a root is exactly its dependency closure.
use super::*;

// whole-component prefix as defined in DESIGN.md section 5 (pp), written independently of the code under test over component
// lists: a prefix written with a trailing slash names a directory and matches itself and what is below it, not the bare name
fn pp(prefix: &str, path: &str) -> bool {
    let a: Vec<&str> = prefix.split('/').collect();
    let b: Vec<&str> = path.split('/').collect();
    let dir = a.last() == Some(&"") && a.len() > 1;
    let a2: Vec<&str> = if dir { a[..a.len() - 1].to_vec() } else { a.clone() };
    a2.len() <= b.len() && a2.iter().zip(b.iter()).all(|(x, y)| x == y) && (!dir || b.len() > a2.len())
}

fn mk_cfg(targets: &[(&str, Vec<&str>)]) -> Config {
    let mut s = String::from("{\"targets\":[");
    for (i, (p, uses)) in targets.iter().enumerate() {
        if i > 0 { s.push(','); }
        s.push_str(&format!("{{\"path\":\"{}\"", p));
        if !uses.is_empty() { s.push_str(&format!(",\"uses\":[{}]", uses.iter().map(|u| format!("\"{}\"", u)).collect::<Vec<_>>().join(","))); }
        s.push('}');
    }
    s.push_str("]}");
    serde_json::from_str(&s).unwrap()
}

fn edges_of(ix: &Index, td: &std::path::Path) -> Vec<(usize, usize)> {
    let p = td.join("g.dot");
    ix.dag.render_dotfile(&p).unwrap();
    let txt = std::fs::read_to_string(&p).unwrap();
    let mut out = vec![];
    for l in txt.lines() {
        if let Some((a, b)) = l.trim_end_matches(';').split_once(" -> ") {
            if let (Ok(a), Ok(b)) = (a.trim().parse::<usize>(), b.trim().parse::<usize>()) { out.push((a, b)); }
        }
    }
    out.sort();
    out
}

#[test]
fn vf_index_edges_and_closure() {
    let td = crate::core::testing::new_testdir().unwrap();
    let work = td.path();
    let paths = ["app", "app2", "app-web", "app/sub", "app/sub/deep", "lib", "lib2", "libs/", "libs/core"];
    for p in paths.iter() { std::fs::create_dir_all(work.join(p)).unwrap(); std::fs::write(work.join(p).join("f.txt"), b"x").unwrap(); }
    // (entries that name a nested target by its exact path included: such an entry reaches the nested target AND every target enclosing it)
    let uses_pool = ["lib", "lib2/src", "app/sub/file.txt", "app2", "app", "outside/x", "app-web/a", "libs/util.rs", "libs", "app/sub", "libs/core", "app/sub/deep"];
    let (mut checked, mut bad, mut nontrivial) = (0u64, 0u64, 0u64);
    // ordered selections of 2..=3 target paths; each target gets 0..=2 uses entries chosen by a small counter
    let np = paths.len();
    let mut sels: Vec<Vec<usize>> = vec![];
    for a in 0..np { for b in 0..np { if a != b { sels.push(vec![a, b]); for c in 0..np { if c != a && c != b { sels.push(vec![a, b, c]); } } } } }
    let mut variant = 0usize;
    // configurations kept by hand (each was the witness of a seeded change at some point; the generated ones below depend on the pools)
    let mut all_cfgs: Vec<Vec<(&str, Vec<&str>)>> = vec![
        vec![("lib", vec!["lib"]), ("app", vec!["lib"])],                          // two targets share a `uses` string that lies inside the first of them
        vec![("app", vec!["lib"]), ("lib", vec!["lib"])],
        vec![("app", vec!["app2"]), ("app2", vec![])],                             // a sibling whose name is a string prefix
        vec![("app2", vec![]), ("app", vec!["app2/src"]), ("lib", vec!["app2"])],
        vec![("libs/", vec![]), ("libs/core", vec![]), ("app", vec!["libs/util.rs"])],   // a target declared with a trailing slash
        vec![("app", vec![]), ("app/sub", vec![]), ("app/sub/deep", vec![]), ("lib", vec!["app/sub/deep"])],   // every enclosing target, not just one
        vec![("lib", vec!["app/sub"]), ("app/sub", vec!["lib2"]), ("app", vec![]), ("lib2", vec!["lib"])],     // a cycle through a nested target
    ];
    for sel in sels {
        for round in 0..3 {
            variant = variant.wrapping_mul(31).wrapping_add(17 + round);
            let mut targets: Vec<(&str, Vec<&str>)> = vec![];
            for (k, &pi) in sel.iter().enumerate() {
                let h = variant.wrapping_add(k * 7);
                let mut uses = vec![];
                if h % 3 != 0 { uses.push(uses_pool[h % uses_pool.len()]); }
                if h % 5 == 0 { uses.push(uses_pool[(h / 5) % uses_pool.len()]); }
                targets.push((paths[pi], uses));
            }
            all_cfgs.push(targets);
        }
    }
    for targets in all_cfgs {
        {
            let cfg = mk_cfg(&targets);
            let n = targets.len();
            // expected relation
            let mut want: Vec<(usize, usize)> = vec![];
            for i in 0..n { for j in 0..n { if i != j {
                let (pi, ui) = &targets[i]; let pj = targets[j].0;
                if pp(pj, pi) || ui.iter().any(|u| pp(pj, u)) { want.push((i, j)); }
            } } }
            want.sort();
            checked += 1;
            if want.len() >= 2 { nontrivial += 1; }
            let none: HashSet<&String> = HashSet::new();
            match Index::new(&cfg, &none, work) {
                Ok(ix) => {
                    // C11: a target's index is its position in the configuration (it selects THAT target's argmap directory)
                    if let Some(i) = (0..n).find(|&i| ix.get_target_index(&cfg.targets[i].path).ok().copied() != Some(i)) {
                        bad += 1;
                        if bad <= 3 { println!("VF-FAIL targets={:?} :: get_target_index({:?}) is {:?}, the target is number {} of the configuration (C11)", targets, cfg.targets[i].path, ix.get_target_index(&cfg.targets[i].path).ok(), i); }
                        continue;
                    }
                    let got = edges_of(&ix, work);
                    if got != want {
                        bad += 1;
                        if bad <= 3 { println!("VF-FAIL targets={:?} :: Index::new built edges {:?} but the configuration declares exactly {:?} (T depends on U iff U != T and U's directory contains T's directory or one of T's uses, whole components; grouping and cycle detection work on these edges) (C10) (C03) (C09) (C04) (C05) (C16)", targets, got, want); }
                        continue;
                    }
                }
                Err(e) => { bad += 1; if bad <= 3 { println!("VF-FAIL targets={:?} :: Index::new failed with no visible target requested: {} (C10)", targets, e); } continue; }
            }
            // closure of each root over the expected relation
            for root in 0..n {
                let mut seen = vec![false; n]; let mut st = vec![root]; seen[root] = true;
                while let Some(u) = st.pop() { for &(a, b) in &want { if a == u && !seen[b] { seen[b] = true; st.push(b); } } }
                // acyclic within the closure?
                let mut alive = seen.clone();
                loop { let mut rm = false; for u in 0..n { if alive[u] && !want.iter().any(|&(a, b)| b == u && alive[a]) { alive[u] = false; rm = true; } } if !rm { break; } }
                let cyclic = alive.iter().any(|b| *b);
                let rp = cfg.targets[root].path.clone();
                let mut vt: HashSet<&String> = HashSet::new(); vt.insert(&rp);
                checked += 1;
                match Index::new(&cfg, &vt, work) {
                    Ok(mut ix) => match ix.dag.get_labeled_groups() {
                        Ok(groups) => {
                            let mut got: Vec<String> = groups.into_iter().flatten().collect(); got.sort();
                            let mut exp: Vec<String> = (0..n).filter(|&u| seen[u]).map(|u| cfg.targets[u].path.clone()).collect(); exp.sort();
                            if cyclic { bad += 1; if bad <= 3 { println!("VF-FAIL targets={:?} root={} :: groups {:?} were produced although the dependency closure of the root contains a cycle (C09)", targets, rp, got); } }
                            else if got != exp { bad += 1; if bad <= 3 { println!("VF-FAIL targets={:?} root={} :: the grouped targets are {:?} but the root and everything it transitively depends on is {:?} (C05) (C03)", targets, rp, got, exp); } }
                        }
                        Err(e) => { if !cyclic { bad += 1; if bad <= 3 { println!("VF-FAIL targets={:?} root={} :: grouping failed for an acyclic closure: {} (C03)", targets, rp, e); } } }
                    },
                    Err(e) => { if !cyclic { bad += 1; if bad <= 3 { println!("VF-FAIL targets={:?} root={} :: Index::new failed for an acyclic closure: {} (C03)", targets, rp, e); } } }
                }
            }
        }
    }
    println!("VF-SUMMARY test=index_edges_and_closure checked={} nontrivial={} bad={}", checked, nontrivial, bad);
}
