// ---- units/index/rep_vocab.rs: what it means for an Index to represent a configuration (shared by units index and analyze) ----
pub open spec fn uses_of(t: Target) -> Seq<String> { match t.uses { Some(u) => u@, None => Seq::empty() } }
pub open spec fn ignores_of(t: Target) -> Seq<String> { match t.ignores { Some(u) => u@, None => Seq::empty() } }
pub open spec fn has_use(t: Target, u: Seq<char>) -> bool { exists|k: int| 0 <= k < uses_of(t).len() && #[trigger] uses_of(t)[k]@ == u }
pub open spec fn has_ignore(t: Target, g: Seq<char>) -> bool { exists|k: int| 0 <= k < ignores_of(t).len() && #[trigger] ignores_of(t)[k]@ == g }
pub open spec fn is_target(ts: Seq<Target>, p: Seq<char>) -> bool { exists|i: int| 0 <= i < ts.len() && #[trigger] ts[i].path@ == p }
pub open spec fn views_in(v: Seq<&str>, p: Seq<char>) -> bool { exists|k: int| 0 <= k < v.len() && (#[trigger] v[k])@ == p }
// the tries and the two reverse maps represent the configuration
pub open spec fn rep_parts(ts: Seq<Target>, tkeys: Set<Seq<char>>, ukeys: Set<Seq<char>>, ikeys: Set<Seq<char>>, u2t: Map<Seq<char>, Vec<&str>>, i2t: Map<Seq<char>, Vec<&str>>) -> bool {
    &&& forall|l: Seq<char>| #![trigger tkeys.contains(l)] tkeys.contains(l) <==> is_target(ts, l)
    &&& forall|u: Seq<char>| #![trigger ukeys.contains(u)] ukeys.contains(u) <==> exists|i: int| 0 <= i < ts.len() && has_use(#[trigger] ts[i], u)
    &&& forall|g: Seq<char>| #![trigger ikeys.contains(g)] ikeys.contains(g) <==> exists|i: int| 0 <= i < ts.len() && has_ignore(#[trigger] ts[i], g)
    &&& forall|u: Seq<char>| #![trigger u2t.dom().contains(u)] u2t.dom().contains(u) <==> ukeys.contains(u)
    &&& forall|g: Seq<char>| #![trigger i2t.dom().contains(g)] i2t.dom().contains(g) <==> ikeys.contains(g)
    &&& forall|u: Seq<char>, p: Seq<char>| #![trigger views_in(u2t[u]@, p)] u2t.dom().contains(u) ==> (views_in(u2t[u]@, p) <==> exists|i: int| 0 <= i < ts.len() && #[trigger] ts[i].path@ == p && has_use(ts[i], u))
    &&& forall|g: Seq<char>, p: Seq<char>| #![trigger views_in(i2t[g]@, p)] i2t.dom().contains(g) ==> (views_in(i2t[g]@, p) <==> exists|i: int| 0 <= i < ts.len() && #[trigger] ts[i].path@ == p && has_ignore(ts[i], g))
}
pub open spec fn rep_ok(ix: Index, ts: Seq<Target>) -> bool { rep_parts(ts, ix.targets_trie.keys, ix.uses.keys, ix.ignores.keys, ix.use2targets@, ix.ignore2targets@) }
