#![feature(allocator_api)]
#![allow(unused)]
// unit `tailsrv`: the listener side of `log tail` (core/server.rs LogServer::process) - what is printed is what the client sent (C20)
use vstd::prelude::*;
verus! {
//!include prelude/std_gaps.rs
//!include prelude/keymap.rs
//!include prelude/app.rs
pub mod graph { pub use super::graph_err::GraphError; }
use server::{LogServerConfig, LogFilterInput};
// the error type, with the variants these functions build (BindTimeout carries the prelude's stand-in for tokio's Elapsed)
pub enum ServerError { Filter(String), LogClient(std::io::Error), LogServer(std::io::Error), BindTimeout(tokio::time::Elapsed), Lock(std::io::Error) }
// R12 targets for variant constructors used as function values, and for the closure formatting a serde_json error
pub fn log_client_err(e: std::io::Error) -> (r: ServerError) ensures r == ServerError::LogClient(e) { ServerError::LogClient(e) }
pub fn log_server_err(e: std::io::Error) -> (r: ServerError) ensures r == ServerError::LogServer(e) { ServerError::LogServer(e) }
#[verifier::external_body] pub fn filter_err(e: serde_json::Error) -> (r: ServerError) ensures r is Filter { unimplemented!() }
//!type src/core/server.rs LogServer
pub struct LogServer<'a> {
    pub config: LogServerConfig,
    pub address: String,
    pub bind_timeout: std::time::Duration,
    pub filter: &'a LogFilterInput,
}
//!end
// a byte sequence that does not end at a line boundary
pub open spec fn unterminated(s: Seq<u8>) -> bool { s.len() > 0 && s.last() != 10u8 }
pub open spec fn closing_nl(s: Seq<u8>) -> Seq<u8> { if unterminated(s) { seq![10u8] } else { Seq::<u8>::empty() } }
// C20 (handshake): what a listener has written to the clients it served so far - k copies of its greeting
pub open spec fn greetings(g: Seq<u8>, k: nat) -> Seq<u8> decreases k { if k == 0 { Seq::<u8>::empty() } else { greetings(g, (k - 1) as nat) + g } }

impl<'a> LogServer<'a> {
//!fn src/core/server.rs LogServer::serve rules=R1,R10,R12 props=C20
@    #[verifier::exec_allows_no_decreases_clause]
    pub(crate) async fn serve(self, Tracked(w): Tracked<&mut World>) -> ⟦(res: ⟧Result<(), ServerError>⟦)⟧
@        ensures
@            // the listener serves until something fails; it never returns Ok
@            res is Err,
    {
        let timeout_res = tokio::time::timeout_bind(self.bind_timeout, &self.address, Tracked(w))
        .await;
        match timeout_res {
            Ok(Ok(listener)) => {
                let mut args_data = serde_json::to_vec(&self.filter)
                    .map_err(filter_err)?;
                args_data.push(b'\n');
@                proof { axiom_json_enc_ref(self.filter); }
@                let ghost t0 = w.tail;
@                let ghost k: nat = 0;
                loop
@                    invariant
@                        // C20 (handshake): every client served so far was first sent the listener's own filters as one line - the
@                        // line LogServerClient::connect reads and applies - and nothing else is ever written to a client
@                        args_data@ == json_enc(*self.filter) + seq![10u8], // [C20]
@                        w.tail == t0 + greetings(args_data@, k), // [C20]
                {
                    let (mut socket, _) =
                        listener.accept().await.map_err(log_server_err)?;
                    // first, write to the client what we're interested in receiving
                    socket
                        .write_all(&args_data, Tracked(w))
                        .await
                        .map_err(log_server_err)?;
@                    proof { k = k + 1; }
                    Self::process(socket, Tracked(w)).await?;
                }
            }
            Ok(Err(e)) => {
                Err(ServerError::Lock(e))
            }
            Err(e) => Err(ServerError::BindTimeout(e)),
        }
    }
//!end
//!fn src/core/server.rs LogServer::process rules=R1,R10,R12,R23 props=C20
    async fn process(socket: tokio::net::TcpStream, Tracked(w): Tracked<&mut World>) -> ⟦(res: ⟧Result<(), ServerError>⟦)⟧
@        ensures
@            // C20: what the listener prints for one client is, byte for byte, what that client sent - no decoding, no trimming of a
@            // carriage return, nothing dropped or added inside the stream; only a connection that ends in the middle of a line has
@            // that line finished
@            res is Ok ==> final(w).stdout_bytes == old(w).stdout_bytes + tokio::io::incoming_of(socket) + closing_nl(tokio::io::incoming_of(socket)), // [C20]
@            // the relay writes nothing back to the client
@            final(w).tail == old(w).tail,
    {
        let mut br = tokio::io::BufReader::new(socket);
        let mut stdout = tokio::io::stdout();
        // Relay the client's bytes a line at a time, exactly as they arrive. A line is
        // neither decoded nor trimmed: a carriage return before the newline, or bytes that
        // are not UTF-8, are part of what the task wrote and of what its stored log holds.
        let mut line = Vec::new();
@        let ghost out0 = old(w).stdout_bytes;
@        let ghost inc = tokio::io::incoming_of(socket);
        while br
            .read_until(b'\n', &mut line)
            .await
            .map_err(log_client_err)?
            > 0
@            invariant
@                out0 == old(w).stdout_bytes, inc == tokio::io::incoming_of(socket), w.tail == old(w).tail,
@                line@.len() == 0,
@                br.consumed + br.rest =~= inc,
@                w.stdout_bytes =~= out0 + br.consumed + closing_nl(br.consumed),
@                unterminated(br.consumed) ==> br.rest.len() == 0,
@            ensures
@                br.rest.len() == 0,
@            decreases br.rest.len(),
        {
            stdout
                .write_all(&line, Tracked(w))
                .await
                .map_err(log_client_err)?;
            // a connection that ended in the middle of a line: finish the line
            if !line.ends_with(&[b'\n']) {
                stdout
                    .write_all(&[b'\n'], Tracked(w))
                    .await
                    .map_err(log_client_err)?;
            }
            stdout.flush().await.map_err(log_client_err)?;
            line.clear();
        }
@        assert(br.consumed =~= inc);
        Ok(())
    }
//!end
}
} // verus!
fn main() {}
