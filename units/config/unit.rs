#![feature(allocator_api)]
#![allow(unused)]
// unit `config`: Config::new / Config::check / ConfigLockfile::load of core/mod.rs (C17, C18)
use vstd::prelude::*;
verus! {
//!include prelude/std_gaps.rs
//!include prelude/keymap.rs
//!include prelude/app.rs
pub mod graph { pub use super::graph_err::GraphError; }
use fs::File;
pub mod file {
    use vstd::prelude::*;
    use super::*;
    pub uninterp spec fn stem_of(p: Seq<char>) -> Option<Seq<char>>;
    pub uninterp spec fn lock_name_of(stem: Seq<char>) -> Seq<char>;
//!assumed src/core/file.rs get_stem sha=847bfc7f77e874f4
    // ASSUMED (repo function core/file.rs, not verified): the file stem of a path, an error when there is none
    #[verifier::external_body] pub fn get_stem(p: &path::Path) -> (r: Result<&str, MonorailError>)
        ensures r is Ok <==> stem_of(p@) is Some, r matches Ok(s) ==> Some(s@) == stem_of(p@) { unimplemented!() }
    // R12 target for `format!("{}.lock", stem)`
    #[verifier::external_body] pub fn lock_name(stem: &str) -> (r: String) ensures r@ == lock_name_of(stem@) { unimplemented!() }
}

// what "the configuration file at p is well formed" means: present, valid UTF-8, decodes
pub open spec fn cfg_file_ok(fsm: Map<Seq<char>, Seq<u8>>, p: Seq<char>) -> bool {
    fsm.dom().contains(p) && utf8_ok(fsm[p]) && json_parse::<Config>(fsm[p]) is Some
}
pub open spec fn with_checksum(c0: Config, sum: String) -> Config { Config { checksum: sum, ..c0 } }

impl Config {
//!fn src/core/mod.rs Config::new rules=R10,R16,R17 props=C17,C18
    pub(crate) fn new(file_path: &path::Path, Tracked(w): Tracked<&mut World>) -> ⟦(res: ⟧Result<Config, MonorailError>⟦)⟧
@        ensures
@            final(w).fs == old(w).fs, final(w).io_faults >= old(w).io_faults,
@            // C17 / C18: what is hashed and what is parsed is the WHOLE file, whatever its size; nothing else influences the result
@            res matches Ok(c) ==> old(w).fs.dom().contains(file_path@) && c.checksum@ == hex(sha256(old(w).fs[file_path@])), // [C17,C18]
@            res matches Ok(c) ==> json_parse::<Config>(old(w).fs[file_path@]) is Some && c == with_checksum(json_parse::<Config>(old(w).fs[file_path@])->Some_0, c.checksum), // [C18,C17]
@            // C18: acceptance depends only on the bytes denoting a valid value (no size / chunking effect): a well formed file is accepted
@            (cfg_file_ok(old(w).fs, file_path@) && final(w).io_faults == old(w).io_faults) ==> res is Ok, // [C18]
@            res is Ok ==> cfg_file_ok(old(w).fs, file_path@), // [C18]
    {
        let mut file = File::open(file_path, Tracked(w)).map_err(|e| {
            MonorailError::Generic(fmt_opaque())
        })?;
        // Read the whole file: the checksum and the parsed configuration must
        // cover every byte of it, whatever its size.
        let mut data⟦: Vec<u8>⟧ = Vec::new();
        file.read_to_end(&mut data, Tracked(w)).map_err(|e| {
            MonorailError::Generic(fmt_opaque())
        })?;
@        assert(data@ =~= old(w).fs[file_path@]);
        let buf = data.as_slice();
        let mut hasher = sha2::Sha256::new();
        hasher.update(buf);
@        assert(hasher.fed =~= old(w).fs[file_path@]);

        let mut config: Config = serde_json::from_str(strs::from_utf8(buf).map_err(|e| {
            MonorailError::Generic(fmt_opaque())
        })?)
        .map_err(|e| {
            MonorailError::Generic(fmt_opaque())
        })?;
        config.checksum = sha2::hex_of(hasher.finalize());
        Ok(config)
    }
//!end
}

impl ConfigLockfile {
//!fn src/core/mod.rs ConfigLockfile::load rules=R10,R16,R17 props=C17
    pub(crate) fn load(fp: &path::Path, Tracked(w): Tracked<&mut World>) -> ⟦(r: ⟧Result<Self, MonorailError>⟦)⟧
@        ensures
@            final(w).fs == old(w).fs, final(w).io_faults >= old(w).io_faults,
@            r matches Ok(l) ==> old(w).fs.dom().contains(fp@) && json_parse::<ConfigLockfile>(old(w).fs[fp@]) == Some(l), // [C17]
@            (r is Err && final(w).io_faults == old(w).io_faults) ==> !old(w).fs.dom().contains(fp@) || json_parse::<ConfigLockfile>(old(w).fs[fp@]) is None,
    {
        let file = fs::OpenOptions::new()
            .read(true)
            .open(fp, Tracked(w))
            .map_err(|e| MonorailError::Generic(fmt_opaque()))?;
        let v: Self = serde_json::from_reader(file, Tracked(w))?;
        Ok(v)
    }
//!end
}

// the triple is untouched as far as the current file system shows: the source hashes to the embedded checksum and the
// lockfile decodes to the checksum of the configuration that was read
pub open spec fn untouched(cfg: Config, fsm: Map<Seq<char>, Seq<u8>>, config_path: Seq<char>, work_path: Seq<char>) -> bool {
    let src = cfg.source->Some_0;
    let lp = path_join(work_path, file::lock_name_of(file::stem_of(config_path)->Some_0));
    &&& fsm.dom().contains(src.path@) && src.checksum is Some && src.checksum->Some_0@ == hex(sha256(fsm[src.path@]))
    &&& file::stem_of(config_path) is Some
    &&& fsm.dom().contains(lp) && json_parse::<ConfigLockfile>(fsm[lp]) is Some && json_parse::<ConfigLockfile>(fsm[lp])->Some_0.checksum@ == cfg.checksum@
}

impl Config {
//!fn src/core/mod.rs Config::check rules=R1,R10,R16,R17 props=C17
    pub(crate) fn check(
        &self,
        config_path: &path::Path,
        work_path: &path::Path,
    Tracked(w): Tracked<&mut World>) -> ⟦(res: ⟧Result<(), MonorailError>⟦)⟧
@        ensures
@            final(w).fs == old(w).fs, final(w).io_faults >= old(w).io_faults,
@            self.source is None ==> res is Ok,
@            // C17 (only-if): a generated configuration is accepted only when source, generated file and lockfile agree
@            (self.source is Some && res is Ok) ==> untouched(*self, old(w).fs, config_path@, work_path@), // [C17]
@            // C17 (if): an untouched triple is accepted (barring environmental I/O faults)
@            (self.source is Some && untouched(*self, old(w).fs, config_path@, work_path@) && final(w).io_faults == old(w).io_faults) ==> res is Ok, // [C17]
    {
        // if the config specifies a source, validate source and output files
        match &self.source {
            Some(source) => {
                let mut hasher = sha2::Sha256::new();
                let source_path = path::Path::new(&source.path);
                if !source_path.exists(Tracked(w)) {
                    return Err(MonorailError::Generic(fmt_opaque()));
                }
                // load the lockfile for checksum comparison
                let lockfile_path = path::Path::new(work_path)
                    .join(file::lock_name(file::get_stem(config_path)?));
                let lockfile = ConfigLockfile::load(&lockfile_path, Tracked(w))?;

                // first, check if the source has changed
                hasher.update(fs::read(source_path, Tracked(w))?);
                let checksum = sha2::hex_of(hasher.finalize_reset());
@                assert(checksum@ == hex(sha256(old(w).fs[source.path@]))) by { assert(Seq::<u8>::empty() + old(w).fs[source.path@] =~= old(w).fs[source.path@]); }
                match &source.checksum {
                    Some(source_checksum) => {
                        if checksum != *source_checksum {
                            return Err(MonorailError::from(
                                "Source configuration has been modified since the last `config generate`",
                            ));
                        }
                    }
                    None => {
                        return Err(MonorailError::from(
                            "Configuration with 'source' has no checksum to compare with",
                        ))
                    }
                }

                // second, check if the output has changed
                if self.checksum != lockfile.checksum {
                    return Err(MonorailError::from(
                        "Generated configuration has been modified since the last `config generate`, or the lockfile checksum has been edited"
                    ));
                }
                Ok(())
            }
            None => Ok(()),
        }
    }
//!end
}
} // verus!
fn main() {}
