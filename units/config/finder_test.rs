// Run-time finder for unit `config` (child module of `core` in a scratch copy of the crate; never the deciding step).
use super::*;
use sha2::Digest;

fn sha_hex(b: &[u8]) -> String { let mut h = sha2::Sha256::new(); h.update(b); format!("{:x}", h.finalize()) }

fn cfg_json(pad: usize, unicode: bool, source: Option<(&str, &str)>) -> Vec<u8> {
    // one JSON value, serialised with `pad` spaces of insignificant whitespace after the opening brace
    let mut s = String::from("{");
    s.push_str(&" ".repeat(pad));
    if let Some((p, c)) = source { s.push_str(&format!("\"source\":{{\"path\":\"{}\",\"algorithm\":\"sha256\",\"checksum\":\"{}\"}},", p, c)); }
    s.push_str("\"targets\":[{\"path\":\"");
    s.push_str(if unicode { "services/caf\u{e9}" } else { "services/cafe" });
    s.push_str("\"},{\"path\":\"lib\"}]}");
    s.into_bytes()
}

#[test]
fn vf_config_new_whole_file() {
    // C18 / C17: acceptance, the parsed value and the checksum depend on the whole file and on nothing but its JSON value
    let td = crate::core::testing::new_testdir().unwrap();
    let (mut checked, mut bad, mut nontrivial) = (0u64, 0u64, 0u64);
    let mut pads: Vec<(usize, bool)> = vec![(0, false), (1, true), (9000, false), (40000, true), (200000, false)];
    // a multi-byte character straddling a 8 KiB / 16 KiB / 64 KiB offset
    for boundary in [4096usize, 8192, 16384, 32768, 65536] { for d in 0..12usize { pads.push((boundary - 28 - d, true)); } }
    for (pad, uni) in pads {
        checked += 1;
        if pad > 8000 { nontrivial += 1; }
        let bytes = cfg_json(pad, uni, None);
        let p = td.path().join(format!("c{}_{}.json", pad, uni));
        std::fs::write(&p, &bytes).unwrap();
        let want_path = if uni { "services/caf\u{e9}" } else { "services/cafe" };
        match Config::new(&p) {
            Ok(c) => {
                let ok = c.targets.len() == 2 && c.targets[0].path == want_path && c.checksum == sha_hex(&bytes);
                if !ok { bad += 1; if bad <= 3 { println!("VF-FAIL config of {} bytes (padding {}, non-ascii {}) :: parsed {} targets, checksum covers the whole file: {} (C18)", bytes.len(), pad, uni, c.targets.len(), c.checksum == sha_hex(&bytes)); } }
            }
            Err(e) => { bad += 1; if bad <= 3 { println!("VF-FAIL config of {} bytes (padding {}, non-ascii {}) :: a valid configuration was rejected: {} (C18)", bytes.len(), pad, uni, e); } }
        }
    }
    println!("VF-SUMMARY test=config_new_whole_file checked={} nontrivial={} bad={}", checked, nontrivial, bad);
}

#[test]
fn vf_config_check_untouched_iff_ok() {
    // C17: check() succeeds on the untouched triple and fails after any single-byte edit of source or generated file, or a changed lock checksum
    let td = crate::core::testing::new_testdir().unwrap();
    let work = td.path();
    let (mut checked, mut bad) = (0u64, 0u64);
    for (pad, src_pad) in [(0usize, 0usize), (12000, 0), (0, 70_000), (500, 300_000)] {
        let src = work.join(format!("src{}_{}.json", pad, src_pad));
        // the source may itself be large (C18: sizes far beyond any I/O buffer): padded with insignificant whitespace
        let mut src_bytes = b"{\"targets\":[{\"path\":\"lib\"}]}".to_vec();
        src_bytes.extend(std::iter::repeat(b' ').take(src_pad));
        std::fs::write(&src, &src_bytes).unwrap();
        let gen = work.join(format!("gen{}_{}.json", pad, src_pad));
        let gen_bytes = cfg_json(pad, false, Some((src.to_str().unwrap(), &sha_hex(&src_bytes))));
        let lock = work.join(format!("gen{}_{}.lock", pad, src_pad));
        let write_all = |g: &[u8], s: &[u8], l: &str| { std::fs::write(&gen, g).unwrap(); std::fs::write(&src, s).unwrap(); std::fs::write(&lock, format!("{{\"checksum\":\"{}\"}}", l)).unwrap(); };
        let verdict = || -> Result<(), String> { let c = Config::new(&gen).map_err(|e| e.to_string())?; c.check(&gen, work).map_err(|e| e.to_string()) };
        let good_lock = sha_hex(&gen_bytes);
        // untouched
        write_all(&gen_bytes, &src_bytes, &good_lock);
        checked += 1;
        if let Err(e) = verdict() { bad += 1; println!("VF-FAIL untouched triple (generated file of {} bytes, source of {} bytes) :: rejected: {} (C17) (C18)", gen_bytes.len(), src_bytes.len(), e); }
        // C18: the lockfile is JSON too: re-serialising the same lockfile value (whitespace, line breaks) changes nothing
        for (how, text) in [("pretty-printed", format!("{{\n  \"checksum\": \"{}\"\n}}\n", good_lock)), ("with a leading blank line", format!("\n{{\"checksum\":\"{}\"}}", good_lock)),
                            ("padded with 70 KB of spaces and line breaks", format!("{{{}\"checksum\":{}\"{}\"}}", " \n".repeat(35_000), " ".repeat(10), good_lock))] {
            checked += 1;
            std::fs::write(&gen, &gen_bytes).unwrap(); std::fs::write(&src, &src_bytes).unwrap(); std::fs::write(&lock, &text).unwrap();
            if let Err(e) = verdict() { bad += 1; println!("VF-FAIL untouched triple whose lockfile is {} :: rejected: {} (C18)", how, e); }
        }
        // edits
        let mut edits: Vec<(String, Vec<u8>, Vec<u8>, String)> = vec![];
        for (name, b) in [("newline appended to the generated file", b"\n".to_vec()), ("space appended to the generated file", b" ".to_vec())] {
            let mut g = gen_bytes.clone(); g.extend(b); edits.push((name.to_string(), g, src_bytes.clone(), good_lock.clone()));
        }
        { let mut g = vec![b'\n']; g.extend(gen_bytes.clone()); edits.push(("newline prepended to the generated file".to_string(), g, src_bytes.clone(), good_lock.clone())); }
        { let mut g = gen_bytes.clone(); let k = g.len() - 8; g[k] = b'L'; edits.push(("one byte changed near the end of the generated file".to_string(), g, src_bytes.clone(), good_lock.clone())); }
        { let mut g = gen_bytes.clone(); let k = g.len() - 2; g.insert(k, b' '); edits.push(("one space inserted inside the generated file".to_string(), g, src_bytes.clone(), good_lock.clone())); }
        { let mut s = src_bytes.clone(); s.push(b'\n'); edits.push(("newline appended to the source file".to_string(), gen_bytes.clone(), s, good_lock.clone())); }
        { let mut s = src_bytes.clone(); let k = s.len() - 1; s[k] = if s[k] == b' ' { b'\n' } else { b' ' }; edits.push((format!("last byte of the {}-byte source file changed", src_bytes.len()), gen_bytes.clone(), s, good_lock.clone())); }
        { let mut l = good_lock.clone(); l.replace_range(0..1, if l.starts_with('0') { "1" } else { "0" }); edits.push(("lockfile checksum changed".to_string(), gen_bytes.clone(), src_bytes.clone(), l)); }
        // the lockfile checksum is compared as written: the same digits in another letter case, or with blanks around them, are a change
        if let Some(k) = good_lock.find(|c: char| c.is_ascii_lowercase()) { let mut l = good_lock.clone(); let up = l[k..k + 1].to_ascii_uppercase(); l.replace_range(k..k + 1, &up); edits.push(("one hex letter of the lockfile checksum written in upper case".to_string(), gen_bytes.clone(), src_bytes.clone(), l)); }
        edits.push(("lockfile checksum written in upper case".to_string(), gen_bytes.clone(), src_bytes.clone(), good_lock.to_ascii_uppercase()));
        edits.push(("a blank appended to the lockfile checksum".to_string(), gen_bytes.clone(), src_bytes.clone(), format!("{} ", good_lock)));
        for (name, g, s, l) in edits {
            checked += 1;
            write_all(&g, &s, &l);
            if verdict().is_ok() { bad += 1; println!("VF-FAIL {} (generated file of {} bytes) :: the configuration is still accepted (C17)", name, gen_bytes.len()); }
        }
    }
    // every single-byte replacement in a small generated file must be rejected (or fail to load)
    {
        let src = work.join("srcS.json");
        let src_bytes = b"{\"targets\":[{\"path\":\"lib\"}]}".to_vec();
        std::fs::write(&src, &src_bytes).unwrap();
        let gen = work.join("genS.json");
        let gen_bytes = cfg_json(0, false, Some((src.to_str().unwrap(), &sha_hex(&src_bytes))));
        let lock = work.join("genS.lock");
        std::fs::write(&lock, format!("{{\"checksum\":\"{}\"}}", sha_hex(&gen_bytes))).unwrap();
        for off in 0..gen_bytes.len() {
            for repl in [b'E', b' '] {
                if gen_bytes[off] == repl { continue; }
                checked += 1;
                let mut g = gen_bytes.clone(); g[off] = repl;
                std::fs::write(&gen, &g).unwrap();
                let accepted = match Config::new(&gen) { Ok(c) => c.check(&gen, work).is_ok(), Err(_) => false };
                if accepted { bad += 1; if bad <= 3 { println!("VF-FAIL byte {} of the generated file replaced by {:?} (around {:?}) :: the configuration is still accepted (C17)", off, repl as char, String::from_utf8_lossy(&gen_bytes[off.saturating_sub(8)..(off + 8).min(gen_bytes.len())])); } }
            }
        }
    }
    println!("VF-SUMMARY test=config_check_untouched_iff_ok checked={} nontrivial={} bad={}", checked, checked - 2, bad);
}

// C18: whether a configuration is accepted, and what it means, depends on the JSON VALUE the file denotes - not on how its strings
// are spelled.  Every key and every string value written with a \uXXXX escape for one of its characters denotes the same value.
fn vf_spell(v: &serde_json::Value, escape: bool, out: &mut String) {
    fn s(x: &str, escape: bool, out: &mut String) {
        out.push('"');
        for (i, ch) in x.chars().enumerate() {
            if escape && i == x.chars().count() / 2 && ch.is_ascii_alphanumeric() { out.push_str(&format!("\\u{:04x}", ch as u32)); }
            else if ch == '"' || ch == '\\' { out.push('\\'); out.push(ch); } else { out.push(ch); }
        }
        out.push('"');
    }
    match v {
        serde_json::Value::Object(m) => { out.push('{'); for (i, (k, x)) in m.iter().enumerate() { if i > 0 { out.push(','); } s(k, escape, out); out.push(':'); vf_spell(x, escape, out); } out.push('}'); }
        serde_json::Value::Array(a) => { out.push('['); for (i, x) in a.iter().enumerate() { if i > 0 { out.push(','); } vf_spell(x, escape, out); } out.push(']'); }
        serde_json::Value::String(x) => s(x, escape, out),
        other => out.push_str(&other.to_string()),
    }
}
#[test]
fn vf_config_value_spellings() {
    let td = crate::core::testing::new_testdir().unwrap();
    let (mut checked, mut bad) = (0u64, 0u64);
    let docs = [
        r#"{"targets":[{"path":"svc/api","uses":["lib/core"],"ignores":["svc/api/docs"]},{"path":"lib/core"}]}"#,
        r#"{"out_dir":"build-out","max_retained_runs":7,"change_provider":{"use":"git"},"targets":[{"path":"app","commands":{"path":"scripts","definitions":{"build":{"path":"scripts/b.sh"}}},"argmaps":{"path":"maps"}}],"sequences":{"dev":["build","test"]},"server":{"log":{"host":"127.0.0.1","port":5918,"bind_timeout_ms":1000},"lock":{"host":"127.0.0.1","port":5917,"bind_timeout_ms":1000}}}"#,
    ];
    for (di, doc) in docs.iter().enumerate() {
        let v: serde_json::Value = serde_json::from_str(doc).unwrap();
        let mut plain = String::new(); vf_spell(&v, false, &mut plain);
        let mut escaped = String::new(); vf_spell(&v, true, &mut escaped);
        assert_eq!(serde_json::from_str::<serde_json::Value>(&escaped).unwrap(), v, "finder bug: the spellings do not denote one value");
        checked += 1;
        let (pp, pe) = (td.path().join(format!("plain{}.json", di)), td.path().join(format!("escaped{}.json", di)));
        std::fs::write(&pp, &plain).unwrap(); std::fs::write(&pe, &escaped).unwrap();
        match (Config::new(&pp), Config::new(&pe)) {
            (Ok(a), Ok(b)) => { let (mut ja, mut jb) = (serde_json::to_value(&a).unwrap(), serde_json::to_value(&b).unwrap()); for j in [&mut ja, &mut jb] { if let Some(o) = j.as_object_mut() { o.remove("checksum"); } }
                if ja != jb { bad += 1; println!("VF-FAIL configuration #{} spelled with and without \\u escapes :: the two spellings of one value are read as different configurations (C18)", di); } }
            (Ok(_), Err(e)) => { bad += 1; println!("VF-FAIL configuration #{} with every key and string written with one \\uXXXX escape :: rejected ({}) although the plain spelling of the same value is accepted (C18)", di, e); }
            (Err(e), _) => { bad += 1; println!("VF-FAIL configuration #{} (plain spelling) :: a valid configuration was rejected: {} (C18)", di, e); }
        }
    }
    // key order inside an object is not part of the value: names that differ only in letter case are different names, in either order
    {
        checked += 1;
        let a = r#"{"targets":[{"path":"app"}],"sequences":{"CI":["build"],"ci":["lint","test"],"Dev":["x"]}}"#;
        let b = r#"{"sequences":{"Dev":["x"],"ci":["lint","test"],"CI":["build"]},"targets":[{"path":"app"}]}"#;
        let (pa, pb) = (td.path().join("order_a.json"), td.path().join("order_b.json"));
        std::fs::write(&pa, a).unwrap(); std::fs::write(&pb, b).unwrap();
        match (Config::new(&pa), Config::new(&pb)) {
            (Ok(x), Ok(y)) => { let (mut jx, mut jy) = (serde_json::to_value(&x).unwrap(), serde_json::to_value(&y).unwrap()); for j in [&mut jx, &mut jy] { if let Some(o) = j.as_object_mut() { o.remove("checksum"); } }
                let n = jx["sequences"].as_object().map(|o| o.len()).unwrap_or(0);
                if jx != jy || n != 3 { bad += 1; println!("VF-FAIL one configuration value with its `sequences` keys (\"CI\", \"ci\", \"Dev\") written in two orders :: read as {} and {} ; the order of keys must not matter and all three names must survive (C18)", jx["sequences"], jy["sequences"]); } }
            (a, b) => { bad += 1; println!("VF-FAIL one configuration value with its `sequences` keys written in two orders :: rejected: {:?} / {:?} (C18)", a.err().map(|e| e.to_string()), b.err().map(|e| e.to_string())); }
        }
    }
    println!("VF-SUMMARY test=config_value_spellings checked={} nontrivial={} bad={}", checked, checked, bad);
}

