// Bounded stand-in for `config generate` (integration test in a scratch copy of the crate, drives the REAL binary).
// config_generate manipulates serde_json::Value through chains of mutable borrows and is not under a Verus contract; this runs it on
// serialisations of one configuration value - compact, pretty with other key order, padded - of 1 KiB .. 1.2 MiB, delivered to stdin
// in pieces of several sizes, and demands byte-identical results (C18).  BOUND: the sizes / chunkings listed in `cases`.
use std::io::Write;
use std::process::{Command, Stdio};
const BIN: &str = env!("CARGO_BIN_EXE_monorail");

fn value_text(n_targets: usize, style: u8, pad: usize) -> String {
    let mut ts = vec![];
    for i in 0..n_targets {
        let (p, u, g) = (format!("\"path\":\"pkg/t{}\"", i), format!("\"uses\":[\"shared/lib{}\"]", i % 5), format!("\"ignores\":[\"pkg/t{}/docs\"]", i));
        ts.push(match style { 0 => format!("{{{},{},{}}}", p, u, g), _ => format!("{{\n  {},\n  {},\n  {}\n }}", g, p, u) });
    }
    let sep = format!(",{}", " ".repeat(pad));
    match style {
        0 => format!("{{\"source\":{{\"path\":\"cfg.src\"}},\"out_dir\":\"o\",\"targets\":[{}]}}", ts.join(&sep)),
        _ => format!("{{\n \"targets\": [\n {}\n ],\n \"out_dir\": \"o\",\n \"source\": {{ \"path\": \"cfg.src\" }}\n}}\n", ts.join(&format!(",\n{}", " ".repeat(pad)))),
    }
}

fn generate(root: &std::path::Path, name: &str, input: &[u8], chunk: usize) -> (bool, String, Option<Vec<u8>>, Option<Vec<u8>>) {
    let dir = root.join(name);
    std::fs::create_dir_all(&dir).unwrap();
    std::fs::write(dir.join("cfg.src"), b"source\n").unwrap();
    let out = dir.join("Monorail.json");
    let mut child = Command::new(BIN).current_dir(&dir).arg("-f").arg(&out).args(["config", "generate"])
        .stdin(Stdio::piped()).stdout(Stdio::piped()).stderr(Stdio::piped()).spawn().unwrap();
    let mut stdin = child.stdin.take().unwrap();
    let data = input.to_vec();
    let writer = std::thread::spawn(move || {
        for (i, piece) in data.chunks(chunk).enumerate() {
            if stdin.write_all(piece).is_err() { break; }
            let _ = stdin.flush();
            if i < 3 { std::thread::sleep(std::time::Duration::from_millis(15)); }
        }
    });
    let o = child.wait_with_output().unwrap();
    let _ = writer.join();
    (o.status.success(), String::from_utf8_lossy(&o.stderr).replace('\n', " ").chars().take(200).collect(), std::fs::read(&out).ok(), std::fs::read(dir.join("Monorail.lock")).ok())
}

#[test]
fn vf_config_generate_serialisations() {
    let td = tempfile::tempdir().unwrap();
    let (mut checked, mut bad) = (0u64, 0u64);
    // (targets, padding, chunk size): compact sizes ~1 KiB, ~70 KiB, ~0.3 MiB, ~1.2 MiB
    for (n, pad, chunk) in [(10usize, 0usize, 1usize << 20), (10, 0, 7), (200, 200, 4096), (200, 200, 65536), (900, 0, 1 << 20), (900, 300, 8192), (900, 1200, 1 << 20)] {
        let base = value_text(n, 0, 0);
        let (ok0, e0, cfg0, lock0) = generate(td.path(), &format!("b{}_{}_{}", n, pad, chunk), base.as_bytes(), 1 << 20);
        for style in [0u8, 1u8] {
            checked += 1;
            let text = value_text(n, style, pad);
            let same: bool = serde_json::from_str::<serde_json::Value>(&text).unwrap() == serde_json::from_str::<serde_json::Value>(&base).unwrap();
            assert!(same, "finder bug: the serialisations do not denote one value");
            let (ok, e, cfg, lock) = generate(td.path(), &format!("v{}_{}_{}_{}", n, pad, chunk, style), text.as_bytes(), chunk);
            let what = format!("`config generate` fed one configuration of {} targets as {} JSON, {} bytes, in pieces of {} bytes", n, if style == 0 { "compact/padded" } else { "pretty, other key order" }, text.len(), chunk);
            if !ok0 { bad += 1; println!("VF-FAIL {} :: the compact form of {} bytes is rejected: {} (C18)", what, base.len(), e0); continue; }
            if !ok { bad += 1; println!("VF-FAIL {} :: rejected ({}) although the compact form of the same value is accepted (C18)", what, e); continue; }
            if cfg != cfg0 || lock != lock0 { bad += 1; println!("VF-FAIL {} :: the generated configuration or lockfile differs from what the compact form of the same value produces (C18)", what); }
        }
    }
    println!("VF-SUMMARY test=config_generate_serialisations checked={} nontrivial={} bad={}", checked, checked, bad);
}

// C17: what `config generate` writes is accepted by every later command as long as source, generated file and lockfile are untouched -
// also when monorail is started somewhere else than the configuration's directory and a file with the source's name exists in both
// places (generate and the later check must mean the same file: the one relative to the working directory).
#[test]
fn vf_config_generate_then_use_from_another_directory() {
    let td = tempfile::tempdir().unwrap();
    let root = td.path();
    let (mut checked, mut bad) = (0u64, 0u64);
    for (cwd_rel, out_rel) in [(".", "sub/Monorail.json"), (".", "Monorail.json"), ("work", "../cfgs/Monorail.json")] {
        checked += 1;
        let case = root.join(format!("case{}", checked));
        let cwd = if cwd_rel == "." { case.clone() } else { case.join(cwd_rel) };
        std::fs::create_dir_all(&cwd).unwrap();
        let out = if out_rel.starts_with("../") { case.join(&out_rel[3..]) } else { cwd.join(out_rel) };
        std::fs::create_dir_all(out.parent().unwrap()).unwrap();
        std::fs::create_dir_all(cwd.join("pkg")).unwrap(); std::fs::write(cwd.join("pkg/f"), b"x").unwrap();
        std::fs::create_dir_all(out.parent().unwrap().join("pkg")).unwrap(); std::fs::write(out.parent().unwrap().join("pkg/f"), b"x").unwrap();
        // a file called cfg.src in the working directory AND (with other bytes) beside the output file
        std::fs::write(cwd.join("cfg.src"), b"the source, as seen from the working directory\n").unwrap();
        if out.parent().unwrap() != cwd { std::fs::write(out.parent().unwrap().join("cfg.src"), b"another file of the same name beside the generated configuration\n").unwrap(); }
        let input = "{\"source\":{\"path\":\"cfg.src\"},\"targets\":[{\"path\":\"pkg\"}]}";
        let mut child = Command::new(BIN).current_dir(&cwd).arg("-f").arg(&out).args(["config", "generate"]).stdin(Stdio::piped()).stdout(Stdio::piped()).stderr(Stdio::piped()).spawn().unwrap();
        child.stdin.take().unwrap().write_all(input.as_bytes()).unwrap();
        let g = child.wait_with_output().unwrap();
        let what = format!("`config generate -f <case>/{}` started in `<case>/{}` (a `cfg.src` exists in the working directory{}), then `config show` and `target show` with nothing touched", out_rel, cwd_rel, if out.parent().unwrap() != cwd { " and, with other content, beside the output file" } else { "" });
        if !g.status.success() { bad += 1; println!("VF-FAIL {} :: generate failed: {} (C17)", what, String::from_utf8_lossy(&g.stderr).replace('\n', " ").chars().take(200).collect::<String>()); continue; }
        for api in [vec!["config", "show"], vec!["target", "show"]] {
            let o = Command::new(BIN).current_dir(&cwd).arg("-f").arg(&out).args(&api).output().unwrap();
            if !o.status.success() { bad += 1; println!("VF-FAIL {} :: `{}` rejects the untouched triple: {} (C17)", what, api.join(" "), (String::from_utf8_lossy(&o.stdout) + String::from_utf8_lossy(&o.stderr)).replace('\n', " ").chars().take(260).collect::<String>()); break; }
        }
        // and an edit of the source (the file generate read) is noticed
        std::fs::write(cwd.join("cfg.src"), b"edited\n").unwrap();
        let o = Command::new(BIN).current_dir(&cwd).arg("-f").arg(&out).args(["config", "show"]).output().unwrap();
        if o.status.success() { bad += 1; println!("VF-FAIL {} :: after editing the source file in the working directory `config show` still succeeds (C17)", what); }
    }
    println!("VF-SUMMARY test=config_generate_then_use_from_another_directory checked={} nontrivial={} bad={}", checked, checked, bad);
}

