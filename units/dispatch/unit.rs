#![feature(allocator_api)]
#![allow(unused)]
// unit `dispatch`: api/cli.rs handle — no API acts on a configuration that has not passed Config::check (C17)
use vstd::prelude::*;
verus! {
//!include prelude/std_gaps.rs
//!include prelude/keymap.rs
//!include prelude/app.rs
pub mod graph { pub use super::graph_err::GraphError; }
pub mod core { pub(crate) use super::Config; }
pub struct ArgMatches { pub x: u8 }
impl ArgMatches {
    // clap: ASSUMED total functions of the parsed command line
    #[verifier::external_body] pub fn subcommand_matches(&self, name: &str) -> Option<&ArgMatches> { unimplemented!() }
    #[verifier::external_body] pub fn get_one_u8(&self, name: &str) -> Option<&u8> { unimplemented!() }
    #[verifier::external_body] pub fn get_one_string(&self, name: &str) -> Option<&String> { unimplemented!() }
}
//!type src/api/cli.rs OutputOptions
pub struct OutputOptions<'a> {
    pub format: &'a str,
}
//!end
pub mod app { use vstd::prelude::*; use super::*;
    #[verifier::external_body] pub fn setup_tracing(format: &str, level: u8) -> (r: Result<(), MonorailError>) { unimplemented!() } }
impl path::Path {
    #[verifier::external_body] pub fn is_absolute(&self) -> bool { unimplemented!() }
    #[verifier::external_body] pub fn parent(&self) -> Option<&path::Path> { unimplemented!() }
}
// C17: the ghost world of one invocation: `checked` - the configuration in use has passed Config::check (source, generated file and
// lockfile untouched); `acted` - some API other than `config generate` has run
impl Config {
    #[verifier::external_body] pub fn new(p: &path::Path) -> (r: Result<Config, MonorailError>) { unimplemented!() }
    // contract of Config::check as used here (proved in unit config: Ok iff the triple is untouched)
    #[verifier::external_body] pub fn check(&self, p: &path::Path, work_path: &path::Path, Tracked(w): Tracked<&mut World>) -> (r: Result<(), MonorailError>)
        ensures r is Ok ==> final(w).checked, final(w).acted == old(w).acted, r is Err ==> final(w).checked == old(w).checked { unimplemented!() }
    #[verifier::external_body] pub fn fill(&mut self) { unimplemented!() }
}
// printing the configuration (`config show`) is an API like the others
#[verifier::external_body] pub fn write_result<T>(value: &Result<T, MonorailError>, opts: &OutputOptions<'_>, Tracked(w): Tracked<&mut World>) -> (r: Result<(), MonorailError>)
    requires old(w).checked, ensures final(w).acted, final(w).checked == old(w).checked { unimplemented!() }
// `config generate` neither uses nor requires an existing configuration (it writes one)
#[verifier::external_body] pub fn handle_config_generate(output_file_path: &path::Path, output_options: &OutputOptions<'_>, Tracked(w): Tracked<&mut World>) -> (r: Result<i32, MonorailError>) ensures final(w).acted == old(w).acted, final(w).checked == old(w).checked { unimplemented!() }
#[verifier::external_body] pub fn handle_checkpoint_update(config: &core::Config, matches: &ArgMatches, output_options: &OutputOptions<'_>, work_path: &path::Path, Tracked(w): Tracked<&mut World>) -> (r: Result<i32, MonorailError>) requires old(w).checked, ensures final(w).acted, final(w).checked == old(w).checked { unimplemented!() }
#[verifier::external_body] pub fn handle_checkpoint_delete(config: &core::Config, output_options: &OutputOptions<'_>, work_path: &path::Path, Tracked(w): Tracked<&mut World>) -> (r: Result<i32, MonorailError>) requires old(w).checked, ensures final(w).acted, final(w).checked == old(w).checked { unimplemented!() }
#[verifier::external_body] pub fn handle_checkpoint_show(config: &core::Config, output_options: &OutputOptions<'_>, work_path: &path::Path, Tracked(w): Tracked<&mut World>) -> (r: Result<i32, MonorailError>) requires old(w).checked, ensures final(w).acted, final(w).checked == old(w).checked { unimplemented!() }
#[verifier::external_body] pub fn handle_result_show(config: &core::Config, matches: &ArgMatches, output_options: &OutputOptions<'_>, work_path: &path::Path, Tracked(w): Tracked<&mut World>) -> (r: Result<i32, MonorailError>) requires old(w).checked, ensures final(w).acted, final(w).checked == old(w).checked { unimplemented!() }
#[verifier::external_body] pub fn handle_target_show(config: &mut core::Config, matches: &ArgMatches, output_options: &OutputOptions<'_>, work_path: &path::Path, Tracked(w): Tracked<&mut World>) -> (r: Result<i32, MonorailError>) requires old(w).checked, ensures final(w).acted, final(w).checked == old(w).checked { unimplemented!() }
#[verifier::external_body] pub fn handle_target_render(config: &core::Config, matches: &ArgMatches, output_options: &OutputOptions<'_>, work_path: &path::Path, Tracked(w): Tracked<&mut World>) -> (r: Result<i32, MonorailError>) requires old(w).checked, ensures final(w).acted, final(w).checked == old(w).checked { unimplemented!() }
#[verifier::external_body] pub fn handle_analyze(config: &core::Config, matches: &ArgMatches, output_options: &OutputOptions<'_>, work_path: &path::Path, Tracked(w): Tracked<&mut World>) -> (r: Result<i32, MonorailError>) requires old(w).checked, ensures final(w).acted, final(w).checked == old(w).checked { unimplemented!() }
#[verifier::external_body] pub fn handle_run(config: &core::Config, matches: &ArgMatches, output_options: &OutputOptions<'_>, work_path: &path::Path, Tracked(w): Tracked<&mut World>) -> (r: Result<i32, MonorailError>) requires old(w).checked, ensures final(w).acted, final(w).checked == old(w).checked { unimplemented!() }
#[verifier::external_body] pub fn handle_log_tail(config: &core::Config, matches: &ArgMatches, output_options: &OutputOptions<'_>, Tracked(w): Tracked<&mut World>) -> (r: Result<i32, MonorailError>) requires old(w).checked, ensures final(w).acted, final(w).checked == old(w).checked { unimplemented!() }
#[verifier::external_body] pub fn handle_log_show(config: &core::Config, matches: &ArgMatches, output_options: &OutputOptions<'_>, work_path: &path::Path, Tracked(w): Tracked<&mut World>) -> (r: Result<i32, MonorailError>) requires old(w).checked, ensures final(w).acted, final(w).checked == old(w).checked { unimplemented!() }
#[verifier::external_body] pub fn handle_out_delete(config: &core::Config, matches: &ArgMatches, output_options: &OutputOptions<'_>, work_path: &path::Path, Tracked(w): Tracked<&mut World>) -> (r: Result<i32, MonorailError>) requires old(w).checked, ensures final(w).acted, final(w).checked == old(w).checked { unimplemented!() }

pub const HANDLE_OK: i32 = 0;
//!const src/api/cli.rs CMD_CONFIG
pub const CMD_CONFIG: &⟦'static ⟧str = "config";
//!end
//!const src/api/cli.rs CMD_CHECKPOINT
pub const CMD_CHECKPOINT: &⟦'static ⟧str = "checkpoint";
//!end
//!const src/api/cli.rs CMD_DELETE
pub const CMD_DELETE: &⟦'static ⟧str = "delete";
//!end
//!const src/api/cli.rs CMD_UPDATE
pub const CMD_UPDATE: &⟦'static ⟧str = "update";
//!end
//!const src/api/cli.rs CMD_SHOW
pub const CMD_SHOW: &⟦'static ⟧str = "show";
//!end
//!const src/api/cli.rs CMD_TARGET
pub const CMD_TARGET: &⟦'static ⟧str = "target";
//!end
//!const src/api/cli.rs CMD_RUN
pub const CMD_RUN: &⟦'static ⟧str = "run";
//!end
//!const src/api/cli.rs CMD_ANALYZE
pub const CMD_ANALYZE: &⟦'static ⟧str = "analyze";
//!end
//!const src/api/cli.rs CMD_RESULT
pub const CMD_RESULT: &⟦'static ⟧str = "result";
//!end
//!const src/api/cli.rs CMD_LOG
pub const CMD_LOG: &⟦'static ⟧str = "log";
//!end
//!const src/api/cli.rs CMD_TAIL
pub const CMD_TAIL: &⟦'static ⟧str = "tail";
//!end
//!const src/api/cli.rs CMD_OUT
pub const CMD_OUT: &⟦'static ⟧str = "out";
//!end
//!const src/api/cli.rs CMD_RENDER
pub const CMD_RENDER: &⟦'static ⟧str = "render";
//!end
//!const src/api/cli.rs CMD_GENERATE
pub const CMD_GENERATE: &⟦'static ⟧str = "generate";
//!end
//!const src/api/cli.rs ARG_CONFIG_FILE
pub const ARG_CONFIG_FILE: &⟦'static ⟧str = "config-file";
//!end
//!const src/api/cli.rs ARG_VERBOSE
pub const ARG_VERBOSE: &⟦'static ⟧str = "verbose";
//!end

//!fn src/api/cli.rs handle rules=R1,R10,R12,R16 props=C17
pub fn handle<'a>(
    matches: &ArgMatches,
    output_options: &OutputOptions<'a>,
 Tracked(w): Tracked<&mut World>) -> ⟦(res: ⟧Result<i32, MonorailError>⟦)⟧
@    requires !old(w).checked, !old(w).acted,
@    ensures
@        // C17: whatever the command line, no API other than `config generate` runs unless the configuration named by -f has passed
@        // Config::check in this invocation (every handler below REQUIRES it; this is the summary)
@        final(w).acted ==> final(w).checked, // [C17]
{
    let verbosity = matches.get_one_u8(ARG_VERBOSE).unwrap_or(&0);
    app::setup_tracing(output_options.format, *verbosity)?;

    match matches.get_one_string(ARG_CONFIG_FILE) {
        Some(config_file) => {
            let config_file_path = path::Path::new(&config_file);
            if !config_file_path.is_absolute() {
                return Err(MonorailError::Generic(fmt_opaque()));
            }
            // Config generation does not use or require an existing config file, but will use the path from `-f`
            if let Some(config_matches) = matches.subcommand_matches(CMD_CONFIG) {
                if config_matches.subcommand_matches(CMD_GENERATE).is_some() {
                    return handle_config_generate(config_file_path, output_options, Tracked(w));
                }
            }
            let work_path =
                path::Path::new(config_file_path)
                    .parent()
                    .ok_or(MonorailError::Generic(fmt_opaque()))?;
            let mut config = core::Config::new(config_file_path)?;
            config.check(config_file_path, work_path, Tracked(w))?;
            if let Some(config_matches) = matches.subcommand_matches(CMD_CONFIG) {
                if config_matches.subcommand_matches(CMD_SHOW).is_some() {
                    // fill all runtime derived values in prior to serializing
                    config.fill();
                    write_result(&Ok(config), output_options, Tracked(w))?;
                    return Ok(HANDLE_OK);
                }
            }
            if let Some(checkpoint_matches) = matches.subcommand_matches(CMD_CHECKPOINT) {
                if let Some(update_matches) = checkpoint_matches.subcommand_matches(CMD_UPDATE) {
                    return handle_checkpoint_update(
                        &config,
                        update_matches,
                        output_options,
                        work_path,
                    Tracked(w));
                }
                if checkpoint_matches.subcommand_matches(CMD_DELETE).is_some() {
                    return handle_checkpoint_delete(&config, output_options, work_path, Tracked(w));
                }
                if checkpoint_matches.subcommand_matches(CMD_SHOW).is_some() {
                    return handle_checkpoint_show(&config, output_options, work_path, Tracked(w));
                }
            }
            if let Some(result_matches) = matches.subcommand_matches(CMD_RESULT) {
                if result_matches.subcommand_matches(CMD_SHOW).is_some() {
                    return handle_result_show(&config, result_matches, output_options, work_path, Tracked(w));
                }
            }
            if let Some(target_matches) = matches.subcommand_matches(CMD_TARGET) {
                if let Some(show_matches) = target_matches.subcommand_matches(CMD_SHOW) {
                    return handle_target_show(
                        &mut config,
                        show_matches,
                        output_options,
                        work_path,
                    Tracked(w));
                }
                if let Some(render_matches) = target_matches.subcommand_matches(CMD_RENDER) {
                    return handle_target_render(
                        &config,
                        render_matches,
                        output_options,
                        work_path,
                    Tracked(w));
                }
            }
            if let Some(analyze_matches) = matches.subcommand_matches(CMD_ANALYZE) {
                return handle_analyze(&config, analyze_matches, output_options, work_path, Tracked(w));
            }
            if let Some(run_matches) = matches.subcommand_matches(CMD_RUN) {
                return handle_run(&config, run_matches, output_options, work_path, Tracked(w));
            }
            if let Some(log_matches) = matches.subcommand_matches(CMD_LOG) {
                if let Some(tail_matches) = log_matches.subcommand_matches(CMD_TAIL) {
                    return handle_log_tail(&config, tail_matches, output_options, Tracked(w));
                }
                if let Some(show_matches) = log_matches.subcommand_matches(CMD_SHOW) {
                    return handle_log_show(&config, show_matches, output_options, work_path, Tracked(w));
                }
            }
            if let Some(out_matches) = matches.subcommand_matches(CMD_OUT) {
                if let Some(delete_matches) = out_matches.subcommand_matches(CMD_DELETE) {
                    return handle_out_delete(&config, delete_matches, output_options, work_path, Tracked(w));
                }
            }
            Err(MonorailError::from("Command not recognized"))
        }
        None => Err(MonorailError::from("No configuration specified")),
    }
}
//!end
} // verus!
fn main() {}
