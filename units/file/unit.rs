#![feature(allocator_api)]
#![allow(unused)]
// unit `file`: core/file.rs — resolution of a command's executable by file stem (C11, C05)
use vstd::prelude::*;
verus! {
//!include prelude/std_gaps.rs
//!include prelude/keymap.rs
//!include prelude/app.rs
pub mod graph { pub use super::graph_err::GraphError; }

//!fn src/core/file.rs find_file_by_stem rules=R1,R17 props=C11,C05
pub(crate) fn find_file_by_stem(name: &str, dir: &path::Path) -> ⟦(r: ⟧Option<path::PathBuf>⟦)⟧
@    ensures
@        // C11: the executable of a command without a configured path is a regular file of the command directory whose STEM
@        // (file name up to its last dot) equals the command name ...
@        r matches Some(p) ==> exists|i: int| #[trigger] stem_hit(dir@, name@, i) && dir_listing(dir@)[i] == p@, // [C11,C05]
@        // ... and C05: when the listing holds no such file the command is undefined for the target (nothing will be started)
@        r is None ==> (forall|i: int| !#[trigger] stem_hit(dir@, name@, i)) || unreadable_dir(dir@), // [C05,C11]
{
    if let Ok(entries) = fs_dir::read_dir(dir) {
        for entry in ⟦ite: ⟧entries.flatten_vec()
@            invariant
@                ite.seq().len() == dir_listing(dir@).len(), forall|i: int| 0 <= i < ite.seq().len() ==> (#[trigger] ite.seq()[i]).p == dir_listing(dir@)[i],
@                forall|i: int| 0 <= i < ite.index@ ==> !#[trigger] stem_hit(dir@, name@, i),
        {
@            let ghost k = ite.index@ as int;
            let path = entry.path();
            if path.is_file() {
                if let Some(stem) = path.file_stem() {
                    if os_eq(stem, name) {
@                        assert(stem_hit(dir@, name@, k));
                        return Some(path.to_path_buf());
                    }
                }
            }
        }
@        assert(forall|i: int| !#[trigger] stem_hit(dir@, name@, i));
    }
    None
}
//!end

// ---- is_executable: permission bits of the file a path RESOLVES to (symbolic links followed) ----
pub uninterp spec fn mode_of(p: Seq<char>) -> Option<u32>;     // stat(2): mode of the file p resolves to; None: nothing there (or dangling link)
pub uninterp spec fn lmode_of(p: Seq<char>) -> Option<u32>;    // lstat(2): mode of the directory entry itself (for a symbolic link: the link's, always 0777 on Linux)
pub struct Metadata { pub ghost mode: u32 }
pub struct Permissions { pub ghost mode: u32 }
impl Metadata { #[verifier::external_body] pub fn permissions(&self) -> (r: Permissions) ensures r.mode == self.mode { unimplemented!() } }
impl Permissions { #[verifier::external_body] pub fn mode(&self) -> (r: u32) ensures r == self.mode { unimplemented!() } }
pub mod fs_meta {
    use vstd::prelude::*;
    use super::*;
    #[verifier::external_body] pub fn metadata(p: &path::PathBuf) -> (r: Result<Metadata, std::io::Error>)
        ensures r matches Ok(md) ==> mode_of(p@) == Some(md.mode), r is Err ==> mode_of(p@) is None { unimplemented!() }
    #[verifier::external_body] pub fn symlink_metadata(p: &path::PathBuf) -> (r: Result<Metadata, std::io::Error>)
        ensures r matches Ok(md) ==> lmode_of(p@) == Some(md.mode), r is Err ==> lmode_of(p@) is None { unimplemented!() }
}
//!fn src/core/file.rs is_executable rules=R12 props=C06,C05
pub(crate) fn is_executable(p: &path::PathBuf) -> ⟦(r: ⟧bool⟦)⟧
@    ensures
@        // C06 / C05: `executable` means: the file the path resolves to exists and has an execute bit - so that a command file without one
@        // (also when reached through a symbolic link) is reported not_executable and never handed to the OS to be started
@        r == (mode_of(p@) matches Some(m) && m & 0o111 != 0), // [C06,C05]
{
    if let Ok(metadata) = fs_meta::metadata(p) {
        let permissions = metadata.permissions();
        return permissions.mode() & 0o111 != 0;
    }
    false
}
//!end

// ---- get_file_checksum / checksum_is_equal: the ONE function of a file's content that both sides of C07 use ----
pub mod tokio_fs {
    use vstd::prelude::*;
    use super::*;
    pub struct Metadata { pub ghost dir: bool, pub ghost size: nat }
    impl Metadata {
        #[verifier::external_body] pub fn is_dir(&self) -> (r: bool) ensures r == self.dir { unimplemented!() }
        #[verifier::external_body] pub fn len(&self) -> (r: u64) ensures r == self.size { unimplemented!() }
    }
    pub struct File { pub ghost p: Seq<char>, pub ghost rest: Seq<u8>, pub ghost read: Seq<u8> }
    // ASSUMED: stat succeeds exactly when something is there (permission problems aside); it follows symbolic links
    #[verifier::external_body] pub async fn metadata_async(p: &path::Path, Tracked(w): Tracked<&mut World>) -> (r: Result<Metadata, std::io::Error>)
        ensures *final(w) == *old(w), r matches Ok(md) ==> md.dir == is_dir_spec(p@) && (is_dir_spec(p@) || old(w).fs.dom().contains(p@)) && (!is_dir_spec(p@) ==> md.size == old(w).fs[p@].len()), r is Err ==> !is_dir_spec(p@) && !old(w).fs.dom().contains(p@) { unimplemented!() }
    impl File {
        #[verifier::external_body] pub async fn open_async(p: &path::Path, Tracked(w): Tracked<&mut World>) -> (r: Result<File, std::io::Error>)
            ensures *final(w) == *old(w), r matches Ok(f) ==> f.p == p@ && f.read == Seq::<u8>::empty() && (!is_dir_spec(p@) ==> old(w).fs.dom().contains(p@) && f.rest == old(w).fs[p@]) { unimplemented!() }
        // AsyncReadExt::read: some non-empty prefix of what is left (at most the buffer); 0 only at the end
        #[verifier::external_body] pub async fn read_some(&mut self, buf: &mut [u8; 65536], Tracked(w): Tracked<&mut World>) -> (r: Result<usize, std::io::Error>)
            ensures *final(w) == *old(w), final(self).p == old(self).p,
                r matches Ok(n) ==> n <= 65536 && n <= old(self).rest.len() && (n == 0 <==> old(self).rest.len() == 0) && final(buf)@.take(n as int) == old(self).rest.take(n as int)
                    && final(self).rest == old(self).rest.skip(n as int) && final(self).read == old(self).read + old(self).rest.take(n as int) { unimplemented!() }
    }
}
#[verifier::external_body] pub fn new_buffer_64k() -> [u8; 65536] { unimplemented!() }
#[verifier::external_body] pub fn prefix_of(b: &[u8; 65536], n: usize) -> (r: &[u8]) requires n <= 65536 ensures r@ == b@.take(n as int) { unimplemented!() }
#[verifier::external_body] pub fn result_is(r: Result<String, MonorailError>, other: &String) -> (b: bool) ensures b == (r matches Ok(s) && s@ == other@) { unimplemented!() }
// C07 / C02: the checksum of what is at a path NOW: lower-case hex SHA-256 of the whole content of a regular file; the empty string for a
// directory or when nothing is there
// a SHA-256 digest has 32 bytes, its lower-case hex form 64 characters: never the empty string that stands for "nothing there"
pub broadcast axiom fn axiom_digest_len(b: Seq<u8>) ensures #[trigger] hex(sha256(b)).len() == 64;
pub open spec fn sha_now(fs: Map<Seq<char>, Seq<u8>>, p: Seq<char>) -> Seq<char> {
    if is_dir_spec(p) || !fs.dom().contains(p) { Seq::<char>::empty() } else { hex(sha256(fs[p])) }
}

//!fn src/core/file.rs get_file_checksum rules=R10,R12 props=C07,C02,C01
@#[verifier::exec_allows_no_decreases_clause]
pub(crate) async fn get_file_checksum(p: &path::Path, Tracked(w): Tracked<&mut World>) -> ⟦(res: ⟧Result<String, MonorailError>⟦)⟧
@    ensures
@        *final(w) == *old(w),
@        // C07 / C02: a function of the file's WHOLE current content (whatever its size), the same wherever it is called from
@        res matches Ok(s) ==> s@ == sha_now(old(w).fs, p@), // [C07,C02,C01]
{
@    broadcast use axiom_digest_len;
    let md = match tokio_fs::metadata_async(p, Tracked(w)).await {
        Ok(md) => md,
        Err(_) => {
            // non-existent/failed to stat files have an empty checksum
            return Ok(String::new());
        }
    };
    let mut file = match tokio_fs::File::open_async(p, Tracked(w)).await {
        Ok(file) => file,
        Err(e) => {
            // TODO: once io::ErrorKind::IsADirectory, use that
            // empty directories have no checksum; this is required here
            // because opening a normal directory would return an error
            if md.is_dir() {
                return Ok(String::new());
            }
            return Err(MonorailError::from(e));
        }
    };

    // check for symlink directory; this is because File::open won't fail to
    // open the symlink, but attempting to read it will fail
    if md.is_dir() {
        return Ok(String::new());
    }

    // hash the file
    let mut hasher = sha2::Sha256::new();

    let mut buffer = new_buffer_64k();
    loop
@        invariant
@            *w == *old(w), !is_dir_spec(p@), w.fs.dom().contains(p@),
@            hasher.fed == file.read, file.read + file.rest == w.fs[p@],
@        ensures
@            hasher.fed == w.fs[p@],
    {
@        let ghost r0 = file.read; let ghost t0 = file.rest;
        let num = file.read_some(&mut buffer, Tracked(w)).await?;
        if num == 0 {
@            assert(file.read =~= w.fs[p@]) by { assert(t0.len() == 0); assert(r0 + t0 =~= r0); }
            break;
        }

        hasher.update(prefix_of(&buffer, num));
@        assert(file.read + file.rest =~= w.fs[p@]) by { assert((r0 + t0.take(num as int)) + t0.skip(num as int) =~= r0 + t0); }
    }
    Ok(sha2::hex_of(hasher.finalize()))
}
//!end
//!fn src/core/file.rs checksum_is_equal rules=R10,R12 props=C07,C02,C01
pub(crate) async fn checksum_is_equal(
    pending: &HashMap<String, String>,
    work_path: &path::Path,
    name: &str,
 Tracked(w): Tracked<&mut World>) -> ⟦(r: ⟧bool⟦)⟧
@    ensures
@        *final(w) == *old(w),
@        // C02 / C07: a path is settled only if the pending map records exactly the checksum of its current content
@        r ==> pending@.dom().contains(name@) && pending@[name@]@ == sha_now(old(w).fs, path_join(work_path@, name@)), // [C07,C02,C01]
@        !pending@.dom().contains(name@) ==> !r,
{
    match pending.get(name) {
        Some(checksum) => {
            // compute checksum of x.name and check not equal
            result_is(get_file_checksum(&work_path.join(name), Tracked(w)).await, checksum)
        }
        None => false,
    }
}
//!end
} // verus!
fn main() {}
