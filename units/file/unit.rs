#![feature(allocator_api)]
#![allow(unused)]
// unit `file`: core/file.rs — resolution of a command's executable by file stem (C11, C05)
use vstd::prelude::*;
verus! {
//!include prelude/std_gaps.rs
//!include prelude/keymap.rs
//!include prelude/app.rs
pub mod graph { pub use super::graph_err::GraphError; }

//!fn src/core/file.rs find_file_by_stem rules=R1,R17 props=C11,C05
pub(crate) fn find_file_by_stem(name: &str, dir: &path::Path) -> ⟦(r: ⟧Option<path::PathBuf>⟦)⟧
@    ensures
@        // C11: the executable of a command without a configured path is a regular file of the command directory whose STEM
@        // (file name up to its last dot) equals the command name ...
@        r matches Some(p) ==> exists|i: int| #[trigger] stem_hit(dir@, name@, i) && dir_listing(dir@)[i] == p@, // [C11,C05]
@        // ... and C05: when the listing holds no such file the command is undefined for the target (nothing will be started)
@        r is None ==> (forall|i: int| !#[trigger] stem_hit(dir@, name@, i)) || unreadable_dir(dir@), // [C05,C11]
{
    if let Ok(entries) = fs_dir::read_dir(dir) {
        for entry in ⟦ite: ⟧entries.flatten_vec()
@            invariant
@                ite.seq().len() == dir_listing(dir@).len(), forall|i: int| 0 <= i < ite.seq().len() ==> (#[trigger] ite.seq()[i]).p == dir_listing(dir@)[i],
@                forall|i: int| 0 <= i < ite.index@ ==> !#[trigger] stem_hit(dir@, name@, i),
        {
@            let ghost k = ite.index@ as int;
            let path = entry.path();
            if path.is_file() {
                if let Some(stem) = path.file_stem() {
                    if os_eq(stem, name) {
@                        assert(stem_hit(dir@, name@, k));
                        return Some(path.to_path_buf());
                    }
                }
            }
        }
@        assert(forall|i: int| !#[trigger] stem_hit(dir@, name@, i));
    }
    None
}
//!end

// ---- is_executable: permission bits of the file a path RESOLVES to (symbolic links followed) ----
pub uninterp spec fn mode_of(p: Seq<char>) -> Option<u32>;     // stat(2): mode of the file p resolves to; None: nothing there (or dangling link)
pub uninterp spec fn lmode_of(p: Seq<char>) -> Option<u32>;    // lstat(2): mode of the directory entry itself (for a symbolic link: the link's, always 0777 on Linux)
pub struct Metadata { pub ghost mode: u32 }
pub struct Permissions { pub ghost mode: u32 }
impl Metadata { #[verifier::external_body] pub fn permissions(&self) -> (r: Permissions) ensures r.mode == self.mode { unimplemented!() } }
impl Permissions { #[verifier::external_body] pub fn mode(&self) -> (r: u32) ensures r == self.mode { unimplemented!() } }
pub mod fs_meta {
    use vstd::prelude::*;
    use super::*;
    #[verifier::external_body] pub fn metadata(p: &path::PathBuf) -> (r: Result<Metadata, std::io::Error>)
        ensures r matches Ok(md) ==> mode_of(p@) == Some(md.mode), r is Err ==> mode_of(p@) is None { unimplemented!() }
    #[verifier::external_body] pub fn symlink_metadata(p: &path::PathBuf) -> (r: Result<Metadata, std::io::Error>)
        ensures r matches Ok(md) ==> lmode_of(p@) == Some(md.mode), r is Err ==> lmode_of(p@) is None { unimplemented!() }
}
//!fn src/core/file.rs is_executable rules=R12 props=C06,C05
pub(crate) fn is_executable(p: &path::PathBuf) -> ⟦(r: ⟧bool⟦)⟧
@    ensures
@        // C06 / C05: `executable` means: the file the path resolves to exists and has an execute bit - so that a command file without one
@        // (also when reached through a symbolic link) is reported not_executable and never handed to the OS to be started
@        r == (mode_of(p@) matches Some(m) && m & 0o111 != 0), // [C06,C05]
{
    if let Ok(metadata) = fs_meta::metadata(p) {
        let permissions = metadata.permissions();
        return permissions.mode() & 0o111 != 0;
    }
    false
}
//!end
} // verus!
fn main() {}
