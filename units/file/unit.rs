#![feature(allocator_api)]
#![allow(unused)]
// unit `file`: core/file.rs — resolution of a command's executable by file stem (C11, C05)
use vstd::prelude::*;
verus! {
//!include prelude/std_gaps.rs
//!include prelude/keymap.rs
//!include prelude/app.rs
pub mod graph { pub use super::graph_err::GraphError; }

//!fn src/core/file.rs find_file_by_stem rules=R1,R17 props=C11,C05
pub(crate) fn find_file_by_stem(name: &str, dir: &path::Path) -> ⟦(r: ⟧Option<path::PathBuf>⟦)⟧
@    ensures
@        // C11: the executable of a command without a configured path is a regular file of the command directory whose STEM
@        // (file name up to its last dot) equals the command name ...
@        r matches Some(p) ==> exists|i: int| #[trigger] stem_hit(dir@, name@, i) && dir_listing(dir@)[i] == p@, // [C11,C05]
@        // ... and C05: when the listing holds no such file the command is undefined for the target (nothing will be started)
@        r is None ==> (forall|i: int| !#[trigger] stem_hit(dir@, name@, i)) || unreadable_dir(dir@), // [C05,C11]
{
    if let Ok(entries) = fs_dir::read_dir(dir) {
        for entry in ⟦ite: ⟧entries.flatten_vec()
@            invariant
@                ite.seq().len() == dir_listing(dir@).len(), forall|i: int| 0 <= i < ite.seq().len() ==> (#[trigger] ite.seq()[i]).p == dir_listing(dir@)[i],
@                forall|i: int| 0 <= i < ite.index@ ==> !#[trigger] stem_hit(dir@, name@, i),
        {
@            let ghost k = ite.index@ as int;
            let path = entry.path();
            if path.is_file() {
                if let Some(stem) = path.file_stem() {
                    if os_eq(stem, name) {
@                        assert(stem_hit(dir@, name@, k));
                        return Some(path.to_path_buf());
                    }
                }
            }
        }
@        assert(forall|i: int| !#[trigger] stem_hit(dir@, name@, i));
    }
    None
}
//!end
} // verus!
fn main() {}
