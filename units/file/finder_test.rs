// Run-time finder for unit `file` (child module of core::file in a scratch copy of the crate; never the deciding step).
use super::*;

#[test]
fn vf_find_file_by_stem() {
    // C11 / C05: a command that has no configured path resolves to the file in the command directory whose STEM (the name
    // up to its LAST dot) equals the command name - and to nothing when there is no such file
    use std::io::Write;
    let (mut checked, mut bad) = (0u64, 0u64);
    // (files present, command, expected file name or None)
    let cases: Vec<(Vec<&str>, &str, Option<&str>)> = vec![
        (vec!["build.sh"], "build", Some("build.sh")),
        (vec!["build"], "build", Some("build")),
        (vec!["lint.fix.sh"], "lint", None),
        (vec!["lint.sh.bak"], "lint", None),
        (vec!["lint.sh.bak"], "lint.sh", Some("lint.sh.bak")),
        (vec!["build.sh.orig", "build.sh"], "build", Some("build.sh")),
        (vec!["builder.sh"], "build", None),
        (vec!["test.py", "testing.py"], "test", Some("test.py")),
        (vec![".hidden"], "", None),
        (vec!["a.b.c"], "a.b", Some("a.b.c")),
    ];
    for (files, cmd, want) in cases {
        checked += 1;
        let td = crate::core::testing::new_testdir().unwrap();
        for f in &files { let mut h = std::fs::File::create(td.path().join(f)).unwrap(); h.write_all(b"#!/bin/sh\n").unwrap(); }
        std::fs::create_dir_all(td.path().join(format!("{}.d", cmd))).ok();
        let got = find_file_by_stem(cmd, td.path());
        let got_name = got.as_ref().and_then(|p| p.file_name()).and_then(|n| n.to_str()).map(|s| s.to_string());
        if got_name.as_deref() != want {
            bad += 1;
            println!("VF-FAIL directory with files {:?}, command `{}` :: resolved to {:?}, the file whose stem equals the command name is {:?} (C11) (C05)", files, cmd, got_name, want);
        }
    }
    // a command file that is a symbolic link to a script kept elsewhere (shared between targets) is that target's command file;
    // a link to a directory, or a dangling link, is not a file
    for (kind, want) in [("file", true), ("dir", false), ("dangling", false)] {
        checked += 1;
        let td = crate::core::testing::new_testdir().unwrap();
        let cmd_dir = td.path().join("cmd"); std::fs::create_dir_all(&cmd_dir).unwrap();
        let shared = td.path().join("shared"); std::fs::create_dir_all(&shared).unwrap();
        std::fs::write(shared.join("real.sh"), b"#!/bin/sh\n").unwrap();
        let to = match kind { "file" => shared.join("real.sh"), "dir" => shared.clone(), _ => shared.join("gone.sh") };
        std::os::unix::fs::symlink(&to, cmd_dir.join("build.sh")).unwrap();
        let got = find_file_by_stem("build", &cmd_dir);
        if got.is_some() != want {
            bad += 1;
            println!("VF-FAIL command directory whose `build.sh` is a symbolic link to a {} :: resolved to {:?}; a link to a regular file is the command file, a link to a directory or to nothing is not (C11) (C05) (C06)", kind, got);
        }
    }
    println!("VF-SUMMARY test=find_file_by_stem checked={} nontrivial={} bad={}", checked, checked - 2, bad);
}

#[test]
fn vf_is_executable() {
    // C06 / C05: executable iff the file the path RESOLVES to has an execute bit (symbolic links followed)
    use std::os::unix::fs::PermissionsExt;
    let td = crate::core::testing::new_testdir().unwrap();
    let d = td.path();
    let mk = |name: &str, mode: u32| { let p = d.join(name); std::fs::write(&p, b"#!/bin/sh\n").unwrap(); let mut perm = std::fs::metadata(&p).unwrap().permissions(); perm.set_mode(mode); std::fs::set_permissions(&p, perm).unwrap(); p };
    let exec = mk("exec.sh", 0o755);
    let noexec = mk("noexec.sh", 0o644);
    let group_only = mk("group.sh", 0o610);
    std::os::unix::fs::symlink(&exec, d.join("ln-exec")).unwrap();
    std::os::unix::fs::symlink(&noexec, d.join("ln-noexec")).unwrap();
    std::os::unix::fs::symlink(d.join("nowhere"), d.join("ln-dangling")).unwrap();
    std::os::unix::fs::symlink(d.join("ln-noexec"), d.join("ln-ln-noexec")).unwrap();
    let (mut checked, mut bad) = (0u64, 0u64);
    for (name, want) in [("exec.sh", true), ("noexec.sh", false), ("group.sh", true), ("ln-exec", true), ("ln-noexec", false), ("ln-dangling", false), ("ln-ln-noexec", false), ("missing", false)] {
        checked += 1;
        let got = is_executable(d.join(name));
        if got != want { bad += 1; println!("VF-FAIL is_executable on `{}` :: returned {}, the file it resolves to {} an execute bit (C06) (C05)", name, got, if want { "has" } else { "does not exist or has not" }); }
    }
    println!("VF-SUMMARY test=is_executable checked={} nontrivial={} bad={}", checked, checked, bad);
}
