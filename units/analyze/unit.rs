#![feature(allocator_api)]
#![allow(unused)]
// unit `analyze`: app/analyze.rs — change-to-target mapping (C01)
use vstd::prelude::*;
verus! {
//!include prelude/std_gaps.rs
//!include prelude/keymap.rs
//!include prelude/app.rs
use trie_rs::Trie;
pub mod graph { pub use super::graph_err::GraphError; pub struct Dag { pub x: u8 }
    use vstd::prelude::*;
    // contracts of the Dag methods `analyze` calls, as far as it depends on them (proved in unit graph: get_groups is a layering of the
    // visible subgraph; here only that the three methods are functions of the graph and that grouping does not rename nodes)
    impl Dag {
        pub uninterp spec fn groups_spec(&self) -> Seq<Vec<usize>>;
        pub uninterp spec fn labeled_spec(&self) -> Seq<Vec<String>>;
        pub uninterp spec fn label_of(&self, n: usize) -> Seq<char>;
        #[verifier::external_body] pub fn get_groups(&mut self) -> (r: Result<Vec<Vec<usize>>, GraphError>)
            ensures r matches Ok(g) ==> g@ == old(self).groups_spec(), forall|n: usize| final(self).label_of(n) == old(self).label_of(n) { unimplemented!() }
        #[verifier::external_body] pub fn get_label_by_node(&self, id: &usize) -> (r: Result<&String, GraphError>)
            ensures r matches Ok(l) ==> l@ == self.label_of(*id) { unimplemented!() }
        #[verifier::external_body] pub fn get_labeled_groups(&mut self) -> (r: Result<Vec<Vec<String>>, GraphError>)
            ensures r matches Ok(g) ==> g@ == old(self).labeled_spec() { unimplemented!() }
    }
}

//!type src/core/mod.rs Change
pub struct Change {
    pub name: String,
}
//!end
//!type src/core/mod.rs Index
pub struct Index<'a> {
    pub targets: Vec<String>,
    pub target2index: HashMap<&'a str, usize>,
    pub targets_trie: Trie<u8>,
    pub ignores: Trie<u8>,
    pub uses: Trie<u8>,
    pub use2targets: HashMap<&'a str, Vec<&'a str>>,
    pub ignore2targets: HashMap<&'a str, Vec<&'a str>>,
    pub dag: graph::Dag,
}
//!end
pub mod core {
    use vstd::prelude::*;
    use super::*;
    pub(crate) use super::Index; pub(crate) use super::Change;
//!stub index path_prefix_search
}
//!type src/app/analyze.rs AnalyzedChangeTargetReason
@#[derive(PartialEq, Eq, Structural)]
pub enum AnalyzedChangeTargetReason {
    Target,
    Uses,
    Ignores,
}
//!end
//!type src/app/analyze.rs AnalyzedChangeTarget
pub struct AnalyzedChangeTarget {
    pub path: String,
    pub reason: AnalyzedChangeTargetReason,
}
//!end
impl KeyV for AnalyzedChangeTarget { type KV = (Seq<char>, AnalyzedChangeTargetReason); open spec fn kv(&self) -> (Seq<char>, AnalyzedChangeTargetReason) { (self.path@, self.reason) } }

// ---------------- C01 vocabulary ----------------
// the configuration the index was built from: an arbitrary but fixed ghost constant (everything proved holds for every value)
pub uninterp spec fn the_cfg() -> Seq<Target>;
//!include units/index/rep_vocab.rs
// target i ignores the change c: c lies inside one of its `ignores` paths (whole components)
pub open spec fn ign(ts: Seq<Target>, i: int, c: Seq<char>) -> bool { exists|k: int| 0 <= k < ignores_of(ts[i]).len() && pp(#[trigger] ignores_of(ts[i])[k]@, c) }
pub open spec fn ign_name(ts: Seq<Target>, p: Seq<char>, c: Seq<char>) -> bool { exists|i: int| 0 <= i < ts.len() && #[trigger] ts[i].path@ == p && ign(ts, i, c) }
pub open spec fn brings(ts: Seq<Target>, g: Seq<char>, p: Seq<char>) -> bool { exists|i: int| 0 <= i < ts.len() && #[trigger] ts[i].path@ == p && has_ignore(ts[i], g) }
pub open spec fn pending_ign(ts: Seq<Target>, hits: Seq<String>, from: int, p: Seq<char>) -> bool { exists|j: int| from <= j < hits.len() && brings(ts, (#[trigger] hits[j])@, p) }
pub open spec fn views_upto(v: Seq<&str>, upto: int, p: Seq<char>) -> bool { exists|k: int| 0 <= k < upto && (#[trigger] v[k])@ == p }
//!fn src/app/analyze.rs get_ignore_targets rules=R1,R5 props=C01
fn get_ignore_targets<'a>(index: &'a core::Index<'_>, name: &'a str) -> ⟦(r: ⟧HashSet<&'a str>⟦)⟧
@    requires rep_ok(*index, the_cfg()),
@    ensures
@        // C01: exactly the targets one of whose `ignores` paths contains the change (ignore precedence)
@        forall|p: Seq<char>| #![trigger r@.contains(p)] r@.contains(p) <==> ign_name(the_cfg(), p, name@), // [C01]
{
    let mut ignore_targets⟦: HashSet<&'a str>⟧ = HashSet::new();
@    let ghost ts = the_cfg();
    for m in ⟦itm: ⟧core::path_prefix_search(&index.ignores, name)
@        invariant
@            ts == the_cfg(), rep_ok(*index, ts),
@            forall|j: int| 0 <= j < itm.seq().len() ==> index.ignores.keys.contains(#[trigger] itm.seq()[j]@) && pp(itm.seq()[j]@, name@),
@            forall|p: Seq<char>| #![trigger ignore_targets@.contains(p)] ignore_targets@.contains(p) ==> ign_name(ts, p, name@),
@            forall|p: Seq<char>| #![trigger ign_name(ts, p, name@)] ign_name(ts, p, name@) ==> ignore_targets@.contains(p) || pending_ign(ts, itm.seq(), itm.index@ as int, p),
    {
@            let ghost km = itm.index@ as int;
@            let ghost hits = itm.seq();
@            let ghost s0 = ignore_targets@;
@            assert(m@ == hits[km]@);
            if let Some(v) = index.ignore2targets.get(m.as_str()) {
                for target in ⟦itt: ⟧v.iter()
@                    invariant
@                        ts == the_cfg(), rep_ok(*index, ts), index.ignore2targets@.dom().contains(m@), *v == index.ignore2targets@[m@], pp(m@, name@),
@                        itt.seq().len() == v@.len(), forall|q: int| 0 <= q < v@.len() ==> *itt.seq()[q] == v@[q],
@                        forall|p: Seq<char>| #![trigger ignore_targets@.contains(p)] ignore_targets@.contains(p) ==> ign_name(ts, p, name@),
@                        forall|p: Seq<char>| #![trigger s0.contains(p)] s0.contains(p) ==> ignore_targets@.contains(p),
@                        forall|p: Seq<char>| #![trigger views_upto(v@, itt.index@ as int, p)] views_upto(v@, itt.index@ as int, p) ==> ignore_targets@.contains(p),
                {
@                    let ghost kt = itt.index@ as int;
@                    let ghost s1 = ignore_targets@;
@                    assert((*target)@ == v@[kt]@);
@                    proof {
@                        // this list entry is a target that has m among its ignores, and m contains the change
@                        assert(views_in(v@, v@[kt]@));
@                        let i = choose|i: int| 0 <= i < ts.len() && #[trigger] ts[i].path@ == v@[kt]@ && has_ignore(ts[i], m@);
@                        let kk = choose|kk: int| 0 <= kk < ignores_of(ts[i]).len() && #[trigger] ignores_of(ts[i])[kk]@ == m@;
@                        assert(pp(ignores_of(ts[i])[kk]@, name@));
@                        assert(ign(ts, i, name@));
@                        assert(ign_name(ts, v@[kt]@, name@));
@                    }
                    ignore_targets.insert(*target);
@                    assert forall|p: Seq<char>| #![trigger views_upto(v@, kt + 1, p)] views_upto(v@, kt + 1, p) implies ignore_targets@.contains(p) by {
@                        let k2 = choose|k2: int| 0 <= k2 < kt + 1 && (#[trigger] v@[k2])@ == p;
@                        if k2 < kt { assert(views_upto(v@, kt, p)); assert(s1.contains(p)); }
@                    }
                }
            }
@            proof {
@                assert forall|p: Seq<char>| #![trigger ign_name(ts, p, name@)] ign_name(ts, p, name@) implies ignore_targets@.contains(p) || pending_ign(ts, hits, km + 1, p) by {
@                    if !s0.contains(p) {
@                        assert(pending_ign(ts, hits, km, p));
@                        let j = choose|j: int| km <= j < hits.len() && brings(ts, (#[trigger] hits[j])@, p);
@                        if j == km {
@                            assert(brings(ts, m@, p));
@                            assert(index.ignores.keys.contains(m@));
@                            assert(index.ignore2targets@.dom().contains(m@));
@                            let vv = index.ignore2targets@[m@];
@                            assert(views_in(vv@, p));
@                            let k2 = choose|k2: int| 0 <= k2 < vv@.len() && (#[trigger] vv@[k2])@ == p;
@                            assert(views_upto(vv@, vv@.len() as int, p));
@                        } else { assert(brings(ts, hits[j]@, p)); }
@                    }
@                }
@            }
        }
@    proof {
@        assert forall|p: Seq<char>| #![trigger ignore_targets@.contains(p)] ign_name(ts, p, name@) implies ignore_targets@.contains(p) by { }
@    }
    ignore_targets
}
//!end

//!fn src/app/analyze.rs update_change_targets props=C01
fn update_change_targets(
    change_targets: &mut Option<HashSet<AnalyzedChangeTarget>>,
    target: &str,
    reason: AnalyzedChangeTargetReason,
)
@    ensures
@        (*old(change_targets)) is None ==> (*final(change_targets)) is None,
@        (*old(change_targets)) is Some ==> (*final(change_targets)) is Some && (*final(change_targets))->Some_0@ == (*old(change_targets))->Some_0@.insert((target@, reason)),
{
    if let Some(change_targets) = change_targets {
        change_targets.insert(AnalyzedChangeTarget {
            path: target.to_owned(),
            reason,
        });
    }
}
//!end

// ---------------- C01: which targets one change affects ----------------
// target t is affected directly: the change lies in its directory and it does not ignore it
pub open spec fn hit_direct(ts: Seq<Target>, t: int, c: Seq<char>) -> bool { pp(ts[t].path@, c) && !ign(ts, t, c) }
// target t is affected through target x (x is t or nested in t): x `uses` a path containing the change, neither ignores it.
// `strict`: the lower bound also requires that the uses entry is not itself a target that ignores the change (the case the
// documentation is silent on; accepted either way)
pub open spec fn hit_via(ts: Seq<Target>, t: int, x: int, k: int, c: Seq<char>, strict: bool) -> bool {
    &&& 0 <= x < ts.len() && 0 <= k < uses_of(ts[x]).len()
    &&& pp(uses_of(ts[x])[k]@, c) && !ign(ts, x, c) && !ign(ts, t, c) && pp(ts[t].path@, ts[x].path@)
    &&& strict ==> !ign_name(ts, uses_of(ts[x])[k]@, c)
}
pub open spec fn affected(ts: Seq<Target>, t: int, c: Seq<char>, strict: bool) -> bool {
    0 <= t < ts.len() && (hit_direct(ts, t, c) || exists|x: int, k: int| #[trigger] hit_via(ts, t, x, k, c, strict))
}
pub open spec fn affected_name(ts: Seq<Target>, p: Seq<char>, c: Seq<char>, strict: bool) -> bool { exists|t: int| #[trigger] affected(ts, t, c, strict) && ts[t].path@ == p }
pub open spec fn distinct_all(ts: Seq<Target>) -> bool { forall|i: int, j: int| 0 <= i < j < ts.len() ==> (#[trigger] ts[i]).path@ != (#[trigger] ts[j]).path@ }


pub open spec fn sound(ts: Seq<Target>, c: Seq<char>, o: Set<Seq<char>>, cur: Set<Seq<char>>) -> bool { forall|p: Seq<char>| #![trigger cur.contains(p)] cur.contains(p) ==> o.contains(p) || affected_name(ts, p, c, false) }
pub open spec fn mono(o: Set<Seq<char>>, cur: Set<Seq<char>>) -> bool { forall|p: Seq<char>| #![trigger o.contains(p)] o.contains(p) ==> cur.contains(p) }
pub open spec fn ig_ok(ts: Seq<Target>, c: Seq<char>, ig: Set<Seq<char>>) -> bool { forall|p: Seq<char>| #![trigger ig.contains(p)] ig.contains(p) <==> ign_name(ts, p, c) }
pub open spec fn in_rest_s(s: Seq<String>, from: int, v: Seq<char>) -> bool { exists|i: int| from <= i < s.len() && (#[trigger] s[i])@ == v }
pub open spec fn in_rest_r(s: Seq<&&str>, from: int, v: Seq<char>) -> bool { exists|i: int| from <= i < s.len() && (#[trigger] s[i])@ == v }
proof fn lemma_ign_name(ts: Seq<Target>, t: int, c: Seq<char>)
    requires distinct_all(ts), 0 <= t < ts.len()
    ensures ign_name(ts, ts[t].path@, c) <==> ign(ts, t, c)
{
    if ign_name(ts, ts[t].path@, c) {
        let i = choose|i: int| 0 <= i < ts.len() && #[trigger] ts[i].path@ == ts[t].path@ && ign(ts, i, c);
        if i < t { assert(ts[i].path@ != ts[t].path@); } else if t < i { assert(ts[t].path@ != ts[i].path@); }
    }
    if ign(ts, t, c) { assert(ts[t].path@ == ts[t].path@ && ign(ts, t, c)); }
}
proof fn lemma_sound_insert(ts: Seq<Target>, c: Seq<char>, o: Set<Seq<char>>, cur: Set<Seq<char>>, t: int)
    requires sound(ts, c, o, cur), affected(ts, t, c, false)
    ensures sound(ts, c, o, cur.insert(ts[t].path@))
{
    assert forall|p: Seq<char>| #![trigger cur.insert(ts[t].path@).contains(p)] cur.insert(ts[t].path@).contains(p) implies o.contains(p) || affected_name(ts, p, c, false) by {
        if p == ts[t].path@ { assert(affected(ts, t, c, false) && ts[t].path@ == p); } else { assert(cur.contains(p)); }
    }
}
//!fn src/app/analyze.rs analyze_change rules=R1,R5 props=C01
fn analyze_change<'a>(
    change: &Change,
    index: &'a core::Index<'a>,
    targets: &mut HashSet<String>,
    show_change_targets: bool,
) -> ⟦(res: ⟧Option<HashSet<AnalyzedChangeTarget>>⟦)⟧
@    requires rep_ok(*index, the_cfg()), distinct_all(the_cfg()),
@    ensures
@        // C01: the accumulator gains exactly the targets this change affects (whole path components, ignore precedence, nesting);
@        // the one documented-silent case is left free between the strict and the lax reading
@        forall|p: Seq<char>| #![trigger final(targets)@.contains(p)] final(targets)@.contains(p) ==> old(targets)@.contains(p) || affected_name(the_cfg(), p, change.name@, false), // [C01]
@        forall|p: Seq<char>| #![trigger old(targets)@.contains(p)] old(targets)@.contains(p) ==> final(targets)@.contains(p), // [C01]
@        forall|p: Seq<char>| #![trigger affected_name(the_cfg(), p, change.name@, true)] affected_name(the_cfg(), p, change.name@, true) ==> final(targets)@.contains(p), // [C01]
@        // independence of the breakdown request: the same targets are added whether or not the per-change breakdown is built
@        res is Some <==> show_change_targets,
{
    let ignore_targets = get_ignore_targets(index, &change.name);
@    let ghost ts = the_cfg();
@    let ghost c = change.name@;
@    let ghost o = old(targets)@;
    let mut change_targets⟦: Option<HashSet<AnalyzedChangeTarget>>⟧ = if show_change_targets {
        Some(HashSet::new())
    } else {
        None
    };

    for target in ⟦it1: ⟧core::path_prefix_search(&index.targets_trie, &change.name)
@        invariant
@            ts == the_cfg(), c == change.name@, o == old(targets)@, rep_ok(*index, ts), distinct_all(ts), ig_ok(ts, c, ignore_targets@),
@            forall|j: int| 0 <= j < it1.seq().len() ==> index.targets_trie.keys.contains(#[trigger] it1.seq()[j]@) && pp(it1.seq()[j]@, c),
@            sound(ts, c, o, targets@), mono(o, targets@), change_targets is Some <==> show_change_targets,
@            forall|t: int| #![trigger ts[t]] 0 <= t < ts.len() && hit_direct(ts, t, c) ==> targets@.contains(ts[t].path@) || in_rest_s(it1.seq(), it1.index@ as int, ts[t].path@),
    {
@            let ghost k1 = it1.index@ as int;
@            let ghost h1 = it1.seq();
@            let ghost s0 = targets@;
@            assert(target@ == h1[k1]@);
@            assert(is_target(ts, target@));
@            let ghost t0 = choose|t0: int| 0 <= t0 < ts.len() && #[trigger] ts[t0].path@ == target@;
@            proof { lemma_ign_name(ts, t0, c); }
            // find the target and its ancestors affected by this change
            if !ignore_targets.contains(target.as_str()) {
@                proof { broadcast use axiom_to_string_string; assert(hit_direct(ts, t0, c)); assert(affected(ts, t0, c, false)); lemma_sound_insert(ts, c, o, s0, t0); }
                targets.insert(target.to_string());
                update_change_targets(
                    &mut change_targets,
                    &target,
                    AnalyzedChangeTargetReason::Target,
                );
            } else {
                update_change_targets(
                    &mut change_targets,
                    &target,
                    AnalyzedChangeTargetReason::Ignores,
                );
            }
@            proof {
@                broadcast use axiom_to_string_string;
@                assert forall|t: int| #![trigger ts[t]] 0 <= t < ts.len() && hit_direct(ts, t, c) implies targets@.contains(ts[t].path@) || in_rest_s(h1, k1 + 1, ts[t].path@) by {
@                    if !s0.contains(ts[t].path@) {
@                        assert(in_rest_s(h1, k1, ts[t].path@));
@                        let j = choose|j: int| k1 <= j < h1.len() && (#[trigger] h1[j])@ == ts[t].path@;
@                        if j == k1 {
@                            assert(t == t0) by { if t < t0 { assert(ts[t].path@ != ts[t0].path@); } else if t0 < t { assert(ts[t0].path@ != ts[t].path@); } }
@                        } else { assert(h1[j]@ == ts[t].path@); }
@                    }
@                }
@            }
        }
    for m in ⟦it2: ⟧core::path_prefix_search(&index.uses, &change.name)
@        invariant
@            ts == the_cfg(), c == change.name@, o == old(targets)@, rep_ok(*index, ts), distinct_all(ts), ig_ok(ts, c, ignore_targets@),
@            forall|j: int| 0 <= j < it2.seq().len() ==> index.uses.keys.contains(#[trigger] it2.seq()[j]@) && pp(it2.seq()[j]@, c),
@            sound(ts, c, o, targets@), mono(o, targets@), change_targets is Some <==> show_change_targets,
@            forall|t: int| #![trigger ts[t]] 0 <= t < ts.len() && hit_direct(ts, t, c) ==> targets@.contains(ts[t].path@),
@            forall|t: int, x: int, k: int| #![trigger hit_via(ts, t, x, k, c, true)] 0 <= t < ts.len() && hit_via(ts, t, x, k, c, true) ==> targets@.contains(ts[t].path@) || in_rest_s(it2.seq(), it2.index@ as int, uses_of(ts[x])[k]@),
    {
@            let ghost k2 = it2.index@ as int;
@            let ghost h2 = it2.seq();
@            let ghost s2 = targets@;
@            assert(m@ == h2[k2]@);
            // find any targets mapped to this use
            if !ignore_targets.contains(m.as_str()) {
                if let Some(use_targets) = index.use2targets.get(m.as_str()) {
                    for target in ⟦it3: ⟧use_targets.iter()
@                        invariant
@                            ts == the_cfg(), c == change.name@, o == old(targets)@, rep_ok(*index, ts), distinct_all(ts), ig_ok(ts, c, ignore_targets@),
@                            index.use2targets@.dom().contains(m@), *use_targets == index.use2targets@[m@], pp(m@, c), !ign_name(ts, m@, c),
@                            it3.seq().len() == use_targets@.len(), forall|q: int| 0 <= q < use_targets@.len() ==> *it3.seq()[q] == use_targets@[q],
@                            sound(ts, c, o, targets@), mono(o, targets@), mono(s2, targets@), change_targets is Some <==> show_change_targets,
@                            // every (t, x, k) reached through this uses entry is covered once x's name has been visited
@                            forall|t: int, x: int, k: int| #![trigger hit_via(ts, t, x, k, c, true)] 0 <= t < ts.len() && hit_via(ts, t, x, k, c, true) && uses_of(ts[x])[k]@ == m@ && views_upto(use_targets@, it3.index@ as int, ts[x].path@) ==> targets@.contains(ts[t].path@),
                    {
@                        let ghost k3 = it3.index@ as int;
@                        let ghost s3 = targets@;
@                        let ghost xn = use_targets@[k3]@;
@                        assert((*target)@ == xn);
@                        assert(views_in(use_targets@, xn));
@                        let ghost x0 = choose|x0: int| 0 <= x0 < ts.len() && #[trigger] ts[x0].path@ == xn && has_use(ts[x0], m@);
@                        let ghost kx = choose|kx: int| 0 <= kx < uses_of(ts[x0]).len() && #[trigger] uses_of(ts[x0])[kx]@ == m@;
@                        proof { lemma_ign_name(ts, x0, c); }
                        if !ignore_targets.contains(target) {
                            // each mapped target and its ancestors are added
                            for target2 in ⟦it4: ⟧core::path_prefix_search(&index.targets_trie, target)
@                                invariant
@                                    ts == the_cfg(), c == change.name@, o == old(targets)@, rep_ok(*index, ts), distinct_all(ts), ig_ok(ts, c, ignore_targets@),
@                                    0 <= x0 < ts.len(), ts[x0].path@ == xn, (*target)@ == xn, 0 <= kx < uses_of(ts[x0]).len(), uses_of(ts[x0])[kx]@ == m@, pp(m@, c), !ign(ts, x0, c),
@                                    forall|j: int| 0 <= j < it4.seq().len() ==> index.targets_trie.keys.contains(#[trigger] it4.seq()[j]@) && pp(it4.seq()[j]@, xn),
@                                    sound(ts, c, o, targets@), mono(o, targets@), mono(s3, targets@), change_targets is Some <==> show_change_targets,
@                                    forall|t: int| #![trigger ts[t]] 0 <= t < ts.len() && pp(ts[t].path@, xn) && !ign(ts, t, c) ==> targets@.contains(ts[t].path@) || in_rest_s(it4.seq(), it4.index@ as int, ts[t].path@),
                            {
@                                    let ghost k4 = it4.index@ as int;
@                                    let ghost h4 = it4.seq();
@                                    let ghost s4 = targets@;
@                                    assert(target2@ == h4[k4]@);
@                                    assert(is_target(ts, target2@));
@                                    let ghost t2 = choose|t2: int| 0 <= t2 < ts.len() && #[trigger] ts[t2].path@ == target2@;
@                                    proof { lemma_ign_name(ts, t2, c); }
                                    if !ignore_targets.contains(target2.as_str()) {
@                                        proof { broadcast use axiom_to_string_string; assert(hit_via(ts, t2, x0, kx, c, false)); assert(affected(ts, t2, c, false)); lemma_sound_insert(ts, c, o, s4, t2); }
                                        targets.insert(target2.to_string());
                                        update_change_targets(
                                            &mut change_targets,
                                            &target2,
                                            AnalyzedChangeTargetReason::Uses,
                                        );
                                    } else {
                                        update_change_targets(
                                            &mut change_targets,
                                            &target2,
                                            AnalyzedChangeTargetReason::Ignores,
                                        );
                                    }
@                                    proof {
@                                        broadcast use axiom_to_string_string;
@                                        assert forall|t: int| #![trigger ts[t]] 0 <= t < ts.len() && pp(ts[t].path@, xn) && !ign(ts, t, c) implies targets@.contains(ts[t].path@) || in_rest_s(h4, k4 + 1, ts[t].path@) by {
@                                            if !s4.contains(ts[t].path@) {
@                                                assert(in_rest_s(h4, k4, ts[t].path@));
@                                                let j = choose|j: int| k4 <= j < h4.len() && (#[trigger] h4[j])@ == ts[t].path@;
@                                                if j == k4 { assert(t == t2) by { if t < t2 { assert(ts[t].path@ != ts[t2].path@); } else if t2 < t { assert(ts[t2].path@ != ts[t].path@); } } }
@                                                else { assert(h4[j]@ == ts[t].path@); }
@                                            }
@                                        }
@                                    }
                                }
                        }
@                        proof {
@                            assert forall|t: int, x: int, k: int| #![trigger hit_via(ts, t, x, k, c, true)] 0 <= t < ts.len() && hit_via(ts, t, x, k, c, true) && uses_of(ts[x])[k]@ == m@ && views_upto(use_targets@, k3 + 1, ts[x].path@) implies targets@.contains(ts[t].path@) by {
@                                if views_upto(use_targets@, k3, ts[x].path@) { assert(s3.contains(ts[t].path@)); }
@                                else {
@                                    let q = choose|q: int| 0 <= q < k3 + 1 && (#[trigger] use_targets@[q])@ == ts[x].path@;
@                                    assert(q == k3);
@                                    assert(x == x0) by { if x < x0 { assert(ts[x].path@ != ts[x0].path@); } else if x0 < x { assert(ts[x0].path@ != ts[x].path@); } }
@                                    assert(!ign(ts, x0, c));
@                                    assert(pp(ts[t].path@, xn) && !ign(ts, t, c));
@                                }
@                            }
@                        }
                    }
                }
            }
@            proof {
@                assert forall|t: int, x: int, k: int| #![trigger hit_via(ts, t, x, k, c, true)] 0 <= t < ts.len() && hit_via(ts, t, x, k, c, true) implies targets@.contains(ts[t].path@) || in_rest_s(h2, k2 + 1, uses_of(ts[x])[k]@) by {
@                    if !s2.contains(ts[t].path@) {
@                        assert(in_rest_s(h2, k2, uses_of(ts[x])[k]@));
@                        let j = choose|j: int| k2 <= j < h2.len() && (#[trigger] h2[j])@ == uses_of(ts[x])[k]@;
@                        if j == k2 {
@                            // this uses entry is m: it is not an ignoring target's name (strict), it is a key of use2targets, and x is in its list
@                            assert(uses_of(ts[x])[k]@ == m@);
@                            assert(!ign_name(ts, m@, c));
@                            assert(has_use(ts[x], m@));
@                            assert(index.uses.keys.contains(m@));
@                            assert(index.use2targets@.dom().contains(m@));
@                            let ut = index.use2targets@[m@];
@                            assert(views_in(ut@, ts[x].path@)) by { assert(ts[x].path@ == ts[x].path@ && has_use(ts[x], m@)); }
@                            let q = choose|q: int| 0 <= q < ut@.len() && (#[trigger] ut@[q])@ == ts[x].path@;
@                            assert(views_upto(ut@, ut@.len() as int, ts[x].path@));
@                        } else { assert(h2[j]@ == uses_of(ts[x])[k]@); }
@                    }
@                }
@            }
        }
@    proof {
@        assert forall|p: Seq<char>| #![trigger affected_name(ts, p, c, true)] affected_name(ts, p, c, true) implies targets@.contains(p) by {
@            let t = choose|t: int| #[trigger] affected(ts, t, c, true) && ts[t].path@ == p;
@            if hit_direct(ts, t, c) { } else { let (x, k) = choose|x: int, k: int| #[trigger] hit_via(ts, t, x, k, c, true); assert(hit_via(ts, t, x, k, c, true)); }
@        }
@    }
    change_targets
}
//!end

//!type src/app/analyze.rs AnalyzeInput
pub struct AnalyzeInput {
    pub show_changes: bool,
    pub show_change_targets: bool,
    pub show_target_groups: bool,
}
//!end
//!type src/app/analyze.rs AnalyzedChange
pub struct AnalyzedChange {
    pub path: String,
    pub targets: Option<Vec<AnalyzedChangeTarget>>,
}
//!end
//!type src/app/analyze.rs AnalyzeOutput
pub struct AnalyzeOutput {
    pub changes: Option<Vec<AnalyzedChange>>,
    pub targets: Vec<String>,
    pub target_groups: Option<Vec<Vec<String>>>,
    pub checkpointed: bool,
}
//!end
// ---- the summary of `analyze` (C01) and its pruned target groups (C03) ----
pub open spec fn has(s: Seq<String>, p: Seq<char>) -> bool { exists|i: int| 0 <= i < s.len() && #[trigger] s[i]@ == p }
pub open spec fn no_dup(s: Seq<String>) -> bool { forall|i: int, j: int| 0 <= i < j < s.len() ==> (#[trigger] s[i])@ != (#[trigger] s[j])@ }
pub uninterp spec fn str_le2(a: Seq<char>, b: Seq<char>) -> bool;     // the byte order of strings (total)
pub open spec fn sorted_strs(s: Seq<String>) -> bool { forall|i: int, j: int| 0 <= i < j < s.len() ==> str_le2(#[trigger] s[i]@, #[trigger] s[j]@) }
// ASSUMED (std): slice::sort on strings - a sorted rearrangement: same members, duplicates neither added nor removed
#[verifier::external_body] pub fn sort_strs(v: &mut Vec<String>)
    ensures final(v)@.len() == old(v)@.len(), sorted_strs(final(v)@), no_dup(old(v)@) ==> no_dup(final(v)@),
        forall|p: Seq<char>| #![trigger has(final(v)@, p)] has(final(v)@, p) <==> has(old(v)@, p),
{ unimplemented!() }
// ASSUMED: what the rayon map/reduce over chunks of changes computes (R12 range substitution in `analyze`): per-change results in
// order, and the union over ALL changes of the targets analyze_change adds - whatever the chunking
pub uninterp spec fn union_targets(cs: Seq<Change>, ix: Index, show: bool) -> Set<Seq<char>>;
#[verifier::external_body] pub fn par_analyze(changes: &Option<Vec<Change>>, index: &core::Index<'_>, input: &AnalyzeInput) -> (r: (Vec<AnalyzedChange>, HashSet<String>))
    ensures changes matches Some(cs) ==> r.1@ == union_targets(cs@, *index, input.show_change_targets), changes is None ==> r.1@ == Set::<Seq<char>>::empty()
{ unimplemented!() }
// the labels of a group kept when they are changed, in order
pub open spec fn keep(g: Seq<usize>, n: int, dag: graph::Dag, changed: Set<Seq<char>>) -> Seq<Seq<char>> decreases n {
    if n <= 0 { Seq::empty() } else { let r = keep(g, n - 1, dag, changed); let l = dag.label_of(g[n - 1]); if changed.contains(l) { r.push(l) } else { r } }
}
// the last n groups, last first, each reduced to its changed members, empty ones dropped
pub open spec fn pruned(groups: Seq<Vec<usize>>, n: int, dag: graph::Dag, changed: Set<Seq<char>>) -> Seq<Seq<Seq<char>>> decreases n {
    if n <= 0 { Seq::empty() } else {
        let r = pruned(groups, n - 1, dag, changed);
        let g = keep(groups[groups.len() - n]@, groups[groups.len() - n]@.len() as int, dag, changed);
        if g.len() > 0 { r.push(g) } else { r }
    }
}
proof fn lemma_keep_cong(g: Seq<usize>, n: int, d1: graph::Dag, d2: graph::Dag, changed: Set<Seq<char>>)
    requires forall|x: usize| d1.label_of(x) == d2.label_of(x),
    ensures keep(g, n, d1, changed) == keep(g, n, d2, changed)
    decreases n
{ if n > 0 { lemma_keep_cong(g, n - 1, d1, d2, changed); } }
proof fn lemma_pruned_cong(groups: Seq<Vec<usize>>, n: int, d1: graph::Dag, d2: graph::Dag, changed: Set<Seq<char>>)
    requires forall|x: usize| d1.label_of(x) == d2.label_of(x),
    ensures pruned(groups, n, d1, changed) == pruned(groups, n, d2, changed)
    decreases n
{ if n > 0 { lemma_pruned_cong(groups, n - 1, d1, d2, changed); lemma_keep_cong(groups[groups.len() - n]@, groups[groups.len() - n]@.len() as int, d1, d2, changed); } }
pub open spec fn strs(v: Seq<String>) -> Seq<Seq<char>> { Seq::new(v.len(), |i: int| v[i]@) }
pub open spec fn group_strs(v: Seq<Vec<String>>) -> Seq<Seq<Seq<char>>> { Seq::new(v.len(), |i: int| strs(v[i]@)) }

//!fn src/app/analyze.rs analyze rules=R1,R3,R12 props=C01,C03,C04
pub(crate) fn analyze(
    input: &AnalyzeInput,
    index: &mut core::Index<'_>,
    changes: Option<Vec<Change>>,
) -> ⟦(res: ⟧Result<AnalyzeOutput, MonorailError>⟦)⟧
@    ensures
@        res matches Ok(o) ==> o.checkpointed == (changes is Some),
@        // C01: the summary is sorted, duplicate-free, and holds exactly the union over all changes of the affected targets (with a
@        // checkpoint), respectively every configured target (without one)
@        res matches Ok(o) ==> sorted_strs(o.targets@), // [C01]
@        res matches Ok(o) ==> (changes is Some || no_dup(old(index).targets@)) ==> no_dup(o.targets@), // [C01]
@        res matches Ok(o) ==> forall|p: Seq<char>| #![trigger has(o.targets@, p)] has(o.targets@, p) <==>
@            (if changes is Some { union_targets(changes->Some_0@, *old(index), input.show_change_targets).contains(p) } else { has(old(index).targets@, p) }), // [C01]
@        // C03: the reported groups are the graph's layers, last first, each reduced to the changed targets (empty layers dropped); without
@        // a checkpoint, the graph's labelled layers as they are
@        res matches Ok(o) ==> (!input.show_target_groups ==> o.target_groups is None),
@        res matches Ok(o) ==> ((input.show_target_groups && changes is Some) ==> o.target_groups is Some && group_strs(o.target_groups->Some_0@)
@            == pruned(old(index).dag.groups_spec(), old(index).dag.groups_spec().len() as int, old(index).dag, union_targets(changes->Some_0@, *old(index), input.show_change_targets))), // [C03,C04]
@        res matches Ok(o) ==> ((input.show_target_groups && changes is None) ==> o.target_groups is Some && o.target_groups->Some_0@ == old(index).dag.labeled_spec()), // [C03,C04]
{
    let mut checkpointed = false;
    let (analyzed_changes, changed_targets) = par_analyze(&changes, index, input);

    // build up output from analysis results
    let mut targets⟦: Vec<String>⟧ = vec![];
    let mut target_groups = None;
    if changes.is_some() {
        checkpointed = true;
        // copy the hashmap into the output vector
        let changed_vec = changed_targets.to_vec(); 
@        let ghost cv = changed_vec@;
@        assert forall|k: int| 0 <= k < cv.len() implies changed_targets@.contains(#[trigger] cv[k]@) by { assert(cv[k].kv() == cv[k]@); }
@        assert forall|a: int, b: int| 0 <= a < b < cv.len() implies (#[trigger] cv[a])@ != (#[trigger] cv[b])@ by { assert(cv[a].kv() == cv[a]@); assert(cv[b].kv() == cv[b]@); }
@        assert forall|p: Seq<char>| changed_targets@.contains(p) implies exists|j: int| 0 <= j < cv.len() && #[trigger] cv[j]@ == p by {
@            let i = choose|i: int| 0 <= i < cv.len() && #[trigger] cv[i].kv() == p; assert(cv[i]@ == p); }
        for t in ⟦itt: ⟧changed_vec
@            invariant
@                itt.seq() == cv, targets@.len() == itt.index@, forall|k: int| 0 <= k < targets@.len() ==> (#[trigger] targets@[k])@ == cv[k]@,
@                forall|k: int| 0 <= k < cv.len() ==> changed_targets@.contains(#[trigger] cv[k]@),
@                forall|a: int, b: int| 0 <= a < b < cv.len() ==> (#[trigger] cv[a])@ != (#[trigger] cv[b])@,
        {
            targets.push(t.clone());
        }
@        assert(no_dup(targets@));
@        assert forall|p: Seq<char>| #![trigger has(targets@, p)] has(targets@, p) <==> changed_targets@.contains(p) by {
@            if changed_targets@.contains(p) { let j = choose|j: int| 0 <= j < cv.len() && #[trigger] cv[j]@ == p; assert(targets@[j]@ == p); }
@            if has(targets@, p) { let i = choose|i: int| 0 <= i < targets@.len() && #[trigger] targets@[i]@ == p; assert(cv[i]@ == p); }
@        }
        if input.show_target_groups {
            let groups = index.dag.get_groups()?;

            // prune the groups to contain only affected targets
            let mut pruned_groups: Vec<Vec<String>> = vec![];
@            assert(group_strs(pruned_groups@) =~= pruned(groups@, 0, index.dag, changed_targets@));
            for group__i in 0..groups.len()
@                invariant
@                    group_strs(pruned_groups@) == pruned(groups@, group__i as int, index.dag, changed_targets@),
            { let group = &groups[groups.len() - 1 - group__i];
                let mut pg: Vec<String> = vec![];
@                assert(strs(pg@) =~= keep(group@, 0, index.dag, changed_targets@));
                for id in ⟦itg: ⟧group
@                    invariant
@                        itg.seq().len() == group@.len(), forall|k: int| 0 <= k < itg.seq().len() ==> *itg.seq()[k] == group@[k],
@                        strs(pg@) == keep(group@, itg.index@ as int, index.dag, changed_targets@),
                {
@                    let ghost opg = pg@;
                    let label = index.dag.get_label_by_node(id)?;
                    if changed_targets.contains(label) {
                        pg.push(label.to_owned());
@                        assert(strs(pg@) =~= strs(opg).push(label@));
                    }
                }
@                let ghost opr = pruned_groups@;
                if !pg.is_empty() {
                    pruned_groups.push(pg);
@                    assert(group_strs(pruned_groups@) =~= group_strs(opr).push(strs(pruned_groups@[opr.len() as int]@)));
                }
@                assert(groups@[groups@.len() - (group__i + 1)] == *group);
            }
@            proof { lemma_pruned_cong(groups@, groups@.len() as int, index.dag, old(index).dag, changed_targets@); }
            target_groups = Some(pruned_groups);
        }
    } else {
        // use config targets and all target groups
        for t in ⟦itx: ⟧&index.targets
@            invariant
@                itx.seq().len() == index.targets@.len(), forall|j: int| 0 <= j < itx.seq().len() ==> *itx.seq()[j] == index.targets@[j],
@                targets@.len() == itx.index@, forall|k: int| 0 <= k < targets@.len() ==> (#[trigger] targets@[k])@ == index.targets@[k]@,
        {
@            broadcast use axiom_to_string_ref, axiom_to_string_string;
            targets.push(t.to_string());
        }
@        assert forall|p: Seq<char>| #![trigger has(targets@, p)] has(targets@, p) <==> has(index.targets@, p) by {
@            if has(targets@, p) { let i = choose|i: int| 0 <= i < targets@.len() && #[trigger] targets@[i]@ == p; assert(index.targets@[i]@ == p); }
@            if has(index.targets@, p) { let i = choose|i: int| 0 <= i < index.targets@.len() && #[trigger] index.targets@[i]@ == p; assert(targets@[i]@ == p); }
@        }
@        assert(no_dup(index.targets@) ==> no_dup(targets@));
        if input.show_target_groups {
            target_groups = Some(index.dag.get_labeled_groups()?);
        }
    }
    sort_strs(&mut targets);
    Ok(AnalyzeOutput {
        changes: if input.show_changes {
            Some(analyzed_changes)
        } else {
            None
        },
        targets,
        target_groups,
        checkpointed,
    })
}
//!end
} // verus!
fn main() {}
