// Run-time finder for unit `analyze` (child module of app::analyze in a scratch copy of the crate; never the deciding step).
// Executable form of the C01 contract on the REAL Index::new + analyze: the summary equals the set of affected targets (computed
// here independently from component lists), is sorted and duplicate-free, equals the union of the non-ignored breakdown entries,
// and does not depend on the order / batching of the changes nor on whether the breakdown is requested.
use super::*;

// whole-component prefix as defined in DESIGN.md section 5 (pp), written independently of the code under test over component
// lists: a prefix written with a trailing slash names a directory and matches itself and what is below it, not the bare name
fn pp(prefix: &str, path: &str) -> bool {
    let a: Vec<&str> = prefix.split('/').collect();
    let b: Vec<&str> = path.split('/').collect();
    let dir = a.last() == Some(&"") && a.len() > 1;
    let a2: Vec<&str> = if dir { a[..a.len() - 1].to_vec() } else { a.clone() };
    a2.len() <= b.len() && a2.iter().zip(b.iter()).all(|(x, y)| x == y) && (!dir || b.len() > a2.len())
}

struct T { path: &'static str, uses: Vec<&'static str>, ignores: Vec<&'static str> }

fn mk_cfg(ts: &[T]) -> core::Config {
    let q = |v: &Vec<&str>| v.iter().map(|u| format!("\"{}\"", u)).collect::<Vec<_>>().join(",");
    let mut s = String::from("{\"targets\":[");
    for (i, t) in ts.iter().enumerate() {
        if i > 0 { s.push(','); }
        s.push_str(&format!("{{\"path\":\"{}\"", t.path));
        if !t.uses.is_empty() { s.push_str(&format!(",\"uses\":[{}]", q(&t.uses))); }
        if !t.ignores.is_empty() { s.push_str(&format!(",\"ignores\":[{}]", q(&t.ignores))); }
        s.push('}');
    }
    s.push_str("]}");
    serde_json::from_str(&s).unwrap()
}
fn ign(t: &T, c: &str) -> bool { t.ignores.iter().any(|g| pp(g, c)) }
// lower / upper reading of the documented-silent case (a uses entry naming a target that ignores the change)
fn affected(ts: &[T], t: usize, c: &str, strict: bool) -> bool {
    if ign(&ts[t], c) { return false; }
    if pp(ts[t].path, c) { return true; }
    for x in 0..ts.len() {
        if ign(&ts[x], c) || !pp(ts[t].path, ts[x].path) { continue; }
        for u in &ts[x].uses {
            if !pp(u, c) { continue; }
            let silent = ts.iter().any(|y| y.path == *u && ign(y, c));
            if !(strict && silent) { return true; }
        }
    }
    false
}

#[test]
fn vf_analyze_exact_mapping() {
    let td = crate::core::testing::new_testdir().unwrap();
    let wp = td.path();
    let dirs = ["app", "app2", "app-web", "lib", "svc", "svc/api", "svc/api/v1", "tools"];
    for d in dirs.iter() { std::fs::create_dir_all(wp.join(d)).unwrap(); std::fs::write(wp.join(d).join("f"), b"x").unwrap(); }
    let configs: Vec<Vec<T>> = vec![
        vec![T{path:"app",uses:vec![],ignores:vec![]}, T{path:"app2",uses:vec![],ignores:vec![]}, T{path:"app-web",uses:vec!["app/shared"],ignores:vec![]}],
        vec![T{path:"svc",uses:vec![],ignores:vec!["svc/api/docs"]}, T{path:"svc/api",uses:vec!["lib"],ignores:vec![]}, T{path:"lib",uses:vec![],ignores:vec![]}],
        vec![T{path:"svc",uses:vec![],ignores:vec![]}, T{path:"svc/api",uses:vec!["shared/proto"],ignores:vec![]}, T{path:"svc/api/v1",uses:vec!["lib/x.txt"],ignores:vec!["svc/api/v1/gen"]}, T{path:"lib",uses:vec![],ignores:vec!["lib/README.md"]}],
        vec![T{path:"tools",uses:vec!["lib", "app2"],ignores:vec!["lib/doc"]}, T{path:"lib",uses:vec![],ignores:vec![]}, T{path:"app2",uses:vec![],ignores:vec![]}, T{path:"app",uses:vec!["app2/src"],ignores:vec![]}],
        // `ignores` entries of DIFFERENT targets nested in one another: each target's own entry counts, not only the most specific one
        vec![T{path:"app",uses:vec!["shared"],ignores:vec!["shared/docs"]}, T{path:"tools",uses:vec!["shared"],ignores:vec!["shared/docs/api"]}, T{path:"lib",uses:vec!["shared/docs"],ignores:vec!["shared/docs/api/v1"]}],
        // entries written with a trailing slash name directories (section 5: they match what is below them)
        vec![T{path:"tools",uses:vec!["lib/"],ignores:vec![]}, T{path:"app",uses:vec![],ignores:vec!["app/generated/"]}, T{path:"lib",uses:vec![],ignores:vec![]}, T{path:"app2",uses:vec!["app/generated/"],ignores:vec![]}],
    ];
    let change_pool = ["app/x", "app2/x", "app2/src/main.rs", "app-web/i.js", "app/shared/a", "lib/y", "lib/x.txt", "lib/doc/a.md", "lib/README.md", "svc/api/docs/i.md",
        "svc/api/v1/gen/a", "svc/api/v1/h.rs", "app/generated/out.rs", "svc/m.rs", "shared/proto/a.proto", "tools/t.sh", "unrelated/z", "application/q", "li",
        "shared/docs/api/v1/x.md", "shared/docs/api/i.md", "shared/docs/guide.md", "shared/src/a.rs"];
    let (mut checked, mut bad, mut nontrivial) = (0u64, 0u64, 0u64);
    for (ci, ts) in configs.iter().enumerate() {
        let cfg = mk_cfg(ts);
        // change sets: every single change, every ordered pair, and one large batch (>50) with repetitions of the pool
        let mut sets: Vec<Vec<&str>> = change_pool.iter().map(|c| vec![*c]).collect();
        for a in 0..change_pool.len() { for b in 0..change_pool.len() { if a != b { sets.push(vec![change_pool[a], change_pool[b]]); } } }
        let mut big: Vec<&str> = vec![]; for r in 0..7 { for (k, c) in change_pool.iter().enumerate() { if (k + r) % 2 == 0 || r == 3 { big.push(*c); } } } sets.push(big.clone());
        let mut big_rev = big.clone(); big_rev.reverse(); sets.push(big_rev);
        for set in sets {
            checked += 1;
            if set.len() >= 2 { nontrivial += 1; }
            let lower: Vec<String> = { let mut v: Vec<String> = (0..ts.len()).filter(|&t| set.iter().any(|c| affected(ts, t, c, true))).map(|t| ts[t].path.to_string()).collect(); v.sort(); v };
            let upper: Vec<String> = { let mut v: Vec<String> = (0..ts.len()).filter(|&t| set.iter().any(|c| affected(ts, t, c, false))).map(|t| ts[t].path.to_string()).collect(); v.sort(); v };
            let changes = || Some(set.iter().map(|c| core::Change { name: c.to_string() }).collect::<Vec<_>>());
            let mut outs = vec![];
            for (sc, sct) in [(false, false), (true, true)] {
                let mut index = core::Index::new(&cfg, &cfg.get_target_path_set(), wp).unwrap();
                outs.push(analyze(&AnalyzeInput::new(sc, sct, false), &mut index, changes()).unwrap());
            }
            let got = &outs[0].targets;
            let mut why = None;
            if !lower.iter().all(|p| got.contains(p)) || !got.iter().all(|p| upper.contains(p)) { why = Some(format!("reported targets {:?}, affected targets are {:?}", got, if lower == upper { format!("{:?}", lower) } else { format!("between {:?} and {:?}", lower, upper) })); }
            else if { let mut s = got.clone(); s.sort(); s.dedup(); &s != got } { why = Some(format!("summary {:?} is not sorted and duplicate-free", got)); }
            else if outs[1].targets != *got { why = Some(format!("summary differs with the per-change breakdown requested: {:?} vs {:?}", outs[1].targets, got)); }
            // C02 / C01: the per-change list names the changes in the order they were given (the change provider hands them over sorted), each once per occurrence - also across the internal batches
            else if outs[1].changes.as_ref().map(|chs| chs.iter().map(|c| c.path.as_str()).collect::<Vec<_>>() != set).unwrap_or(true) {
                let got_names: Vec<&str> = outs[1].changes.as_ref().map(|chs| chs.iter().map(|c| c.path.as_str()).collect()).unwrap_or_default();
                let k = got_names.iter().zip(set.iter()).position(|(a, b)| a != b).unwrap_or(got_names.len().min(set.len()));
                why = Some(format!("the reported changes are not the given changes in the given order ({} given, {} reported, first difference at position {}: given {:?}, reported {:?}) (C02)", set.len(), got_names.len(), k, set.get(k), got_names.get(k)));
            }
            else if let Some(chs) = &outs[1].changes {
                let mut un: Vec<String> = chs.iter().flat_map(|c| c.targets.iter().flatten()).filter(|t| t.reason != AnalyzedChangeTargetReason::Ignores).map(|t| t.path.clone()).collect();
                un.sort(); un.dedup();
                if &un != got { why = Some(format!("summary {:?} is not the union of the non-ignored breakdown entries {:?}", got, un)); }
            }
            if why.is_none() {
                // C03: the reported groups hold exactly the changed targets, each once, dependencies in earlier groups (declaration order is
                // deliberately unsorted in these configurations)
                let mut index = core::Index::new(&cfg, &cfg.get_target_path_set(), wp).unwrap();
                if let Ok(o) = analyze(&AnalyzeInput::new(false, false, true), &mut index, changes()) {
                    if let Some(groups) = &o.target_groups {
                        let mut flat: Vec<String> = groups.iter().flatten().cloned().collect(); flat.sort();
                        let pos = |p: &str| groups.iter().position(|g| g.iter().any(|x| x == p));
                        if flat != o.targets { why = Some(format!("target groups {:?} do not hold exactly the reported targets {:?} (C03)", groups, o.targets)); }
                        else { for a in ts.iter() { for b in ts.iter() { if a.path != b.path && (pp(b.path, a.path) || a.uses.iter().any(|u| pp(b.path, u) || pp(u, b.path) && false)) {
                            if let (Some(pa), Some(pb)) = (pos(a.path), pos(b.path)) { if pb >= pa { why = Some(format!("target groups {:?}: `{}` depends on `{}` but is not in a later group (C03)", groups, a.path, b.path)); } } } } } }
                    }
                }
            }
            if let Some(w) = why { bad += 1; if bad <= 3 { println!("VF-FAIL config#{} changes={:?} :: {}{}", ci, if set.len() > 6 { vec!["<large batch>"] } else { set.clone() }, w, if w.contains("(C03)") { "" } else { " (C01)" }); } }
        }
    }
    println!("VF-SUMMARY test=analyze_exact_mapping checked={} nontrivial={} bad={}", checked, nontrivial, bad);
}
