// Bounded stand-in for the command line of `run` (integration test in a scratch copy of the crate, drives the REAL binary): the clap
// definitions of --args / --argmaps / --no-base-argmaps and HandleRunInput::try_from are not under a Verus contract.
// C11: the executable's argument list is base argmap entries, then the entries of each requested --argmaps file in the order given, then
// the --args values - every value VERBATIM (spaces, quotes, empty strings) - and its working directory is the target's directory.
// BOUND: one target, one command; 6 argument shapes x with / without base argmap x 0..2 argmap files.
use std::os::unix::fs::PermissionsExt;
use std::process::Command;
const BIN: &str = env!("CARGO_BIN_EXE_monorail");

fn free_port() -> u16 { std::net::TcpListener::bind("127.0.0.1:0").unwrap().local_addr().unwrap().port() }

#[test]
fn vf_cli_args_verbatim() {
    let td = tempfile::tempdir().unwrap();
    let root = td.path();
    let t = root.join("svc");
    std::fs::create_dir_all(t.join("monorail/cmd")).unwrap();
    std::fs::create_dir_all(t.join("monorail/argmap")).unwrap();
    let rec = root.join("argv.rec");
    // the script records its working directory and its arguments, NUL-separated, exactly as received
    let script = t.join("monorail/cmd/show.sh");
    std::fs::write(&script, format!("#!/bin/bash\n{{ printf '%s\\0' \"$PWD\"; for a in \"$@\"; do printf '%s\\0' \"$a\"; done; }} > '{}'\n", rec.display())).unwrap();
    let mut perm = std::fs::metadata(&script).unwrap().permissions(); perm.set_mode(0o755); std::fs::set_permissions(&script, perm).unwrap();
    std::fs::write(t.join("monorail/argmap/base.json"), r#"{"show": ["--base", "b 1"]}"#).unwrap();
    std::fs::write(t.join("monorail/argmap/one.json"), r#"{"show": ["from one", ""]}"#).unwrap();
    std::fs::write(t.join("monorail/argmap/two.json"), r#"{"show": ["two's \"q\""]}"#).unwrap();
    let (lp, kp) = (free_port(), free_port());
    let cfg = root.join("Monorail.json");
    std::fs::write(&cfg, format!("{{\"targets\":[{{\"path\":\"svc\"}}],\"server\":{{\"log\":{{\"port\":{}}},\"lock\":{{\"port\":{}}}}}}}", lp, kp)).unwrap();
    let shapes: Vec<Vec<&str>> = vec![
        vec![], vec!["plain"], vec!["hello world"], vec!["a", "", "b"], vec!["it's \"quoted\"", "tab\there"], vec!["  leading and trailing  ", "x=y z", "multi  space"],
    ];
    let (mut checked, mut bad) = (0u64, 0u64);
    for args in &shapes { for base in [true, false] { for maps in [vec![], vec!["one"], vec!["two", "one"], vec!["one", "missing"]] {
        checked += 1;
        let _ = std::fs::remove_file(&rec);
        let mut a: Vec<String> = vec!["-f".into(), cfg.display().to_string(), "run".into(), "-c".into(), "show".into(), "-t".into(), "svc".into()];
        if !base { a.push("--no-base-argmaps".into()); }
        if !maps.is_empty() { a.push("--argmaps".into()); a.extend(maps.iter().map(|s| s.to_string())); }
        if !args.is_empty() { a.push("--args".into()); a.extend(args.iter().map(|s| s.to_string())); }
        let out = Command::new(BIN).current_dir(root).args(&a).output().unwrap();
        let what = format!("`monorail run -c show -t svc{}{}{}`", if base { "" } else { " --no-base-argmaps" }, if maps.is_empty() { String::new() } else { format!(" --argmaps {:?}", maps) }, if args.is_empty() { String::new() } else { format!(" --args {:?}", args) });
        let mut want: Vec<String> = vec![];
        if base { want.extend(["--base", "b 1"].iter().map(|s| s.to_string())); }
        for m in &maps { match *m { "one" => want.extend(["from one", ""].iter().map(|s| s.to_string())), "two" => want.push("two's \"q\"".to_string()), _ => {} } }
        want.extend(args.iter().map(|s| s.to_string()));
        let data = std::fs::read(&rec).unwrap_or_default();
        let mut fields: Vec<String> = data.split(|b| *b == 0).map(|f| String::from_utf8_lossy(f).into_owned()).collect();
        if fields.last().map(|s| s.is_empty()).unwrap_or(false) { fields.pop(); }
        if !out.status.success() || fields.is_empty() { bad += 1; println!("VF-FAIL {} :: the run failed or the executable was not started (exit {:?}): {} (C11)", what, out.status.code(), String::from_utf8_lossy(&out.stdout).chars().take(200).collect::<String>().replace('\n', " ")); continue; }
        let cwd = fields.remove(0);
        let cwd_ok = std::fs::canonicalize(&cwd).ok() == std::fs::canonicalize(&t).ok();
        if fields != want { bad += 1; println!("VF-FAIL {} :: the executable received {:?}, the documented argument list is {:?} (C11)", what, fields, want); }
        else if !cwd_ok { bad += 1; println!("VF-FAIL {} :: working directory {:?}, the target's directory is {:?} (C11)", what, cwd, t); }
    } } }
    println!("VF-SUMMARY test=cli_args_verbatim checked={} nontrivial={} bad={}", checked, checked, bad);
}
