// Bounded stand-in for the command line of `run` (integration test in a scratch copy of the crate, drives the REAL binary): the clap
// definitions of --args / --argmaps / --no-base-argmaps and HandleRunInput::try_from are not under a Verus contract.
// C11: the executable's argument list is base argmap entries, then the entries of each requested --argmaps file in the order given, then
// the --args values - every value VERBATIM (spaces, quotes, empty strings) - and its working directory is the target's directory.
// BOUND: one target, one command; 6 argument shapes x with / without base argmap x 0..2 argmap files.
use std::os::unix::fs::PermissionsExt;
use std::process::Command;
const BIN: &str = env!("CARGO_BIN_EXE_monorail");

fn free_port() -> u16 { std::net::TcpListener::bind("127.0.0.1:0").unwrap().local_addr().unwrap().port() }

#[test]
fn vf_cli_args_verbatim() {
    let td = tempfile::tempdir().unwrap();
    let root = td.path();
    let t = root.join("svc");
    std::fs::create_dir_all(t.join("monorail/cmd")).unwrap();
    std::fs::create_dir_all(t.join("monorail/argmap")).unwrap();
    let rec = root.join("argv.rec");
    // the script records its working directory and its arguments, NUL-separated, exactly as received
    let script = t.join("monorail/cmd/show.sh");
    std::fs::write(&script, format!("#!/bin/bash\n{{ printf '%s\\0' \"$PWD\"; for a in \"$@\"; do printf '%s\\0' \"$a\"; done; }} > '{}'\n", rec.display())).unwrap();
    let mut perm = std::fs::metadata(&script).unwrap().permissions(); perm.set_mode(0o755); std::fs::set_permissions(&script, perm).unwrap();
    std::fs::write(t.join("monorail/argmap/base.json"), r#"{"show": ["--base", "b 1"]}"#).unwrap();
    std::fs::write(t.join("monorail/argmap/one.json"), r#"{"show": ["from one", ""]}"#).unwrap();
    std::fs::write(t.join("monorail/argmap/two.json"), r#"{"show": ["two's \"q\""]}"#).unwrap();
    let (lp, kp) = (free_port(), free_port());
    let cfg = root.join("Monorail.json");
    std::fs::write(&cfg, format!("{{\"targets\":[{{\"path\":\"svc\"}}],\"server\":{{\"log\":{{\"port\":{}}},\"lock\":{{\"port\":{}}}}}}}", lp, kp)).unwrap();
    let shapes: Vec<Vec<&str>> = vec![
        vec![], vec!["plain"], vec!["hello world"], vec!["a", "", "b"], vec!["it's \"quoted\"", "tab\there"], vec!["  leading and trailing  ", "x=y z", "multi  space"],
    ];
    let (mut checked, mut bad) = (0u64, 0u64);
    for args in &shapes { for base in [true, false] { for maps in [vec![], vec!["one"], vec!["two", "one"], vec!["one", "missing"]] {
        checked += 1;
        let _ = std::fs::remove_file(&rec);
        let mut a: Vec<String> = vec!["-f".into(), cfg.display().to_string(), "run".into(), "-c".into(), "show".into(), "-t".into(), "svc".into()];
        if !base { a.push("--no-base-argmaps".into()); }
        if !maps.is_empty() { a.push("--argmaps".into()); a.extend(maps.iter().map(|s| s.to_string())); }
        if !args.is_empty() { a.push("--args".into()); a.extend(args.iter().map(|s| s.to_string())); }
        let out = Command::new(BIN).current_dir(root).args(&a).output().unwrap();
        let what = format!("`monorail run -c show -t svc{}{}{}`", if base { "" } else { " --no-base-argmaps" }, if maps.is_empty() { String::new() } else { format!(" --argmaps {:?}", maps) }, if args.is_empty() { String::new() } else { format!(" --args {:?}", args) });
        let mut want: Vec<String> = vec![];
        if base { want.extend(["--base", "b 1"].iter().map(|s| s.to_string())); }
        for m in &maps { match *m { "one" => want.extend(["from one", ""].iter().map(|s| s.to_string())), "two" => want.push("two's \"q\"".to_string()), _ => {} } }
        want.extend(args.iter().map(|s| s.to_string()));
        let data = std::fs::read(&rec).unwrap_or_default();
        let mut fields: Vec<String> = data.split(|b| *b == 0).map(|f| String::from_utf8_lossy(f).into_owned()).collect();
        if fields.last().map(|s| s.is_empty()).unwrap_or(false) { fields.pop(); }
        if !out.status.success() || fields.is_empty() { bad += 1; println!("VF-FAIL {} :: the run failed or the executable was not started (exit {:?}): {} (C11)", what, out.status.code(), String::from_utf8_lossy(&out.stdout).chars().take(200).collect::<String>().replace('\n', " ")); continue; }
        let cwd = fields.remove(0);
        let cwd_ok = std::fs::canonicalize(&cwd).ok() == std::fs::canonicalize(&t).ok();
        if fields != want { bad += 1; println!("VF-FAIL {} :: the executable received {:?}, the documented argument list is {:?} (C11)", what, fields, want); }
        else if !cwd_ok { bad += 1; println!("VF-FAIL {} :: working directory {:?}, the target's directory is {:?} (C11)", what, cwd, t); }
    } } }
    println!("VF-SUMMARY test=cli_args_verbatim checked={} nontrivial={} bad={}", checked, checked, bad);
}

// C05 / C06: the flags of `run` mean what they say on the real command line: an undefined (command, target) pair fails the run only
// under --fail-on-undefined (and then everything later is skipped); --no-base-argmaps has nothing to do with it; --deps adds the
// dependencies of the named targets, and only --deps does.
#[test]
fn vf_cli_run_flags() {
    let td = tempfile::tempdir().unwrap();
    let root = td.path();
    for t in ["lib", "app"] {
        let p = root.join(t).join("monorail/cmd/build.sh");
        std::fs::create_dir_all(p.parent().unwrap()).unwrap();
        std::fs::write(&p, "#!/bin/sh\nexit 0\n").unwrap();
        let mut perm = std::fs::metadata(&p).unwrap().permissions(); perm.set_mode(0o755); std::fs::set_permissions(&p, perm).unwrap();
    }
    let (lp, kp) = (free_port(), free_port());
    let cfg = root.join("Monorail.json");
    std::fs::write(&cfg, format!("{{\"targets\":[{{\"path\":\"lib\"}},{{\"path\":\"app\",\"uses\":[\"lib\"]}}],\"server\":{{\"log\":{{\"port\":{}}},\"lock\":{{\"port\":{}}}}}}}", lp, if kp == lp { kp + 1 } else { kp })).unwrap();
    let (mut checked, mut bad) = (0u64, 0u64);
    // (extra flags, commands, targets, expect failed, expected status of (build, app), expected set of targets under `build`)
    let cases: Vec<(Vec<&str>, Vec<&str>, Vec<&str>, bool, &str, Vec<&str>)> = vec![
        (vec![], vec!["nosuch", "build"], vec!["app"], false, "success", vec!["app"]),
        (vec!["--no-base-argmaps"], vec!["nosuch", "build"], vec!["app"], false, "success", vec!["app"]),
        (vec!["--fail-on-undefined"], vec!["nosuch", "build"], vec!["app"], true, "skipped", vec!["app"]),
        (vec!["--fail-on-undefined", "--no-base-argmaps"], vec!["nosuch", "build"], vec!["app"], true, "skipped", vec!["app"]),
        (vec!["--deps"], vec!["build"], vec!["app"], false, "success", vec!["app", "lib"]),
        (vec![], vec!["build"], vec!["app"], false, "success", vec!["app"]),
    ];
    for (flags, cmds, targets, want_failed, want_status, want_targets) in cases {
        checked += 1;
        let mut a: Vec<String> = vec!["-f".into(), cfg.display().to_string(), "run".into(), "-c".into()];
        a.extend(cmds.iter().map(|s| s.to_string())); a.push("-t".into()); a.extend(targets.iter().map(|s| s.to_string())); a.extend(flags.iter().map(|s| s.to_string()));
        let o = Command::new(BIN).current_dir(root).args(&a).output().unwrap();
        let what = format!("`monorail run -c {} -t {} {}`", cmds.join(" "), targets.join(" "), flags.join(" "));
        let v: Option<serde_json::Value> = serde_json::from_slice(&o.stdout).ok();
        let Some(v) = v else { bad += 1; println!("VF-FAIL {} :: no result document printed (exit {:?}) (C05) (C06)", what, o.status.code()); continue; };
        let failed = v["failed"].as_bool().unwrap_or(true);
        let build = v["results"].as_array().and_then(|r| r.iter().find(|c| c["command"] == "build")).cloned().unwrap_or(serde_json::Value::Null);
        let mut seen: Vec<String> = vec![]; let mut app_status = String::new();
        for g in build["target_groups"].as_array().cloned().unwrap_or_default() { for (t, r) in g.as_object().cloned().unwrap_or_default() { if t == "app" { app_status = r["status"].as_str().unwrap_or("").to_string(); } seen.push(t); } }
        seen.sort();
        let want_t: Vec<String> = want_targets.iter().map(|s| s.to_string()).collect();
        let exit_ok = o.status.code() == Some(if want_failed { 1 } else { 0 });
        if failed != want_failed || !exit_ok || app_status != want_status || seen != want_t {
            bad += 1;
            println!("VF-FAIL {} :: failed={} exit={:?}, `build` covers {:?} with app `{}`; expected failed={}, `build` over {:?} with app `{}` (an undefined pair fails the run only under --fail-on-undefined; --deps and only --deps adds dependencies) (C05) (C06)",
                what, failed, o.status.code(), seen, app_status, want_failed, want_t, want_status);
        }
    }
    println!("VF-SUMMARY test=cli_run_flags checked={} nontrivial={} bad={}", checked, checked, bad);
}
