#![feature(allocator_api)]
#![allow(unused)]
// unit `plan`: app/run.rs get_plan + the helpers it resolves executables and arguments with (C05, C04, C11)
use vstd::prelude::*;
verus! {
//!include prelude/std_gaps.rs
//!include prelude/keymap.rs
//!include prelude/app.rs
use graph_err::GraphError;
pub mod graph { pub use super::graph_err::GraphError; pub use super::Dag; pub use super::CycleState; }
//!type src/core/graph.rs CycleState
@#[derive(PartialEq, Eq, Structural)]
pub enum CycleState {
    Unknown,
    Yes(usize),
    No,
}
//!end
//!type src/core/graph.rs Dag
pub struct Dag {
    // Adjacency list storing dependencies.
    pub adj_list: Vec<Vec<usize>>,
    pub visibility: Vec<bool>,
    pub cycle_state: CycleState,

    pub label2node: HashMap<String, usize>,
    pub node2label: HashMap<usize, String>,
}
//!end
impl Dag {
//!stub graph Dag::get_node_by_label
}
pub mod core {
    pub use super::{Target, FileDefinition, TargetCommands};
    // only the field get_plan reads (ASSUMED shape: the real Index has further fields, none of them used here)
    pub struct Index<'a> { pub dag: super::Dag, pub _p: ::std::marker::PhantomData<&'a u8> }
}
pub mod file {
    use vstd::prelude::*;
    use super::*;
//!stub file find_file_by_stem
    // ASSUMED (repo function core/file.rs): the permission bits of an existing file, for display
    #[verifier::external_body] pub fn permissions(p: &path::PathBuf) -> Option<String> { unimplemented!() }
}
// what resolution by stem may return for (command, directory): proved for find_file_by_stem in unit file
pub open spec fn stem_result_ok(name: Seq<char>, dir: Seq<char>, r: Option<path::PathBuf>) -> bool {
    &&& r matches Some(p) ==> exists|i: int| #[trigger] stem_hit(dir, name, i) && dir_listing(dir)[i] == p@
    &&& r is None ==> (forall|i: int| !#[trigger] stem_hit(dir, name, i)) || unreadable_dir(dir)
}

impl TargetCommands {
//!fn src/core/mod.rs TargetCommands::get_path props=C11
    pub(crate) fn get_path(&self, target_path: &path::Path) -> ⟦(r: ⟧path::PathBuf⟦)⟧
@        ensures
@            // C11: a target's command directory is its configured `commands.path`, else <target>/monorail/cmd
@            r@ == cmd_dir_rel(*self, target_path@), // [C11]
    {
        match &self.path {
            Some(p) => path::Path::new(&p).to_path_buf(),
            None => target_path.join("monorail/cmd"),
        }
    }
//!end
}
pub open spec fn cmd_dir_rel(c: TargetCommands, target_path: Seq<char>) -> Seq<char> {
    match c.path { Some(p) => p@, None => path_join(target_path, "monorail/cmd"@) }
}

pub mod target {
    use vstd::prelude::*;
    use super::*;
//!type src/app/target.rs AppTargetFile
pub struct AppTargetFile {
    pub path: Option<path::PathBuf>,
    pub permissions: Option<String>,
}
//!end
    // C11: the executable of a command: the configured path below the work directory when the definition names one, else by stem
    pub open spec fn file_ok(name: Seq<char>, def: Option<&core::FileDefinition>, search_path: Seq<char>, work_path: Seq<char>, r: Option<path::PathBuf>) -> bool {
        match def {
            Some(d) => if d.path@.len() == 0 { stem_result_ok(name, search_path, r) } else { r matches Some(p) && p@ == path_join(work_path, d.path@) },
            None => stem_result_ok(name, search_path, r),
        }
    }
    impl AppTargetFile {
//!fn src/app/target.rs AppTargetFile::new props=C11,C05
    pub(crate) fn new(
        name: &str,
        def: Option<&core::FileDefinition>,
        search_path: &path::Path,
        work_path: &path::Path,
    ) -> ⟦(r: ⟧Self⟦)⟧
@        ensures file_ok(name@, def, search_path@, work_path@, r.path), // [C11,C05]
    {
        let p = match def {
            Some(def) => {
                if def.path.is_empty() {
                    // if no path is provided, attempt to discover it
                    file::find_file_by_stem(name, search_path)
                } else {
                    // otherwise, use what was provided instead
                    Some(work_path.join(&def.path))
                }
            }
            None => file::find_file_by_stem(name, search_path),
        };
        let mut permissions = None;
        if let Some(ref p) = p {
            permissions = file::permissions(p);
        }
        Self {
            path: p,
            permissions,
        }
    }
//!end
    }
}

//!type src/app/run.rs ArgMap
pub struct ArgMap {
    pub table: HashMap<String, HashMap<String, Vec<String>>>,
}
//!end
// C11: the extra arguments of (target, command): what the merged argmap table holds for that pair, else none
pub open spec fn args_of(a: ArgMap, target: Seq<char>, command: Seq<char>) -> Option<Seq<String>> {
    if a.table@.dom().contains(target) && a.table@[target]@.dom().contains(command) { Some(a.table@[target]@[command]@) } else { None }
}
impl ArgMap {
//!fn src/app/run.rs ArgMap::get_args props=C11
    fn get_args<'a>(&'a self, target: &'a str, command: &'a str) -> ⟦(r: ⟧Option<&'a [String]>⟦)⟧
@        ensures
@            r matches Some(s) ==> args_of(*self, target@, command@) == Some(s@), // [C11]
@            r is None ==> args_of(*self, target@, command@) is None, // [C11]
    {
        if let Some(cmd_map) = &self.table.get(target) {
            if let Some(args) = &cmd_map.get(command) {
                return Some(args);
            }
        }
        None
    }
//!end
}

//!type src/app/run.rs Logs
pub struct Logs {
    pub stdout_path: path::PathBuf,
    pub stderr_path: path::PathBuf,
}
//!end
impl Logs {
    // ASSUMED (repo function): creates <run_path>/<command>/<target_hash>/ and names the two archives in it
    #[verifier::external_body] fn new(run_path: &path::Path, command: &str, target_hash: &str) -> (r: Result<Self, MonorailError>) { unimplemented!() }
}
//!type src/app/run.rs PlanTarget
pub struct PlanTarget {
    pub path: String,
    pub command_work_path: path::PathBuf,
    pub command_path: Option<path::PathBuf>,
    pub command_args: Option<Vec<String>>,
    pub logs: Logs,
}
//!end
//!type src/app/run.rs PlanCommandTargetGroup
pub struct PlanCommandTargetGroup {
    pub command_index: usize,
    pub target_groups: Vec<Vec<PlanTarget>>,
}
//!end
//!type src/app/run.rs OutRunFiles
pub struct OutRunFiles {
    pub result: String,
    pub stdout: String,
    pub stderr: String,
}
//!end
//!type src/app/run.rs OutRun
pub struct OutRun {
    pub path: String,
    pub files: OutRunFiles,
    pub targets: HashMap<String, String>,
}
//!end
//!type src/app/run.rs Out
pub struct Out {
    pub run: OutRun,
}
//!end
impl Out {
    // ASSUMED (repo function): names of the run's output files
    #[verifier::external_body] fn new(run_path: &path::Path) -> Self { unimplemented!() }
}
//!type src/app/run.rs Plan
pub struct Plan {
    pub command_target_groups: Vec<PlanCommandTargetGroup>,
    pub out: Out,
}
//!end

// ---- what a plan must say (C05: exactly the given targets, once each per command; C04: in the given group order; C11: resolution) ----
pub open spec fn command_path_ok(cmd: Seq<char>, tar: Target, target_path: Seq<char>, work_path: Seq<char>, r: Option<path::PathBuf>) -> bool {
    let dir = path_join(work_path, cmd_dir_rel(tar.commands, target_path));
    match tar.commands.definitions {
        Some(defs) => if defs@.dom().contains(cmd) { target::file_ok(cmd, Some(&defs@[cmd]), dir, work_path, r) } else { stem_result_ok(cmd, dir, r) },
        None => stem_result_ok(cmd, dir, r),
    }
}
pub open spec fn args_ok(a: ArgMap, target: Seq<char>, cmd: Seq<char>, r: Option<Vec<String>>) -> bool {
    match args_of(a, target, cmd) { Some(x) => r matches Some(v) && v@ == x, None => r is None }
}
pub open spec fn pt_ok(pt: PlanTarget, cmd: Seq<char>, target_path: Seq<char>, targets: Seq<Target>, dag: Dag, work_path: Seq<char>, a: ArgMap) -> bool {
    &&& pt.path@ == target_path
    &&& pt.command_work_path@ == path_join(work_path, target_path)
    &&& dag.label2node@.dom().contains(target_path)
    &&& (dag.label2node@[target_path] as int) < targets.len()
    &&& command_path_ok(cmd, targets[dag.label2node@[target_path] as int], target_path, work_path, pt.command_path)
    &&& args_ok(a, targets[dag.label2node@[target_path] as int].path@, cmd, pt.command_args)
}
pub open spec fn group_ok(pg: Seq<PlanTarget>, group: Seq<String>, n: int, cmd: Seq<char>, targets: Seq<Target>, dag: Dag, work_path: Seq<char>, a: ArgMap) -> bool {
    forall|t: int| 0 <= t < n ==> pt_ok(#[trigger] pg[t], cmd, group[t]@, targets, dag, work_path, a)
}
pub open spec fn groups_ok(pgs: Seq<Vec<PlanTarget>>, tgs: Seq<Vec<String>>, n: int, cmd: Seq<char>, targets: Seq<Target>, dag: Dag, work_path: Seq<char>, a: ArgMap) -> bool {
    forall|g: int| 0 <= g < n ==> (#[trigger] pgs[g])@.len() == tgs[g]@.len() && group_ok(pgs[g]@, tgs[g]@, tgs[g]@.len() as int, cmd, targets, dag, work_path, a)
}
pub open spec fn plan_ok(ctg: Seq<PlanCommandTargetGroup>, n: int, commands: Seq<&String>, tgs: Seq<Vec<String>>, targets: Seq<Target>, dag: Dag, work_path: Seq<char>, a: ArgMap) -> bool {
    forall|i: int| 0 <= i < n ==> (#[trigger] ctg[i]).command_index == i && ctg[i].target_groups@.len() == tgs.len()
        && groups_ok(ctg[i].target_groups@, tgs, tgs.len() as int, commands[i]@, targets, dag, work_path, a)
}

//!fn src/app/run.rs get_plan rules=R1,R3,R12 props=C05,C04,C11,C06
fn get_plan<'a>(
    index: &core::Index<'_>,
    commands: &'a [&'a String],
    targets: &[Target],
    target_groups: &[Vec<String>],
    work_path: &path::Path,
    run_path: &path::Path,
    argmap: &ArgMap,
) -> ⟦(res: ⟧Result<Plan, MonorailError>⟦)⟧
@    ensures
@        // C05 / C04: one entry per command, in command order; under each, the given groups in the given order, each holding exactly
@        // the given targets once, in order.  C11: each plan target names its own directory below the work directory as the working
@        // directory, the executable resolved from the target's command definition (configured path, else by stem in the target's
@        // command directory), and the arguments the merged argmap holds for (target, command)
@        res matches Ok(p) ==> p.command_target_groups@.len() == commands@.len()
@            && plan_ok(p.command_target_groups@, commands@.len() as int, commands@, target_groups@, targets@, index.dag, work_path@, *argmap), // [C05,C04,C11,C06]
{
    let mut out = Out::new(run_path);

    // for converting potentially deep nested paths into a single directory string
    let mut hasher = sha2::Sha256::new();
    let mut command_target_groups⟦: Vec<PlanCommandTargetGroup>⟧ = Vec::with_capacity(commands.len());
    for i in 0..commands.len()
@        invariant
@            command_target_groups@.len() == i,
@            plan_ok(command_target_groups@, i as int, commands@, target_groups@, targets@, index.dag, work_path@, *argmap),
    { let cmd = &commands[i];
        let mut plan_target_groups⟦: Vec<Vec<PlanTarget>>⟧ = Vec::with_capacity(target_groups.len());
        for group in ⟦itg: ⟧target_groups
@            invariant
@                itg.seq().len() == target_groups@.len(), forall|j: int| 0 <= j < itg.seq().len() ==> *itg.seq()[j] == target_groups@[j], 0 <= i < commands@.len(), cmd == &commands@[i as int],
@                plan_target_groups@.len() == itg.index@,
@                groups_ok(plan_target_groups@, target_groups@, itg.index@ as int, commands@[i as int]@, targets@, index.dag, work_path@, *argmap),
        {
@            let ghost gi = itg.index@ as int;
            let mut plan_targets⟦: Vec<PlanTarget>⟧ = Vec::with_capacity(group.len());
            for target_path in ⟦itt: ⟧group
@                invariant
@                    itt.seq().len() == group@.len(), forall|j: int| 0 <= j < itt.seq().len() ==> *itt.seq()[j] == group@[j], cmd == &commands@[i as int],
@                    plan_targets@.len() == itt.index@,
@                    group_ok(plan_targets@, group@, itt.index@ as int, commands@[i as int]@, targets@, index.dag, work_path@, *argmap),
            {
                hasher.update(target_path);
                let target_hash = sha2::hex_of(hasher.finalize_reset());
                out.run
                    .targets
                    .insert(target_path.to_string(), target_hash.clone());
                let logs = Logs::new(run_path, cmd.as_str(), &target_hash)?;
                let target_index = index.dag.get_node_by_label(target_path)?;
                let tar = targets
                    .get(target_index)
                    .ok_or(MonorailError::from("Target not found"))?;
                let commands_path =
                    work_path.join(tar.commands.get_path(path::Path::new(target_path)));
                let command_path = match &tar.commands.definitions {
                    Some(definitions) => match definitions.get(cmd.as_str()) {
                        Some(def) => {
                            let app_target_command = target::AppTargetFile::new(
                                cmd,
                                Some(def),
                                &commands_path,
                                work_path,
                            );
                            app_target_command.path
                        }
                        None => file::find_file_by_stem(cmd, &commands_path),
                    },
                    None => file::find_file_by_stem(cmd, &commands_path),
                };
@                let ghost old_pts = plan_targets@;
                plan_targets.push(PlanTarget {
                    path: target_path.to_owned(),
                    command_work_path: work_path.join(target_path),
                    command_path,
                    command_args: argmap.get_args(&tar.path, cmd).map(|x⟦: &[String]⟧| ⟦-> (v: Vec<String>) ensures v@ == x@ {⟧x.to_vec()⟦}⟧),
                    logs,
                });
@                assert(plan_targets@ =~= old_pts.push(plan_targets@[plan_targets@.len() - 1]));
            }
@            let ghost old_g = plan_target_groups@;
            plan_target_groups.push(plan_targets);
@            assert(plan_target_groups@ =~= old_g.push(plan_target_groups@[gi]));
        }
@        let ghost old_c = command_target_groups@;
        command_target_groups.push(PlanCommandTargetGroup {
            command_index: i,
            target_groups: plan_target_groups,
        });
@        assert(command_target_groups@ =~= old_c.push(command_target_groups@[i as int]));
    }

    Ok(Plan {
        command_target_groups,
        out,
    })
}
//!end

// ---- spawn_task: tokio::process::Command as a ghost record of what will be executed (ASSUMED builder semantics) ----
pub mod process {
    use vstd::prelude::*;
    pub enum Stdio { Piped, Null, Inherit }
    impl Stdio {
        #[verifier::external_body] pub fn piped() -> (r: Stdio) ensures r is Piped { unimplemented!() }
        #[verifier::external_body] pub fn null() -> (r: Stdio) ensures r is Null { unimplemented!() }
    }
}
pub mod tokio_process {
    use vstd::prelude::*;
    use super::*;
    // std's defaults: no extra arguments, the parent's working directory (None), inherited stdio
    pub struct Command { pub ghost program: Seq<char>, pub ghost cwd: Option<Seq<char>>, pub ghost args: Seq<Seq<char>>, pub ghost sin: process::Stdio, pub ghost sout: process::Stdio, pub ghost serr: process::Stdio, pub x: u8 }
    pub struct Child { pub ghost cmd: Command, pub x: u8 }
    pub open spec fn str_views(a: Seq<String>) -> Seq<Seq<char>> { Seq::new(a.len(), |i: int| a[i]@) }
    impl Command {
        #[verifier::external_body] pub fn new(program: &path::Path) -> (r: Command)
            ensures r.program == program@, r.cwd is None, r.args == Seq::<Seq<char>>::empty(), r.sin is Inherit, r.sout is Inherit, r.serr is Inherit { unimplemented!() }
        #[verifier::external_body] pub fn current_dir(&mut self, d: &path::Path) -> (r: &mut Command)
            ensures *r == (Command { cwd: Some(d@), ..*old(self) }), *final(r) == *final(self) { unimplemented!() }
        #[verifier::external_body] pub fn stdout(&mut self, s: process::Stdio) -> (r: &mut Command)
            ensures *r == (Command { sout: s, ..*old(self) }), *final(r) == *final(self) { unimplemented!() }
        #[verifier::external_body] pub fn stderr(&mut self, s: process::Stdio) -> (r: &mut Command)
            ensures *r == (Command { serr: s, ..*old(self) }), *final(r) == *final(self) { unimplemented!() }
        #[verifier::external_body] pub fn stdin(&mut self, s: process::Stdio) -> (r: &mut Command)
            ensures *r == (Command { sin: s, ..*old(self) }), *final(r) == *final(self) { unimplemented!() }
        // args appends, in order, verbatim
        #[verifier::external_body] pub fn args(&mut self, a: &Vec<String>) -> (r: &mut Command)
            ensures *r == (Command { args: old(self).args + str_views(a@), ..*old(self) }), *final(r) == *final(self) { unimplemented!() }
        // spawn starts exactly what the builder describes (or fails)
        #[verifier::external_body] pub fn spawn(&mut self) -> (r: Result<Child, std::io::Error>)
            ensures *final(self) == *old(self), r matches Ok(ch) ==> ch.cmd == *old(self) { unimplemented!() }
    }
}
//!fn src/app/run.rs spawn_task rules=R1,R12,R17 props=C11
pub(crate) fn spawn_task(
    command_work_path: &path::Path,
    command_path: &path::Path,
    command_args: &Option<Vec<String>>,
) -> ⟦(r: ⟧Result<tokio_process::Child, MonorailError>⟦)⟧
@    ensures
@        // C11: the executable is started as the resolved file, in the target's directory, with exactly the argmap's arguments (verbatim,
@        // in order; none when there are none), stdin closed, both output streams captured
@        r matches Ok(ch) ==> ch.cmd.program == command_path@ && ch.cmd.cwd == Some(command_work_path@)
@            && ch.cmd.args == (match command_args { Some(a) => tokio_process::str_views(a@), None => Seq::<Seq<char>>::empty() })
@            && ch.cmd.sin is Null && ch.cmd.sout is Piped && ch.cmd.serr is Piped, // [C11]
{
    let mut cmd = tokio_process::Command::new(command_path);
    cmd.current_dir(command_work_path)
        .stdout(process::Stdio::piped())
        .stderr(process::Stdio::piped())
        // parallel execution makes use of stdin impractical
        .stdin(process::Stdio::null());
    if let Some(ca) = command_args {
        cmd.args(ca);
    }
    cmd.spawn().map_err(MonorailError::from)
}
//!end

// ---- ArgMap::merge: merging appends (C11: earlier merges come first in the argument list) ----
pub open spec fn row(m: Map<Seq<char>, Vec<String>>, c: Seq<char>) -> Seq<String> { if m.dom().contains(c) { m[c]@ } else { Seq::empty() } }
pub open spec fn cell(m: Map<Seq<char>, HashMap<String, Vec<String>>>, t: Seq<char>, c: Seq<char>) -> Seq<String> {
    if m.dom().contains(t) { row(m[t]@, c) } else { Seq::empty() }
}
// what the first i entries of an iterated map contribute to (t, c) / to c
pub open spec fn acc(sv: Seq<(String, HashMap<String, Vec<String>>)>, i: int, t: Seq<char>, c: Seq<char>) -> Seq<String> decreases i {
    if i <= 0 { Seq::empty() } else { acc(sv, i - 1, t, c) + (if sv[i - 1].0@ == t { row(sv[i - 1].1@, c) } else { Seq::empty() }) }
}
pub open spec fn acc2(cv: Seq<(String, Vec<String>)>, j: int, c: Seq<char>) -> Seq<String> decreases j {
    if j <= 0 { Seq::empty() } else { acc2(cv, j - 1, c) + (if cv[j - 1].0@ == c { cv[j - 1].1@ } else { Seq::empty() }) }
}
pub open spec fn lists1<V>(sv: Seq<(String, V)>, m: Map<Seq<char>, V>) -> bool {
    &&& forall|i: int| 0 <= i < sv.len() ==> m.dom().contains((#[trigger] sv[i]).0@) && m[sv[i].0@] == sv[i].1
    &&& forall|k: Seq<char>| m.dom().contains(k) ==> exists|i: int| 0 <= i < sv.len() && (#[trigger] sv[i]).0@ == k
    &&& forall|i: int, j: int| 0 <= i < j < sv.len() ==> (#[trigger] sv[i]).0@ != (#[trigger] sv[j]).0@
}
proof fn lemma_acc2_none(cv: Seq<(String, Vec<String>)>, j: int, c: Seq<char>)
    requires 0 <= j <= cv.len(), forall|k: int| 0 <= k < j ==> (#[trigger] cv[k]).0@ != c,
    ensures acc2(cv, j, c) == Seq::<String>::empty()
    decreases j
{ if j > 0 { lemma_acc2_none(cv, j - 1, c); assert(acc2(cv, j - 1, c) + Seq::<String>::empty() =~= Seq::<String>::empty()); } }
proof fn lemma_acc2_all(cv: Seq<(String, Vec<String>)>, m: Map<Seq<char>, Vec<String>>, j: int, c: Seq<char>)
    requires lists1(cv, m), 0 <= j <= cv.len(),
    ensures acc2(cv, j, c) == (if exists|k: int| 0 <= k < j && (#[trigger] cv[k]).0@ == c { row(m, c) } else { Seq::<String>::empty() })
    decreases j
{
    if j > 0 {
        lemma_acc2_all(cv, m, j - 1, c);
        if cv[j - 1].0@ == c {
            assert forall|k: int| 0 <= k < j - 1 implies (#[trigger] cv[k]).0@ != c by { }
            lemma_acc2_none(cv, j - 1, c);
            assert(m[c] == cv[j - 1].1);
            assert(Seq::<String>::empty() + cv[j - 1].1@ =~= cv[j - 1].1@);
        } else {
            assert(acc2(cv, j - 1, c) + Seq::<String>::empty() =~= acc2(cv, j - 1, c));
            if exists|k: int| 0 <= k < j && (#[trigger] cv[k]).0@ == c { let k = choose|k: int| 0 <= k < j && (#[trigger] cv[k]).0@ == c; assert(k < j - 1); }
        }
    }
}
proof fn lemma_acc2_done(cv: Seq<(String, Vec<String>)>, m: Map<Seq<char>, Vec<String>>, c: Seq<char>)
    requires lists1(cv, m), ensures acc2(cv, cv.len() as int, c) == row(m, c)
{ lemma_acc2_all(cv, m, cv.len() as int, c); if m.dom().contains(c) { let i = choose|i: int| 0 <= i < cv.len() && (#[trigger] cv[i]).0@ == c; } else { assert forall|k: int| 0 <= k < cv.len() implies (#[trigger] cv[k]).0@ != c by { } } }
proof fn lemma_acc_none(sv: Seq<(String, HashMap<String, Vec<String>>)>, i: int, t: Seq<char>, c: Seq<char>)
    requires 0 <= i <= sv.len(), forall|k: int| 0 <= k < i ==> (#[trigger] sv[k]).0@ != t,
    ensures acc(sv, i, t, c) == Seq::<String>::empty()
    decreases i
{ if i > 0 { lemma_acc_none(sv, i - 1, t, c); assert(acc(sv, i - 1, t, c) + Seq::<String>::empty() =~= Seq::<String>::empty()); } }
proof fn lemma_acc_all(sv: Seq<(String, HashMap<String, Vec<String>>)>, m: Map<Seq<char>, HashMap<String, Vec<String>>>, i: int, t: Seq<char>, c: Seq<char>)
    requires lists1(sv, m), 0 <= i <= sv.len(),
    ensures acc(sv, i, t, c) == (if exists|k: int| 0 <= k < i && (#[trigger] sv[k]).0@ == t { cell(m, t, c) } else { Seq::<String>::empty() })
    decreases i
{
    if i > 0 {
        lemma_acc_all(sv, m, i - 1, t, c);
        if sv[i - 1].0@ == t {
            assert forall|k: int| 0 <= k < i - 1 implies (#[trigger] sv[k]).0@ != t by { }
            lemma_acc_none(sv, i - 1, t, c);
            assert(m[t] == sv[i - 1].1);
            assert(Seq::<String>::empty() + row(sv[i - 1].1@, c) =~= row(sv[i - 1].1@, c));
        } else {
            assert(acc(sv, i - 1, t, c) + Seq::<String>::empty() =~= acc(sv, i - 1, t, c));
            if exists|k: int| 0 <= k < i && (#[trigger] sv[k]).0@ == t { let k = choose|k: int| 0 <= k < i && (#[trigger] sv[k]).0@ == t; assert(k < i - 1); }
        }
    }
}
proof fn lemma_acc_done(sv: Seq<(String, HashMap<String, Vec<String>>)>, m: Map<Seq<char>, HashMap<String, Vec<String>>>, t: Seq<char>, c: Seq<char>)
    requires lists1(sv, m), ensures acc(sv, sv.len() as int, t, c) == cell(m, t, c)
{ lemma_acc_all(sv, m, sv.len() as int, t, c); if m.dom().contains(t) { let i = choose|i: int| 0 <= i < sv.len() && (#[trigger] sv[i]).0@ == t; } else { assert forall|k: int| 0 <= k < sv.len() implies (#[trigger] sv[k]).0@ != t by { } } }

impl ArgMap {
//!fn src/app/run.rs ArgMap::merge rules=R12 props=C11
    fn merge(&mut self, src: HashMap<String, HashMap<String, Vec<String>>>)
@        ensures
@            // C11: merging APPENDS - for every (target, command) the arguments already present stay in front, the merged ones follow in
@            // their own order; nothing else changes
@            forall|t: Seq<char>, c: Seq<char>| #![trigger cell(final(self).table@, t, c)] cell(final(self).table@, t, c) == cell(old(self).table@, t, c) + cell(src@, t, c), // [C11]
    {
        let src_vec = src.into_vec(); 
@        let ghost sv = src_vec@;
@        let ghost tb0 = self.table@;
@        assert(lists1(sv, src@)) by { assert forall|i: int| 0 <= i < sv.len() implies src@.dom().contains((#[trigger] sv[i]).0@) && src@[sv[i].0@] == sv[i].1 by { assert(sv[i].0.kv() == sv[i].0@); } 
@            assert forall|k: Seq<char>| src@.dom().contains(k) implies exists|i: int| 0 <= i < sv.len() && (#[trigger] sv[i]).0@ == k by { let i = choose|i: int| 0 <= i < sv.len() && (#[trigger] sv[i]).0.kv() == k; assert(sv[i].0@ == k); }
@            assert forall|i: int, j: int| 0 <= i < j < sv.len() implies (#[trigger] sv[i]).0@ != (#[trigger] sv[j]).0@ by { assert(sv[i].0.kv() != sv[j].0.kv()); } }
        for (src_target, src_commands) in ⟦its: ⟧src_vec
@            invariant
@                its.seq() == sv, lists1(sv, src@),
@                forall|t: Seq<char>, c: Seq<char>| #![trigger cell(self.table@, t, c)] cell(self.table@, t, c) == cell(tb0, t, c) + acc(sv, its.index@ as int, t, c),
        {
@            let ghost i = its.index@ as int;
@            let ghost tbi = self.table@;
@            let ghost tt = src_target@;
@            let ghost sc_src = src_commands@;
            let self_commands = self.table.entry_or_default(src_target);
@            let ghost sc0 = self_commands@;
            let cmd_vec = src_commands.into_vec(); 
@            let ghost cv = cmd_vec@;
@            assert(lists1(cv, sc_src)) by { assert forall|q: int| 0 <= q < cv.len() implies sc_src.dom().contains((#[trigger] cv[q]).0@) && sc_src[cv[q].0@] == cv[q].1 by { assert(cv[q].0.kv() == cv[q].0@); }
@                assert forall|k: Seq<char>| sc_src.dom().contains(k) implies exists|q: int| 0 <= q < cv.len() && (#[trigger] cv[q]).0@ == k by { let q = choose|q: int| 0 <= q < cv.len() && (#[trigger] cv[q]).0.kv() == k; assert(cv[q].0@ == k); }
@                assert forall|p: int, q: int| 0 <= p < q < cv.len() implies (#[trigger] cv[p]).0@ != (#[trigger] cv[q]).0@ by { assert(cv[p].0.kv() != cv[q].0.kv()); } }
            for (src_command, mut src_args) in ⟦itc: ⟧cmd_vec
@                invariant
@                    itc.seq() == cv,
@                    forall|c: Seq<char>| #![trigger row(self_commands@, c)] row(self_commands@, c) == row(sc0, c) + acc2(cv, itc.index@ as int, c),
            {
@                let ghost j = itc.index@ as int;
@                let ghost scj = self_commands@;
@                let ghost cc = src_command@;
@                let ghost args = src_args@;
                self_commands
                    .entry_or_default(src_command)
                    .append(&mut src_args);
@                assert forall|c: Seq<char>| #![trigger row(self_commands@, c)] row(self_commands@, c) == row(sc0, c) + acc2(cv, j + 1, c) by {
@                    if c == cc { assert(row(self_commands@, c) =~= row(scj, c) + args); assert((row(sc0, c) + acc2(cv, j, c)) + args =~= row(sc0, c) + (acc2(cv, j, c) + args)); }
@                    else { assert(row(self_commands@, c) == row(scj, c)); assert(acc2(cv, j, c) + Seq::<String>::empty() =~= acc2(cv, j, c)); }
@                }
            }
@            proof {
@                assert forall|t: Seq<char>, c: Seq<char>| #![trigger cell(self.table@, t, c)] cell(self.table@, t, c) == cell(tb0, t, c) + acc(sv, i + 1, t, c) by {
@                    if t == tt {
@                        lemma_acc2_done(cv, sc_src, c);
@                        assert(row(sc0, c) == cell(tbi, t, c));
@                        assert((cell(tb0, t, c) + acc(sv, i, t, c)) + row(sc_src, c) =~= cell(tb0, t, c) + (acc(sv, i, t, c) + row(sc_src, c)));
@                    } else { assert(cell(self.table@, t, c) == cell(tbi, t, c)); assert(acc(sv, i, t, c) + Seq::<String>::empty() =~= acc(sv, i, t, c)); }
@                }
@            }
        }
@        proof { assert forall|t: Seq<char>, c: Seq<char>| #![trigger cell(self.table@, t, c)] cell(self.table@, t, c) == cell(tb0, t, c) + cell(src@, t, c) by { lemma_acc_done(sv, src@, t, c); } }
    }
//!end
}

// serde_json::from_reader over the buffered file: the value the file's bytes denote (the whole content: BufReader::new over a freshly opened file)
#[verifier::external_body] pub fn from_reader_buf<T>(br: iox::BufReader<fs::File>, Tracked(w): Tracked<&mut World>) -> (r: Result<T, serde_json::Error>)
    ensures *final(w) == *old(w), r matches Ok(v) ==> json_parse::<T>(br.rest) == Some(v), r is Err ==> json_parse::<T>(br.rest) is None { unimplemented!() }
#[verifier::external_body] pub fn json_to_generic(e: serde_json::Error) -> (r: MonorailError) ensures r is Generic { unimplemented!() }
// HashMap::from([(k, v)])
#[verifier::external_body] pub fn hashmap_single<V>(k: String, v: V) -> (r: HashMap<String, V>) ensures r@ == Map::<Seq<char>, V>::empty().insert(k@, v) { unimplemented!() }
// what an argmap file contributes to (target, command): the arguments its JSON object lists for the command; nothing when there is no file
pub open spec fn file_args(fs: Map<Seq<char>, Seq<u8>>, p: Seq<char>, c: Seq<char>) -> Seq<String> {
    if fs.dom().contains(p) && json_parse::<HashMap<String, Vec<String>>>(fs[p]) is Some { row(json_parse::<HashMap<String, Vec<String>>>(fs[p])->Some_0@, c) } else { Seq::empty() }
}
impl ArgMap {
//!fn src/app/run.rs ArgMap::merge_target_argmap rules=R1,R10,R12,R16 props=C11
    fn merge_target_argmap(&mut self, target: &str, p: &path::Path, Tracked(w): Tracked<&mut World>) -> ⟦(res: ⟧Result<(), MonorailError>⟦)⟧
@        ensures
@            final(w).fs == old(w).fs,
@            // C11: the entries of the file are appended under this target's key, command by command; a missing file contributes nothing
@            // (and is not an error); an unreadable or malformed file is an error and changes nothing
@            res is Ok ==> forall|t: Seq<char>, c: Seq<char>| #![trigger cell(final(self).table@, t, c)] cell(final(self).table@, t, c)
@                == cell(old(self).table@, t, c) + (if t == target@ { file_args(old(w).fs, p@, c) } else { Seq::<String>::empty() }), // [C11]
@            res is Ok ==> (old(w).fs.dom().contains(p@) ==> json_parse::<HashMap<String, Vec<String>>>(old(w).fs[p@]) is Some), // [C11]
@            !old(w).fs.dom().contains(p@) ==> res is Ok, // [C11]
@            res is Err ==> final(self).table@ == old(self).table@,
    {
        if !p.exists(Tracked(w)) {
@            assert forall|t: Seq<char>, c: Seq<char>| #![trigger cell(self.table@, t, c)] cell(self.table@, t, c) == cell(self.table@, t, c) + Seq::<String>::empty() by { assert(cell(self.table@, t, c) + Seq::<String>::empty() =~= cell(self.table@, t, c)); }
            return Ok(());
        }
        let f = fs::File::open(p, Tracked(w)).map_err(MonorailError::from)?;
        let br = iox::BufReader::new(f);
        let src⟦: HashMap<String, Vec<String>>⟧ = from_reader_buf(br, Tracked(w)).map_err(json_to_generic)?;
@        let ghost tb0 = self.table@;
@        let ghost one = Map::<Seq<char>, HashMap<String, Vec<String>>>::empty().insert(target@, src);
        self.merge(hashmap_single(target.to_string(), src));
@        assert forall|t: Seq<char>, c: Seq<char>| #![trigger cell(self.table@, t, c)] cell(self.table@, t, c) == cell(tb0, t, c) + (if t == target@ { file_args(old(w).fs, p@, c) } else { Seq::<String>::empty() }) by {
@            assert(cell(self.table@, t, c) == cell(tb0, t, c) + cell(one, t, c));
@        }
        Ok(())
    }
//!end
}

//!type src/app/run.rs HandleRunInput
pub struct HandleRunInput<'a> {
    pub git_opts: git::GitOptions<'a>,
    pub commands: Vec<&'a String>,
    pub sequences: Vec<&'a String>,
    pub targets: HashSet<&'a String>,
    pub args: Vec<&'a String>,
    pub argmaps: Vec<&'a String>,
    pub include_deps: bool,
    pub fail_on_undefined: bool,
    pub use_base_argmaps: bool,
}
//!end
pub mod git { pub struct GitOptions<'a> { pub begin: Option<&'a str>, pub end: Option<&'a str>, pub git_path: &'a str } }
// R12 targets: `set.iter().next()` - some member of the set, none iff it is empty; `v.iter().map(|s| s.to_string()).collect()` - the same strings, owned
#[verifier::external_body] pub fn set_first<'a>(s: &HashSet<&'a String>) -> (r: Option<&'a String>)
    ensures r matches Some(x) ==> s@.contains(x@), r is None ==> s@ =~= Set::<Seq<char>>::empty() { unimplemented!() }
#[verifier::external_body] pub fn strs_to_strings(v: &Vec<&String>) -> (r: Vec<String>)
    ensures r@.len() == v@.len(), forall|i: int| 0 <= i < r@.len() ==> (#[trigger] r@[i])@ == v@[i]@ { unimplemented!() }
pub open spec fn views_eq(a: Seq<String>, b: Seq<&String>) -> bool { a.len() == b.len() && forall|i: int| 0 <= i < a.len() ==> (#[trigger] a[i])@ == b[i]@ }
impl ArgMap {
//!fn src/app/run.rs ArgMap::merge_run_input rules=R1,R12 props=C11
    fn merge_run_input(&mut self, input: &HandleRunInput) -> ⟦(res: ⟧Result<(), MonorailError>⟦)⟧
@        ensures
@            // C11: `--arg` values are appended LAST (this runs after every argmap file was merged) to the single requested (target, command);
@            // with several commands or targets they are rejected; without --arg nothing changes
@            input.args@.len() == 0 ==> res is Ok && final(self).table@ == old(self).table@, // [C11]
@            (input.args@.len() > 0 && res is Ok) ==> input.commands@.len() == 1 && exists|tg: Seq<char>| #![trigger input.targets@.contains(tg)] input.targets@.contains(tg)
@                && forall|t: Seq<char>, c: Seq<char>| #![trigger cell(final(self).table@, t, c)] (if t == tg && c == input.commands@[0]@ {
@                        exists|extra: Seq<String>| views_eq(extra, input.args@) && #[trigger] cell(final(self).table@, t, c) == cell(old(self).table@, t, c) + extra
@                    } else { cell(final(self).table@, t, c) == cell(old(self).table@, t, c) }), // [C11]
@            res is Err ==> final(self).table@ == old(self).table@,
    {
        if !input.args.is_empty() {
            if input.commands.len() != 1 {
                return Err(MonorailError::from(
                    "When providing --arg, only one command may be specified",
                ));
            }
            if input.targets.len() != 1 {
                return Err(MonorailError::from(
                    "When providing --arg, only one target may be specified",
                ));
            }
@            let ghost tb0 = self.table@;
            let first_target = set_first(&input.targets).ok_or(MonorailError::from("Could not extract target"))?.to_string(); let arg_strings = strs_to_strings(&input.args); let src = hashmap_single(first_target, hashmap_single(input.commands[0].to_string(), arg_strings));
@            let ghost tg = first_target@;
@            let ghost extra = arg_strings@;
@            let ghost srcv = src@;
@            proof { broadcast use axiom_to_string_ref, axiom_to_string_string; assert(input.targets@.contains(tg)); }
            self.merge(src)⟦;⟧
@            proof {
@                broadcast use axiom_to_string_ref, axiom_to_string_string;
@                assert forall|t: Seq<char>, c: Seq<char>| #![trigger cell(self.table@, t, c)] (if t == tg && c == input.commands@[0]@ {
@                        exists|ex: Seq<String>| views_eq(ex, input.args@) && #[trigger] cell(self.table@, t, c) == cell(tb0, t, c) + ex
@                    } else { cell(self.table@, t, c) == cell(tb0, t, c) }) by {
@                    assert(cell(self.table@, t, c) == cell(tb0, t, c) + cell(srcv, t, c));
@                    if t == tg && c == input.commands@[0]@ { assert(cell(srcv, t, c) == extra); assert(views_eq(extra, input.args@)); }
@                    else { assert(cell(srcv, t, c) =~= Seq::<String>::empty()); assert(cell(tb0, t, c) + Seq::<String>::empty() =~= cell(tb0, t, c)); }
@                }
@            }
        }
        Ok(())
    }
//!end
}
} // verus!
fn main() {}
