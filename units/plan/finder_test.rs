// Run-time finder for unit `plan` (child module of app::run in a scratch copy of the crate; never the deciding step).
// get_plan on a real directory tree: shape and order of the plan (C05, C04), working directory / executable / arguments (C11).
use super::*;

fn vf_touch(p: &std::path::Path) { std::fs::create_dir_all(p.parent().unwrap()).unwrap(); std::fs::write(p, b"#!/bin/sh\n").unwrap(); }

#[test]
fn vf_get_plan() {
    let td = crate::core::testing::new_testdir().unwrap();
    let wp = td.path();
    // a: default command directory; a/b: custom command directory + definitions; c: nothing on disk
    for f in ["a/monorail/cmd/build.sh", "a/monorail/cmd/lint.fix.sh", "a/monorail/cmd/test.py", "a/monorail/cmd/testing.py", "a/b/scripts/lint.rb", "a/b/scripts/build.sh", "tools/b.sh", "shared/cmds/build.sh", "shared/cmds/lint.py", "tools/e-build.sh", "f/monorail/cmd/build.sh", "d/README", "e/README"] { vf_touch(&wp.join(f)); }
    vf_touch(&wp.join("c/README"));
    // the targets are deliberately NOT declared in lexicographic order: a target's definitions are its own, wherever it is declared
    let cfg: core::Config = serde_json::from_str(r#"{"targets":[
        {"path":"e","commands":{"path":"shared/cmds","definitions":{"build":{"path":"tools/e-build.sh"}}}},
        {"path":"c","commands":{"definitions":{"test":{"path":"c/run-tests"}}}},
        {"path":"a/b","commands":{"path":"a/b/scripts","definitions":{"build":{"path":"tools/b.sh"},"lint":{"path":""}}}},
        {"path":"d","commands":{"path":"shared/cmds"}},
        {"path":"a"},
        {"path":"f/"}]}"#).unwrap();
    let index = core::Index::new(&cfg, &cfg.get_target_path_set(), wp).unwrap();
    let mut argmap = ArgMap::new();
    let mut m: HashMap<String, HashMap<String, Vec<String>>> = HashMap::new();
    m.entry("a".into()).or_default().insert("build".into(), vec!["--release".into(), "-v".into()]);
    m.entry("a/b".into()).or_default().insert("lint".into(), vec!["--fix".into()]);
    m.entry("c".into()).or_default().insert("build".into(), vec![]);
    argmap.merge(m);
    let cmds: Vec<String> = vec!["build".into(), "lint".into(), "test".into(), "nothere".into()];
    let (mut checked, mut bad) = (0u64, 0u64);
    for groups in [vec![vec!["a".to_string(), "c".to_string()], vec!["a/b".to_string()]], vec![vec!["a/b".to_string()], vec!["c".to_string()], vec!["a".to_string()]], vec![vec!["c".to_string()]], vec![], vec![vec!["d".to_string(), "e".to_string()]], vec![vec!["e".to_string()], vec!["d".to_string(), "a".to_string()]], vec![vec!["f/".to_string(), "a".to_string()]]] {
        for order in [vec![0usize, 1, 2, 3], vec![3, 2, 1, 0], vec![1], vec![0, 1, 0], vec![2, 0, 2, 0, 0]] {
            checked += 1;
            let commands: Vec<&String> = order.iter().map(|i| &cmds[*i]).collect();
            let run_path = wp.join("out/run/1");
            let what = format!("get_plan for commands {:?} over groups {:?}", commands, groups);
            let plan = match get_plan(&index, &commands, &cfg.targets, &groups, wp, &run_path, &argmap) { Ok(p) => p, Err(e) => { bad += 1; println!("VF-FAIL {} :: failed: {} (C05)", what, e); continue; } };
            // C05 / C04: shape and order
            let shape: Vec<(usize, Vec<Vec<String>>)> = plan.command_target_groups.iter().map(|c| (c.command_index, c.target_groups.iter().map(|g| g.iter().map(|t| t.path.clone()).collect()).collect())).collect();
            let want: Vec<(usize, Vec<Vec<String>>)> = (0..commands.len()).map(|i| (i, groups.clone())).collect();
            if shape != want { bad += 1; println!("VF-FAIL {} :: the plan lists {:?}; every command must cover exactly the given groups, in order, each target once - a group without an executable still yields its `undefined` entries (C05) (C04) (C06)", what, shape); continue; }
            // C11: resolution
            for (ci, c) in plan.command_target_groups.iter().enumerate() {
                let cmd = commands[ci].as_str();
                for t in c.target_groups.iter().flatten() {
                    let exp_path: Option<std::path::PathBuf> = match (t.path.as_str(), cmd) {
                        ("a", "build") => Some(wp.join("a/monorail/cmd/build.sh")),
                        ("a", "test") => Some(wp.join("a/monorail/cmd/test.py")),
                        ("a/b", "build") => Some(wp.join("tools/b.sh")),
                        ("a/b", "lint") => Some(wp.join("a/b/scripts/lint.rb")),
                        ("c", "test") => Some(wp.join("c/run-tests")),
                        ("d", "build") => Some(wp.join("shared/cmds/build.sh")),
                        ("d", "lint") | ("e", "lint") => Some(wp.join("shared/cmds/lint.py")),
                        ("e", "build") => Some(wp.join("tools/e-build.sh")),
                        ("f/", "build") => Some(wp.join("f/monorail/cmd/build.sh")),
                        _ => None,
                    };
                    let exp_args: Option<Vec<String>> = match (t.path.as_str(), cmd) { ("a", "build") => Some(vec!["--release".into(), "-v".into()]), ("a/b", "lint") => Some(vec!["--fix".into()]), ("c", "build") => Some(vec![]), _ => None };
                    if t.command_path != exp_path { bad += 1; println!("VF-FAIL {} :: target {} command {}: executable {:?}, documented resolution gives {:?} - the target's own definition for the command when it has one (whether or not that file exists: a missing file is `not_executable`, not `undefined`), else the file of that stem in its command directory (C11) (C05) (C06) (C16)", what, t.path, cmd, t.command_path, exp_path); }
                    if t.command_work_path != wp.join(&t.path) { bad += 1; println!("VF-FAIL {} :: target {} command {}: working directory {:?}, must be the target's own directory (C11)", what, t.path, cmd, t.command_work_path); }
                    // C08 / C12: a task's archives are <slot>/<command>/<sha-256 of the target's path AS CONFIGURED>/stdout.zst and stderr.zst - the
                    // directory `log show` looks up for that target
                    { use sha2::Digest; let mut h = sha2::Sha256::new(); h.update(t.path.as_bytes()); let dir = run_path.join(cmd).join(format!("{:x}", h.finalize()));
                      if t.logs.stdout_path != dir.join("stdout.zst") || t.logs.stderr_path != dir.join("stderr.zst") { bad += 1; println!("VF-FAIL {} :: target {:?} command {}: archives {:?} / {:?}, `log show` looks for them in {:?} (C08) (C12)", what, t.path, cmd, t.logs.stdout_path, t.logs.stderr_path, dir); } }
                    if t.command_args != exp_args { bad += 1; println!("VF-FAIL {} :: target {} command {}: arguments {:?}, the argmap holds {:?} (C11)", what, t.path, cmd, t.command_args, exp_args); }
                }
            }
        }
    }
    println!("VF-SUMMARY test=get_plan checked={} nontrivial={} bad={}", checked, checked - 3, bad);
}

#[tokio::test(flavor = "multi_thread", worker_threads = 2)]
async fn vf_spawn_task() {
    // C11: started as the resolved file, in the target's directory, with exactly the given arguments (verbatim), stdin closed
    use std::os::unix::fs::PermissionsExt;
    let td = crate::core::testing::new_testdir().unwrap();
    let wp = td.path();
    let script = wp.join("tools dir/show.sh");
    std::fs::create_dir_all(script.parent().unwrap()).unwrap();
    std::fs::create_dir_all(wp.join("pkg/t one")).unwrap();
    std::fs::write(&script, "#!/bin/sh\npwd\necho \"$#\"\nfor a in \"$@\"; do printf '<%s>\\n' \"$a\"; done\nif read line; then echo STDIN-OPEN; else echo STDIN-EOF; fi\n").unwrap();
    let mut perm = std::fs::metadata(&script).unwrap().permissions();
    perm.set_mode(0o755);
    std::fs::set_permissions(&script, perm).unwrap();
    let (mut checked, mut bad) = (0u64, 0u64);
    for args in [None, Some(vec![]), Some(vec!["--x".to_string()]), Some(vec!["a b".to_string(), "".to_string(), "$HOME".to_string(), "*".to_string(), "-- -v".to_string()])] {
        checked += 1;
        let cwd = wp.join("pkg/t one");
        let what = format!("spawn_task(cwd {:?}, args {:?})", "pkg/t one", args);
        let child = match spawn_task(&cwd, &script, &args) { Ok(c) => c, Err(e) => { bad += 1; println!("VF-FAIL {} :: spawn failed: {} (C11)", what, e); continue; } };
        let out = child.wait_with_output().await.unwrap();
        let text = String::from_utf8_lossy(&out.stdout).to_string();
        let given = args.clone().unwrap_or_default();
        let mut want = format!("{}\n{}\n", std::fs::canonicalize(&cwd).unwrap().display(), given.len());
        for a in &given { want.push_str(&format!("<{}>\n", a)); }
        want.push_str("STDIN-EOF\n");
        if text != want { bad += 1; println!("VF-FAIL {} :: the process reported {:?}, expected {:?} (working directory, argument count, arguments verbatim, stdin closed) (C11)", what, text, want); }
    }
    println!("VF-SUMMARY test=spawn_task checked={} nontrivial={} bad={}", checked, checked, bad);
}
