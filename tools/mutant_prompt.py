#!/usr/bin/env python3
"""Print the prompt handed to a fresh sub-agent that seeds a property-breaking change (only the property text + a scratch clone)."""
import json, sys
pid, workdir = sys.argv[1], sys.argv[2]
import os
stable = os.environ.get("STABLE_TESTS", os.path.join(os.path.dirname(workdir.rstrip("/")), "stable_tests.txt"))
variant = sys.argv[3] if len(sys.argv) > 3 else ""
if variant.startswith("@"):
    variant = json.load(open(variant[1:]))[pid]
p = {json.loads(l)['id']: json.loads(l) for l in open('/verif/properties.jsonl')}[pid]
print(f"""You are helping test a verification tool by seeding a realistic regression into a Rust project.

Project: pnordahl/monorail (a Rust CLI monorepo orchestrator: maps git changes to targets via tries, layers a target DAG with Kahn's algorithm, runs per-target commands in parallel groups). A scratch git clone of it is at {workdir} (already built once: `target/` is warm). Work ONLY inside {workdir}. Do not read or touch /verif or /repo. There is no network; cargo must be run with --offline.

Semantic property {pid} — "{p['title']}":
  Statement: {p['statement']}
  Quantified over: {p['quantifier']['text']}
  Code anchors: {json.dumps(p['anchors']['mechanism'])}

Your job: make ONE small, realistic source change under {workdir}/src (the kind of slip a maintainer could make in a refactor or 'optimisation'; no new dependencies, no changes to tests, no cfg tricks, no randomness) such that
  (a) the crate still compiles without new warnings-as-errors,
  (b) every test listed in {stable} still passes (run: `cd {workdir} && cargo test --workspace --no-fail-fast --offline 2>&1 | tail -40`; `core::server` tests may flake on a port clash when run in parallel, re-run them alone), and
  (c) the property above is now violated — but only for something specific: an unusual input or configuration shape, a particular interleaving or timing, a crash/fault at a particular point, a multi-step sequence of operations, or two cooperating code sites that each look fine alone. NOT something ordinary use or the existing tests would expose at once.
{variant}
Then write a demonstration: a new Rust test (preferably a `#[cfg(test)] mod` in a NEW file under {workdir}/src that you wire in with a single `#[cfg(test)] mod ...;` line, or a new file under {workdir}/tests/) that FAILS with your change and PASSES without it. Verify both directions yourself: run the demo with the change (fails), `git stash` only the src change (keep the demo) and run again (passes), then restore the change.

Deliverables, all inside {workdir}/deliverable/:
  - patch.diff : `git diff` of ONLY the property-breaking source change (not the demo), relative to the clone's HEAD, applying cleanly with `git apply`.
  - demo.diff  : `git diff`/new-file diff of ONLY the demonstration (test file + the one-line mod wiring if any), applying cleanly on top of HEAD independently of patch.diff.
  - notes.md   : which clause of the property breaks, what exactly is needed for it to manifest, the exact commands you ran and their outcomes (with change: demo fails; without: demo passes; stable tests pass with change).
Leave the working tree with both the change and the demo applied. Finish with a 5-line summary of the change and what it needs to manifest.""")
