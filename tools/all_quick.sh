#!/bin/sh
# tools/all_quick.sh : every claimed property's quick check against /repo (or $VERIF_REPO); one line each
cd /verif
for id in $(python3 -c "import json;print(' '.join(c['property_id'] for c in json.load(open('MANIFEST.json'))['checks']))"); do
  ./check $id quick > /tmp/q_$id.out 2>&1; echo "$id rc=$? $(head -1 /tmp/q_$id.out | cut -c1-160)"
done
