#!/usr/bin/env python3
"""tools/record_assumed_sha.py <unit>...: (re)record the fingerprints of the `//!assumed <file> <fn> sha=..` directives of units/<u>/unit.rs
from the current tree (run on the unchanged tree, after reading the function and confirming the hand-written contract still describes it)."""
import sys, re
sys.path.insert(0, '/verif/vfw')
import unit as U
for u in sys.argv[1:]:
    p = '/verif/units/%s/unit.rs' % u
    out, n = [], 0
    for ln in open(p, encoding='utf-8').read().split('\n'):
        m = re.match(r'^(\s*//!assumed\s+(\S+)\s+(\S+)\s+sha=)(\S+)\s*$', ln)
        if m:
            ln = m.group(1) + U.assumed_fingerprint(m.group(2), m.group(3)); n += 1
        out.append(ln)
    open(p, 'w', encoding='utf-8').write('\n'.join(out))
    print(u, 'recorded', n)
