#!/bin/sh
# tools/rlimit_margin.sh [rlimit]: verify every unit with a fraction of Verus' default resource limit (default 10; here 3 unless given):
# a function that only verifies close to the limit is an unstable proof and will one day fail for no semantic reason.
cd /verif; R=${1:-3}
for u in $(ls units); do
  [ -f units/$u/unit.rs ] || continue
  d=$(mktemp -d); ./check --emit $u $d >/dev/null 2>&1
  r=$(cd $d && verus $u.rs --rlimit $R 2>&1 | grep -E "verification results|rlimit" | tr '\n' ' ')
  echo "$u: $r"; rm -rf $d
done
