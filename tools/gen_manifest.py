#!/usr/bin/env python3
"""Generate MANIFEST.json from registry.json (single source of truth for what is claimed)."""
import json, os
V = os.path.dirname(os.path.dirname(os.path.abspath(__file__)))
reg = json.load(open(os.path.join(V, "registry.json")))
props = [json.loads(l) for l in open(os.path.join(V, "properties.jsonl"))]
checks, na = [], []
for p in props:
    pid = p["id"]
    r = reg["properties"].get(pid)
    if not r or r.get("not_applicable"):
        na.append({"property_id": pid, "reason": (r or {}).get("not_applicable") or reg["pending_reason"]})
        continue
    checks.append({
        "property_id": pid,
        "quick_cmd": "./check %s quick" % pid,
        "thorough_cmd": "./check %s thorough" % pid,
        "evidence_file": "/verif/evidence/%s.json" % pid,
        "replay_cmd_template": "./check --replay {path}",
        "engine": "vfw+verus",
        "level_claimed": {"category": "proof", "text": r["level_text"], "design_ref": r.get("design_ref", "DESIGN.md section 7, %s" % pid)},
        "level_note": r["level_note"],
        "technique": r["technique"],
    })
m = {
    "version": 1,
    "setup_cmd": "python3 -m py_compile vfw/*.py && verus --version",
    "hooks": {"guard": "none (no hooks: the verifier reads /repo/src directly; Kani harnesses and replay drivers live in scratch copies under cfg(kani)/cfg(test))",
              "enable": "not applicable: /repo is built unchanged",
              "baseline_off_cmd": "cd /repo && cargo test --workspace --no-fail-fast --offline",
              "source_commits": [], "add_only": True},
    "engines": [{"name": "vfw+verus", "path": "/verif/vfw", "serves_properties": [c["property_id"] for c in checks],
                 "kind_free_text": "contract-based deductive verification: real functions extracted from /repo/src on every run, rewritten by logged rules, contracts spliced by token alignment, discharged by Verus (Z3); replay finders run the real compiled code"}],
    "checks": checks,
    "not_applicable": na,
    "notes": reg.get("notes", ""),
}
json.dump(m, open(os.path.join(V, "MANIFEST.json"), "w"), indent=1)
print("claimed:", [c["property_id"] for c in checks]); print("not applicable:", [x["property_id"] for x in na])
