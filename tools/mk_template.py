#!/usr/bin/env python3
"""Bootstrap helper (not used by any check): turn a hand-annotated Verus function into a unit-template region by
diffing its tokens against the rewritten repository text and marking everything that is not repository text.

usage: mk_template.py <annotated.rs> <first_line> <last_line> <repo file> <Impl::name|name> [rules=R1,R3] [props=C03] [kind=fn|type]
Prints the region; conflicts (tokens of the repository text missing from the annotated text) are reported on stderr."""
import difflib
import os
import sys

sys.path.insert(0, os.path.join(os.path.dirname(os.path.abspath(__file__)), "..", "vfw"))
import rscan  # noqa: E402
import splice  # noqa: E402
import unit as U  # noqa: E402


def main():
    ann, a, z, file, path = sys.argv[1], int(sys.argv[2]), int(sys.argv[3]), sys.argv[4], sys.argv[5]
    opts = dict(kv.split("=", 1) for kv in sys.argv[6:])
    kind = opts.pop("kind", "fn")
    region = splice.Region(kind, file, path, opts, 0)
    real, log, info = U.extract(region, {"subst": json_subst(opts)})
    lines = open(ann, encoding="utf-8").read().split("\n")[a - 1:z]
    text = "\n".join(lines)
    pt = rscan.tokenize(text)
    rt = rscan.tokenize(real)
    # pre-pass: syntactically ghost statements are annotations whatever the diff says
    br = rscan.match_brackets(pt)
    pre = [False] * len(pt)
    i = 0
    while i < len(pt):
        t = pt[i]
        nxt = pt[i + 1].text if i + 1 < len(pt) else ""
        end = None
        if t.text == "proof" and nxt == "{":
            end = br[i + 1]
        elif t.text == "assert" and nxt == "(":
            end = br[i + 1]
            if end + 1 < len(pt) and pt[end + 1].text == "by" and pt[end + 2].text == "{":
                end = br[end + 2]
            if end + 1 < len(pt) and pt[end + 1].text == ";":
                end += 1
        elif t.text == "assert" and nxt == "forall":
            k = i
            while not (pt[k].text == "by" and pt[k + 1].text == "{"):
                k += 1
            end = br[k + 1]
            if end + 1 < len(pt) and pt[end + 1].text == ";":
                end += 1
        elif t.text == "let" and nxt == "ghost":
            k, d = i, 0
            while not (pt[k].text == ";" and d == 0):
                if pt[k].text in ("(", "[", "{"):
                    d += 1
                if pt[k].text in (")", "]", "}"):
                    d -= 1
                k += 1
            end = k
        if end is not None:
            for k in range(i, end + 1):
                pre[k] = True
            i = end + 1
        else:
            i += 1
    keep = [k for k in range(len(pt)) if not pre[k]]
    sm = difflib.SequenceMatcher(None, [pt[k].text for k in keep], [t.text for t in rt], autojunk=False)
    is_ann = [True] * len(pt)
    conflicts = []
    for tag, i1, i2, j1, j2 in sm.get_opcodes():
        if tag == "equal":
            for k in range(i1, i2):
                is_ann[keep[k]] = False
        elif tag in ("replace", "insert"):
            conflicts.append((" ".join(pt[keep[k]].text for k in range(i1, i2))[:100], " ".join(t.text for t in rt[j1:j2])[:100], rt[j1].line if j1 < len(rt) else -1))
    # canonicalise ambiguous alignments: rotate an annotation run over equal neighbouring tokens so that it is
    # bracket-balanced and does not start with a separator / closer
    N = len(pt)

    def good(i, j):
        depth, bad = 0, False
        for k in range(i, j + 1):
            if pt[k].text in ("(", "[", "{"):
                depth += 1
            elif pt[k].text in (")", "]", "}"):
                depth -= 1
                if depth < 0:
                    bad = True
        bal = (depth == 0 and not bad)
        return 4 * bal + (pt[i].text not in (";", ",", ")", "]", "}")) + (pt[j].text not in ("(", "[", "{"))

    for _round in range(2000):
        changed = False
        i = 0
        while i < N:
            if not is_ann[i]:
                i += 1
                continue
            j = i
            while j + 1 < N and is_ann[j + 1]:
                j += 1
            best, bestL = good(i, j), 0
            for L in range(1, 6):
                # rotate right by L: first L tokens of the run equal the L exec tokens after it
                if j + L < N and i + L <= j and all(not is_ann[j + 1 + d] and pt[i + d].text == pt[j + 1 + d].text for d in range(L)):
                    g = good(i + L, j + L)
                    if g > best:
                        best, bestL = g, L
                # rotate left by L
                if i - L >= 0 and j - L >= i and all(not is_ann[i - 1 - d] and pt[j - d].text == pt[i - 1 - d].text for d in range(L)):
                    g = good(i - L, j - L)
                    if g > best:
                        best, bestL = g, -L
            if bestL > 0:
                for d in range(bestL):
                    is_ann[i + d], is_ann[j + 1 + d] = False, True
                changed = True
                break
            if bestL < 0:
                for d in range(-bestL):
                    is_ann[j - d], is_ann[i - 1 - d] = False, True
                changed = True
                break
            i = j + 1
        if not changed:
            break
    # lint: unbalanced annotation runs
    i = 0
    while i < N:
        if is_ann[i]:
            j = i
            while j + 1 < N and is_ann[j + 1]:
                j += 1
            depth = 0
            bad = False
            for k in range(i, j + 1):
                if pt[k].text in ("(", "[", "{"):
                    depth += 1
                elif pt[k].text in (")", "]", "}"):
                    depth -= 1
                    if depth < 0:
                        bad = True
            if bad or depth != 0:
                print("UNBALANCED annotation run at annotated line %d: %s" % (pt[i].line + a - 1, " ".join(t.text for t in pt[i:j + 1])[:120]), file=sys.stderr)
            i = j + 1
        else:
            i += 1
    # per line marking
    starts = [0]
    for ln in lines:
        starts.append(starts[-1] + len(ln) + 1)
    out = []
    ti = 0
    for li, ln in enumerate(lines):
        lo, hi = starts[li], starts[li + 1] - 1
        tl = []
        while ti < len(pt) and pt[ti].pos < hi:
            tl.append(ti)
            ti += 1
        # tokens spanning lines (strings) are attributed to their first line
        if not tl:
            out.append(ln)
            continue
        if all(is_ann[k] for k in tl):
            ind = len(ln) - len(ln.lstrip())
            out.append(ln[:ind] + "@" + ln[ind:] if ind == 0 else ln[:ind - 1] + "@" + ln[ind:])
            continue
        if not any(is_ann[k] for k in tl):
            out.append(ln)
            continue
        # mixed: wrap annotation runs
        s = ""
        pos = lo
        k = 0
        while k < len(tl):
            t = pt[tl[k]]
            if is_ann[tl[k]]:
                k2 = k
                while k2 + 1 < len(tl) and is_ann[tl[k2 + 1]]:
                    k2 += 1
                s += text[pos:t.pos] + "⟦" + text[t.pos:pt[tl[k2]].end] + "⟧"
                pos = pt[tl[k2]].end
                k = k2 + 1
            else:
                s += text[pos:t.end]
                pos = t.end
                k += 1
        s += text[pos:hi]
        out.append(s)
    print("//!%s %s %s %s" % (kind, file, path, " ".join("%s=%s" % kv for kv in opts.items())))
    print("\n".join(out))
    print("//!end")
    for c in conflicts:
        print("CONFLICT annotated=`%s` real=`%s` (real line %d)" % c, file=sys.stderr)
    for l in log:
        print("rule", l, file=sys.stderr)


def json_subst(opts):
    return {}


if __name__ == "__main__":
    main()
