#!/bin/sh
# tools/benign_suite.sh : apply each harmless edit of seeded/benign to the scratch clone /tmp/mr-exp (a clone of /repo at HEAD; created
# when missing) and run the quick checks of the properties that depend on the touched function.  Requirement: never exit 1.
[ -d /tmp/mr-exp ] || git clone -q /repo /tmp/mr-exp
git -C /tmp/mr-exp checkout -q -- . ; git -C /tmp/mr-exp pull -q /repo main
bad=0
while read name ids; do
  [ -z "$name" ] && continue
  out=$(/verif/tools/try_patch.sh /verif/seeded/benign/$name.diff $ids 2>&1 | grep " rc=" | tr '\n' ' ')
  echo "$name: $out"
  case "$out" in *rc=1*) bad=1;; esac
done < /verif/seeded/benign/MAP
git -C /verif checkout -q evidence/ 2>/dev/null
[ $bad = 0 ] && echo "benign suite: no alarm" || echo "benign suite: FALSE ALARM"
exit $bad
