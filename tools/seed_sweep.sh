#!/bin/sh
# tools/seed_sweep.sh [rlimit] [seeds...]: verify every unit under several SMT random seeds at a reduced resource limit
# (default rlimit 5, seeds 1 7 42).  A unit that fails under some seed is an unstable proof (a future false alarm), not a violation.
cd /verif; R=${1:-5}; [ $# -gt 0 ] && shift; SEEDS=${*:-"1 7 42"}
for u in $(ls units); do
  [ -f units/$u/unit.rs ] || continue
  (
    d=$(mktemp -d /dev/shm/seedXXXXXX); ./check --emit $u $d >/dev/null 2>&1; out=""
    for s in $SEEDS; do
      r=$(cd $d && verus $u.rs --rlimit $R --smt-option random_seed=$s 2>&1 | grep -E "verification results" | sed 's/verification results:: //')
      out="$out | seed $s: $r"
    done
    echo "$u$out"; rm -rf $d
  ) &
done
wait
