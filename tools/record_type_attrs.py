#!/usr/bin/env python3
"""tools/record_type_attrs.py: (re)record prelude/type_attrs.json - the serde attributes / derives of every repository type that a unit
extracts (`//!type`) or whose serde round trip it assumes (`//!serde`) - from the current tree (run on the unchanged tree)."""
import sys, os, json, tempfile, shutil
sys.path.insert(0, '/verif/vfw')
import unit as U
p = '/verif/prelude/type_attrs.json'
base = json.load(open(p)) if os.path.exists(p) else {}
os.rename(p, p + '.bak') if os.path.exists(p) else None
try:
    for u in sorted(os.listdir('/verif/units')):
        if not os.path.exists('/verif/units/%s/unit.rs' % u):
            continue
        d = tempfile.mkdtemp()
        try:
            b = U.build_unit(u, d)
            for f in b.functions:
                if f.get('kind') == 'type' and 'attrs' in f:
                    base[f['file'] + '::' + f['item']] = f['attrs']
        except Exception as ex:
            print('unit', u, 'not built:', str(ex)[:200])
        shutil.rmtree(d, ignore_errors=True)
    base.update(U.SEEN_SERDE)
finally:
    json.dump(base, open(p, 'w'), indent=1, sort_keys=True)
    if os.path.exists(p + '.bak'):
        os.remove(p + '.bak')
print('recorded', len(base), 'types')
