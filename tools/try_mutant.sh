#!/bin/sh
# tools/try_mutant.sh <patch.diff> <ID> [<ID>...] : apply a seeded change to /repo, run the quick checks, undo it.
p=$1; shift
git -C /repo apply "$p" || { echo "patch does not apply"; exit 3; }
for id in "$@"; do /verif/check $id quick > /tmp/try_$id.out 2>&1; echo "$id rc=$?"; grep -E "^(VIOLATION|UNDECIDED|failed obligation|KNOWN)" /tmp/try_$id.out | cut -c1-260; done
git -C /repo checkout -- .
