#!/usr/bin/env python3
"""tools/record_range_sha.py <unit>...: record, in units/<u>/unit.json, the fingerprint of every text range that an R12 range substitution
replaces by an assumed call (run on the unchanged tree after changing such a substitution)."""
import sys, json, tempfile, shutil
sys.path.insert(0, '/verif/vfw')
import rules, unit as U
for u in sys.argv[1:]:
    jp = '/verif/units/%s/unit.json' % u
    j = json.load(open(jp))
    # drop recorded values so that the build cannot fail on them, then rebuild and read what was seen
    for lst in j.get('subst', {}).values():
        for p in lst:
            p.pop('sha256', None)
    json.dump(j, open(jp, 'w'), indent=1)
    rules.SEEN_RANGE_SHA.clear()
    d = tempfile.mkdtemp()
    U.build_unit(u, d)
    shutil.rmtree(d, ignore_errors=True)
    n = 0
    for lst in j.get('subst', {}).values():
        for p in lst:
            if 'from' in p and p['from'] in rules.SEEN_RANGE_SHA:
                p['sha256'] = rules.SEEN_RANGE_SHA[p['from']]; n += 1
    json.dump(j, open(jp, 'w'), indent=1)
    print(u, 'recorded', n)
