#!/bin/sh
# tools/process_mutant.sh <ID> <letter> [<scratch root>]: run the quick check of <ID> against the deliverable of a finished seeding agent
# (on the scratch clone /tmp/mr-exp, never /repo), then confirm it (tools/confirm_mutant.sh) and file it as seeded/<ID>-<letter>.
id=$1; l=$2; root=${3:-/tmp/mut6}
d=$root/$id/deliverable
[ -f $d/patch.diff ] || { echo "$id: no deliverable"; exit 2; }
/verif/tools/try_patch.sh $d/patch.diff $id 2>&1 | cut -c1-300
git -C /verif checkout -q evidence/ 2>/dev/null
BASE=/tmp/mr-base2 /verif/tools/confirm_mutant.sh $id $d $id-$l > /tmp/confirm_$id-$l.log 2>&1
tail -1 /tmp/confirm_$id-$l.log | cut -c1-400
