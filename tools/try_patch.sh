#!/bin/sh
# tools/try_patch.sh <patch> <ID>... : like try_mutant.sh but on the scratch clone /tmp/mr-exp (VERIF_REPO), leaving /repo alone
p=$1; shift
git -C /tmp/mr-exp checkout -q -- . ; git -C /tmp/mr-exp apply "$p" || { echo "patch does not apply"; exit 3; }
for id in "$@"; do VERIF_REPO=/tmp/mr-exp /verif/check $id quick > /tmp/tryp_$id.out 2>&1; echo "$id rc=$?"; grep -E "^(VIOLATION|UNDECIDED|failed obligation|KNOWN)" /tmp/tryp_$id.out | cut -c1-260; done
git -C /tmp/mr-exp checkout -q -- .
