#!/bin/sh
# tools/all_thorough.sh : every claimed property's thorough check against /repo; one line each
cd /verif
for id in $(python3 -c "import json;print(' '.join(c['property_id'] for c in json.load(open('MANIFEST.json'))['checks']))"); do
  /usr/bin/time -f "%es" ./check $id thorough > /tmp/t_$id.out 2>&1; echo "$id rc=$? $(grep -m1 '^property' /tmp/t_$id.out | cut -c1-170) $(tail -1 /tmp/t_$id.out)"
done
