#!/bin/sh
# tools/regress_mutants.sh [name...] : run every seeded change (or the named ones) against the quick check of its property; one line each.
cd /verif
names="$@"; [ -z "$names" ] && names=$(ls seeded | grep -v '^own$')
for n in $names; do
  id=$(echo $n | cut -d- -f1)
  [ -f seeded/$n/patch.diff ] || continue
  git -C /repo apply /verif/seeded/$n/patch.diff || { echo "$n patch does not apply"; continue; }
  ./check $id quick > /tmp/regress_$n.out 2>&1; rc=$?
  git -C /repo checkout -- .
  how=$(grep -m1 "^failed obligation" /tmp/regress_$n.out | cut -c1-150)
  echo "$n rc=$rc $how"
done
