#!/bin/bash
# tools/confirm_mutant.sh <ID> <src deliverable dir> <name>: confirm a seeded change in a scratch clone of the repaired tree and file it under /verif/seeded/<name>/
# confirms: patch applies, crate builds, the 67 stable tests pass with the patch, the demo fails with the patch and passes without it.
set -u
ID=$1; SRC=$2; NAME=$3
BASE=${BASE:-/tmp/mr-base2}
W=$(mktemp -d /tmp/confirm-XXXX)
git clone -q $BASE $W/r && cp -r $BASE/target $W/r/target 2>/dev/null
cd $W/r
out=/verif/seeded/$NAME; mkdir -p $out
cp $SRC/patch.diff $out/patch.diff; cp $SRC/demo.diff $out/demo.diff; cp $SRC/notes.md $out/notes.md 2>/dev/null
git apply $out/demo.diff || { echo "demo does not apply"; exit 1; }
itest=$(grep -h '^+++ b/tests/.*\.rs' $out/demo.diff | sed 's|+++ b/tests/||; s|\.rs$||' | head -1)
if [ -n "$itest" ]; then
  demo_filter="--test $itest"; runargs="--offline --test $itest"
else
  demo_mod=$(grep -h '^+++ b/src/.*\.rs' $out/demo.diff | sed 's|+++ b/src/||; s|\.rs$||; s|/|::|g' | grep -v 'mod$' | head -1)
  demo_filter=$(echo $demo_mod | sed 's/.*:://'); runargs="--offline --lib $demo_filter"
fi
cargo test $runargs > $W/demo_without.txt 2>&1; rc_without=$?
git apply $out/patch.diff || { echo "patch does not apply"; exit 1; }
cargo test $runargs > $W/demo_with.txt 2>&1; rc_with=$?
cargo test --workspace --no-fail-fast --offline > $W/all_with.txt 2>&1
python3 - "$W" "$ID" "$NAME" "$rc_without" "$rc_with" "$demo_filter" <<'PY'
import sys,re,json
W,ID,NAME,rcwo,rcw,flt=sys.argv[1:]
stable=[l.strip().replace('monorail::','',1) for l in open('/verif/tools/stable_tests.txt') if l.strip()]
txt=open(W+'/all_with.txt').read()
res=dict(re.findall(r'^test (\S+) \.\.\. (\w+)',txt,re.M))
bad=[t for t in stable if res.get(t)!='ok']
# server tests may clash on a port when run in-process in parallel
flaky=[t for t in bad if t.startswith('core::server::')]
bad=[t for t in bad if t not in flaky]
meta={"property":ID,"name":NAME,"demo_filter":flt,"demo_passes_without_patch":rcwo=='0',"demo_fails_with_patch":rcw!='0',
 "stable_tests_failing_with_patch":bad,"stable_tests_port_clash_rerun_needed":flaky,
 "ran":["git apply demo.diff; cargo test --offline (--lib|--test) "+flt+" (expect pass)","git apply patch.diff; same command (expect fail)","cargo test --workspace --no-fail-fast --offline (67 stable tests must pass)"],
 "base":"clone of /repo with the fix: commits applied"}
json.dump(meta,open('/verif/seeded/%s/meta.json'%NAME,'w'),indent=1)
print(json.dumps(meta))
PY
cd /; rm -rf $W
