// ---- prelude/std_gaps.rs: ASSUMED contracts for std items that vstd does not specify (DESIGN.md section 4) ----
pub assume_specification<T, A: std::alloc::Allocator> [std::collections::VecDeque::<T, A>::is_empty] (v: &std::collections::VecDeque<T, A>) -> (r: bool)
    ensures r == (v@.len() == 0);

pub assume_specification<T: Clone> [<T as std::borrow::ToOwned>::to_owned] (s: &T) -> (r: T)
    ensures r == *s;

pub assume_specification<'a, T: Copy> [std::option::Option::<&T>::copied] (o: std::option::Option<&'a T>) -> (r: std::option::Option<T>)
    ensures o matches Some(x) ==> r == Some(*x), o is None ==> r is None;

#[verifier::external_type_specification]
#[verifier::external_body]
pub struct ExIoError(std::io::Error);

pub assume_specification<T> [::core::mem::drop::<T>] (x: T);

// vstd specifies ToString::to_string through `to_string_from_display_ensures` and gives its meaning for `str` only;
// for String the result is the string itself (ASSUMED)
pub broadcast axiom fn axiom_to_string_string(s: &String, r: String)
    ensures #[trigger] vstd::string::to_string_from_display_ensures::<String>(s, r) ==> r@ == s@;
pub broadcast axiom fn axiom_to_string_refref(s: &&&String, r: String)
    ensures #[trigger] vstd::string::to_string_from_display_ensures::<&&String>(s, r) ==> r@ == (***s)@;
pub broadcast axiom fn axiom_to_string_ref(s: &&String, r: String)
    ensures #[trigger] vstd::string::to_string_from_display_ensures::<&String>(s, r) ==> r@ == (**s)@;
pub broadcast group group_shown { axiom_to_string_string }

pub assume_specification<T, E> [std::result::Result::<T, E>::unwrap_or] (r: std::result::Result<T, E>, default: T) -> (v: T)
    ensures r matches Ok(x) ==> v == x, r is Err ==> v == default;

// slice::to_vec: an element-wise clone; for element types whose clone is the value itself (String, integers) the views agree (ASSUMED)
pub assume_specification<T: Clone> [<[T]>::to_vec] (s: &[T]) -> (r: Vec<T>)
    ensures r@ == s@;

pub assume_specification<T, F: FnOnce() -> Option<T>> [Option::<T>::or_else] (o: Option<T>, f: F) -> (r: Option<T>)
    requires o is None ==> f.requires(()),
    ensures o is Some ==> r == o, o is None ==> f.ensures((), r);
