// ---- prelude/keymap.rs: ASSUMED view-level semantics of hash maps / sets whose keys are strings ----
// vstd has no key model for String / &str.  `HashMap` here shadows std's in the unit file: same method names,
// a ghost `Map` from the key's *view* (Seq<char> for String / str, the value itself for usize) to the values.
pub trait KeyV { type KV; spec fn kv(&self) -> Self::KV; }
impl KeyV for String { type KV = Seq<char>; open spec fn kv(&self) -> Seq<char> { self@ } }
impl KeyV for str { type KV = Seq<char>; open spec fn kv(&self) -> Seq<char> { self@ } }
impl KeyV for usize { type KV = usize; open spec fn kv(&self) -> usize { *self } }
impl<'a, T: KeyV + ?Sized> KeyV for &'a T { type KV = T::KV; open spec fn kv(&self) -> T::KV { (**self).kv() } }

// the struct is opaque (external_body) and covariant in K like std's; its abstract value is the uninterpreted `view`
#[verifier::external_body]
#[verifier::reject_recursive_types(K)]
#[verifier::reject_recursive_types(V)]
pub struct HashMap<K, V> { pub _k: ::std::marker::PhantomData<(K, V)> }
impl<K: KeyV, V> HashMap<K, V> {
    pub uninterp spec fn view(&self) -> Map<K::KV, V>;
    #[verifier::external_body] pub fn new() -> (r: Self) ensures r@ == Map::<K::KV, V>::empty() { unimplemented!() }
    #[verifier::external_body] pub fn with_capacity(n: usize) -> (r: Self) ensures r@ == Map::<K::KV, V>::empty() { unimplemented!() }
    #[verifier::external_body] pub fn insert(&mut self, k: K, v: V) -> (o: Option<V>) ensures final(self)@ == old(self)@.insert(k.kv(), v) { unimplemented!() }
    #[verifier::external_body] pub fn get<Q: KeyV<KV = K::KV> + ?Sized>(&self, k: &Q) -> (r: Option<&V>)
        ensures match r { Some(v) => self@.dom().contains(k.kv()) && *v == self@[k.kv()], None => !self@.dom().contains(k.kv()) } { unimplemented!() }
    #[verifier::external_body] pub fn contains_key<Q: KeyV<KV = K::KV> + ?Sized>(&self, k: &Q) -> (r: bool) ensures r == self@.dom().contains(k.kv()) { unimplemented!() }
    #[verifier::external_body] pub fn is_empty(&self) -> (r: bool) ensures r == (self@.dom() =~= Set::<K::KV>::empty()) { unimplemented!() }
    // R12 target for `for (k, v) in map` (by value): every entry exactly once, in an unspecified order
    #[verifier::external_body] pub fn into_vec(self) -> (r: Vec<(K, V)>)
        ensures
            forall|i: int| 0 <= i < r@.len() ==> self@.dom().contains((#[trigger] r@[i]).0.kv()) && self@[r@[i].0.kv()] == r@[i].1,
            forall|k: K::KV| self@.dom().contains(k) ==> exists|i: int| 0 <= i < r@.len() && (#[trigger] r@[i]).0.kv() == k,
            forall|i: int, j: int| 0 <= i < j < r@.len() ==> (#[trigger] r@[i]).0.kv() != (#[trigger] r@[j]).0.kv(),
    { unimplemented!() }
}
// the value `Default::default()` of the value types used with the entry API
pub trait DefaultV { spec fn is_default(&self) -> bool; }
impl<T> DefaultV for Vec<T> { open spec fn is_default(&self) -> bool { self@.len() == 0 } }
impl<K: KeyV, V> DefaultV for HashMap<K, V> { open spec fn is_default(&self) -> bool { self@ == Map::<K::KV, V>::empty() } }
impl<K: KeyV, V: DefaultV> HashMap<K, V> {
    // R12 target for `map.entry(k).or_default()`: a mutable reference to the entry's value (a default value is inserted first when the
    // key was absent); when the borrow ends the map holds whatever the value became, all other entries untouched
    #[verifier::external_body] pub fn entry_or_default(&mut self, k: K) -> (r: &mut V)
        ensures old(self)@.dom().contains(k.kv()) ==> *r == old(self)@[k.kv()], !old(self)@.dom().contains(k.kv()) ==> r.is_default(),
            final(self)@ == old(self)@.insert(k.kv(), *final(r)) { unimplemented!() }
}

#[verifier::external_body]
#[verifier::reject_recursive_types(K)]
pub struct HashSet<K> { pub _k: ::std::marker::PhantomData<K> }
impl<K: KeyV> HashSet<K> {
    pub uninterp spec fn view(&self) -> Set<K::KV>;
    #[verifier::external_body] pub fn new() -> (r: Self) ensures r@ == Set::<K::KV>::empty() { unimplemented!() }
    #[verifier::external_body] pub fn insert(&mut self, k: K) -> (b: bool) ensures final(self)@ == old(self)@.insert(k.kv()), b == !old(self)@.contains(k.kv()) { unimplemented!() }
    #[verifier::external_body] pub fn contains<Q: KeyV<KV = K::KV> + ?Sized>(&self, k: &Q) -> (r: bool) ensures r == self@.contains(k.kv()) { unimplemented!() }
    #[verifier::external_body] pub fn remove<Q: KeyV<KV = K::KV> + ?Sized>(&mut self, k: &Q) -> (b: bool) ensures final(self)@ == old(self)@.remove(k.kv()), b == old(self)@.contains(k.kv()) { unimplemented!() }
    #[verifier::external_body] pub fn is_empty(&self) -> (r: bool) ensures r == (self@ =~= Set::<K::KV>::empty()) { unimplemented!() }
    #[verifier::external_body] pub fn len(&self) -> (r: usize) ensures self@.finite() ==> r == self@.len(), (r == 0) == (self@ =~= Set::<K::KV>::empty()) { unimplemented!() }
    // R12 target for `for x in set`: every element exactly once, in an unspecified order
    #[verifier::external_body] pub fn to_vec(&self) -> (r: Vec<&K>)
        ensures
            forall|i: int| 0 <= i < r@.len() ==> self@.contains(#[trigger] r@[i].kv()),
            forall|k: K::KV| self@.contains(k) ==> exists|i: int| 0 <= i < r@.len() && #[trigger] r@[i].kv() == k,
            forall|i: int, j: int| 0 <= i < j < r@.len() ==> (#[trigger] r@[i]).kv() != (#[trigger] r@[j]).kv(),
    { unimplemented!() }
}
// R12 target for `map.entry(k).or_default().push(v)` on a map from strings to lists of strings
impl<'a> HashMap<&'a str, Vec<&'a str>> {
    #[verifier::external_body] pub fn entry_or_default_push(&mut self, k: &'a str, v: &'a str)
        ensures
            final(self)@.dom() == old(self)@.dom().insert(k@),
            final(self)@[k@]@ == (if old(self)@.dom().contains(k@) { old(self)@[k@]@ } else { Seq::<&'a str>::empty() }).push(v),
            forall|q: Seq<char>| q != k@ && old(self)@.dom().contains(q) ==> final(self)@[q] == old(self)@[q],
    { unimplemented!() }
}
