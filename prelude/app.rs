// ==== prelude/app.rs: the shared ASSUMED world of the application-level units ====
// Every `external_body` item and every `uninterp spec fn` below is an assumed contract on something outside the
// verified text (std / tokio / serde_json / sha2 / trie-rs / the OS).  Type definitions inside `//!type` regions are
// extracted from /repo on every run (R9: attributes dropped).  Nothing here mentions repository *code*.
use std::{io, num, str};

#[verifier::external_type_specification] #[verifier::external_body] pub struct ExUtf8Error(std::str::Utf8Error);
#[verifier::external_type_specification] #[verifier::external_body] pub struct ExParseIntError(std::num::ParseIntError);

// R16 replaces every `format!(..)` by this call: an arbitrary string (formatting has no other effect)
#[verifier::external_body] pub fn fmt_opaque() -> (r: String) { unimplemented!() }

pub mod serde_json {
    use vstd::prelude::*;
    use super::*;
    pub mod error { pub struct Error { pub x: u8 } }
    pub use error::Error;
    // serialising a plain record cannot fail (ASSUMED); the bytes are a function of the value
    #[verifier::external_body] pub fn from_str<T>(s: &str) -> (r: Result<T, Error>)
        ensures r matches Ok(v) ==> json_parse::<T>(str_bytes(s@)) == Some(v), r is Err ==> json_parse::<T>(str_bytes(s@)) is None { unimplemented!() }
    // from_reader on a freshly opened file: decodes the whole content
    #[verifier::external_body] pub fn from_reader<T>(f: fs::File, Tracked(w): Tracked<&mut World>) -> (r: Result<T, Error>)
        ensures *final(w) == *old(w), r matches Ok(v) ==> json_parse::<T>(old(w).fs[f.p]) == Some(v), r is Err ==> json_parse::<T>(old(w).fs[f.p]) is None { unimplemented!() }
    #[verifier::external_body] pub fn to_vec<T>(v: &T) -> (r: Result<Vec<u8>, Error>) ensures r matches Ok(b) && b@ == json_enc(*v) { unimplemented!() }
    // from_slice: the value the bytes denote
    #[verifier::external_body] pub fn from_slice<T>(b: &[u8]) -> (r: Result<T, Error>)
        ensures r matches Ok(v) ==> json_parse::<T>(b@) == Some(v), r is Err ==> json_parse::<T>(b@) is None { unimplemented!() }
}
pub mod server {
    use vstd::prelude::*;
    use super::*;
    pub struct ServerError { pub x: u8 }
//!type src/core/server.rs LogFilterInput
pub struct LogFilterInput {
    pub commands: HashSet<String>,
    pub targets: HashSet<String>,
    pub include_stdout: bool,
    pub include_stderr: bool,
}
//!end
//!type src/core/server.rs LogServerConfig
pub struct LogServerConfig {
    pub host: String,
    pub port: usize,
    pub bind_timeout_ms: u64,
}
//!end
//!type src/core/server.rs LockServerConfig
pub struct LockServerConfig {
    pub host: String,
    pub port: usize,
    pub bind_timeout_ms: u64,
}
//!end
}
pub mod graph_err {
    use vstd::prelude::*;
//!type src/core/graph.rs GraphError
pub enum GraphError {
    DotFileIo(std::io::Error),
    LabelNotFound(usize),
    Cycle(usize, String),
    Connected,
    DuplicateLabel(String),
    LabelNodeNotFound(String),
}
//!end
}

//!type src/core/error.rs MonorailError
pub enum MonorailError {
    Generic(String),
    Git(String),
    Io(io::Error),
    PathDNE(String),
    SerdeJSON(serde_json::error::Error),
    Utf8(str::Utf8Error),
    ParseInt(num::ParseIntError),
    Graph(graph::GraphError),
    Join(tokio::task::JoinError),
    TrackingCheckpointNotFound(io::Error),
    TrackingRunNotFound(io::Error),
    MissingArg(String),
    TaskCancelled,
    ChannelSend(String),
    ChannelRecv(String),
    Server(server::ServerError),
}
//!end
#[verifier::external] impl std::fmt::Debug for MonorailError { fn fmt(&self, f: &mut std::fmt::Formatter<'_>) -> std::fmt::Result { Ok(()) } }
// conversions used by `?` — mirror core/error.rs (ASSUMED: not extracted)
impl From<graph_err::GraphError> for MonorailError { #[verifier::external_body] fn from(error: graph_err::GraphError) -> (r: Self) ensures r is Graph { MonorailError::Graph(error) } }
impl From<String> for MonorailError { #[verifier::external_body] fn from(error: String) -> (r: Self) ensures r is Generic { MonorailError::Generic(error) } }
impl From<&str> for MonorailError { #[verifier::external_body] fn from(error: &str) -> (r: Self) ensures r is Generic, generic_text(r) == error@ { unimplemented!() } }
pub uninterp spec fn generic_text(e: MonorailError) -> Seq<char>;
impl From<std::io::Error> for MonorailError { #[verifier::external_body] fn from(error: std::io::Error) -> (r: Self) ensures r is Io { MonorailError::Io(error) } }
impl From<serde_json::error::Error> for MonorailError { #[verifier::external_body] fn from(error: serde_json::error::Error) -> (r: Self) ensures r is SerdeJSON { MonorailError::SerdeJSON(error) } }

// ---------------- paths: a path is its string ----------------
pub uninterp spec fn path_join(a: Seq<char>, b: Seq<char>) -> Seq<char>;
pub trait PathLike { spec fn pview(&self) -> Seq<char>; }
pub trait BytesLike { spec fn bytes(&self) -> Seq<u8>; }
impl BytesLike for Vec<u8> { open spec fn bytes(&self) -> Seq<u8> { self@ } }
impl BytesLike for [u8] { open spec fn bytes(&self) -> Seq<u8> { self@ } }
impl BytesLike for String { open spec fn bytes(&self) -> Seq<u8> { str_bytes(self@) } }
impl<'a, T: BytesLike + ?Sized> BytesLike for &'a T { open spec fn bytes(&self) -> Seq<u8> { (**self).bytes() } }
// the UTF-8 encoding of a string (uninterpreted)
pub uninterp spec fn str_bytes(s: Seq<char>) -> Seq<u8>;
// String::as_bytes: the UTF-8 bytes of the string (a function of its text)
pub assume_specification [String::as_bytes] (s: &String) -> (r: &[u8])
    ensures r@ == str_bytes(s@);
impl PathLike for String { open spec fn pview(&self) -> Seq<char> { self@ } }
impl PathLike for str { open spec fn pview(&self) -> Seq<char> { self@ } }
impl<'a, T: PathLike + ?Sized> PathLike for &'a T { open spec fn pview(&self) -> Seq<char> { (**self).pview() } }
pub mod path {
    use vstd::prelude::*;
    use super::*;
    pub struct Path { pub s: String }
    pub struct PathBuf { pub s: String }
    impl View for Path { type V = Seq<char>; open spec fn view(&self) -> Seq<char> { self.s@ } }
    impl View for PathBuf { type V = Seq<char>; open spec fn view(&self) -> Seq<char> { self.s@ } }
    impl PathLike for Path { open spec fn pview(&self) -> Seq<char> { self@ } }
    impl PathLike for PathBuf { open spec fn pview(&self) -> Seq<char> { self@ } }
    impl Path {
        #[verifier::external_body] pub fn new<'a, S: PathLike + ?Sized>(s: &'a S) -> (r: &'a Path) ensures r@ == s.pview() { unimplemented!() }
        #[verifier::external_body] pub fn display(&self) -> (r: String) { unimplemented!() }
        #[verifier::external_body] pub fn join<S: PathLike>(&self, rel: S) -> (r: PathBuf) ensures r@ == path_join(self@, rel.pview()) { unimplemented!() }
        #[verifier::external_body] pub fn to_path_buf(&self) -> (r: PathBuf) ensures r@ == self@ { unimplemented!() }
    }
    impl Clone for PathBuf { #[verifier::external_body] fn clone(&self) -> (r: PathBuf) ensures r@ == self@ { unimplemented!() } }
    // a path used as a map key is keyed by its text
    impl KeyV for PathBuf { type KV = Seq<char>; open spec fn kv(&self) -> Seq<char> { self@ } }
    impl KeyV for Path { type KV = Seq<char>; open spec fn kv(&self) -> Seq<char> { self@ } }
    impl std::ops::Deref for PathBuf { type Target = Path;
        #[verifier::external_body] fn deref(&self) -> (r: &Path) ensures r@ == self@ { unimplemented!() } }
}

// ---------------- configuration data types (extracted) ----------------
//!type src/core/mod.rs ChangeProviderKind
pub enum ChangeProviderKind {
    Git,
}
//!end
//!type src/core/mod.rs ChangeProvider
pub struct ChangeProvider {
    pub r#use: ChangeProviderKind,
}
//!end
//!type src/core/mod.rs AlgorithmKind
pub enum AlgorithmKind {
    Sha256,
}
//!end
//!type src/core/mod.rs ConfigSource
pub struct ConfigSource {
    pub path: String,
    pub algorithm: Option<AlgorithmKind>,
    pub checksum: Option<String>,
}
//!end
//!type src/core/mod.rs ServerConfig
pub struct ServerConfig {
    pub log: server::LogServerConfig,
    pub lock: server::LockServerConfig,
}
//!end
//!type src/core/mod.rs FileDefinition
pub struct FileDefinition {
    pub path: String,
}
//!end
//!type src/core/mod.rs TargetCommands
pub struct TargetCommands {
    pub path: Option<String>,
    pub definitions: Option<HashMap<String, FileDefinition>>,
}
//!end
//!type src/core/mod.rs TargetArgMaps
pub struct TargetArgMaps {
    pub path: Option<String>,
    pub definitions: Option<HashMap<String, FileDefinition>>,
}
//!end
//!type src/core/mod.rs Target
pub struct Target {
    pub path: String,
    pub uses: Option<Vec<String>>,
    pub ignores: Option<Vec<String>>,
    pub commands: TargetCommands,
    pub argmaps: TargetArgMaps,
}
//!end
//!type src/core/mod.rs Config
pub struct Config {
    pub source: Option<ConfigSource>,
    pub out_dir: String,
    pub max_retained_runs: usize,
    pub change_provider: ChangeProvider,
    pub targets: Vec<Target>,
    pub sequences: Option<HashMap<String, Vec<String>>>,
    pub server: ServerConfig,
    pub checksum: String,
}
//!end
//!type src/core/mod.rs ConfigLockfile
pub struct ConfigLockfile {
    pub checksum: String,
}
//!end

// ---------------- the ghost world threaded by R10 ----------------
pub enum Ev {
    Start { c: int, g: int, t: int },
    Exit { c: int, g: int, t: int },
}
pub struct World {
    // log plumbing
    pub ghost sink: Map<(int, int), Seq<u8>>,   // bytes handed to the encoder (channel, encoder_index) of a compressor
    pub ghost cc_errs: nat,                      // number of compressor-channel sends that have failed so far
    pub ghost tail: Seq<u8>,                     // bytes written to the `log tail` connection
    pub ghost tail_locks: nat,                   // number of acquisitions of the connection mutex
    // processes (unit runexec)
    pub ghost trace: Seq<Ev>,
    pub ghost cur_c: int, pub ghost cur_g: int,
    pub ghost grp_begin: int, pub ghost sched_end: int,
    pub ghost fail_point: int,
    pub ghost bad_joins: nat,                    // joined tasks whose outcome is a failure (non-zero exit, task error)
    // file system as seen by `run` (unit tracking): path -> content; every effect is a crash point
    pub ghost fs: Map<Seq<char>, Seq<u8>>,
    pub ghost ptr: Seq<char>,          // path of <out>/tracking/run.json
    pub ghost last: Option<Seq<u8>>,   // its content when the current operation began (None: absent)
    pub ghost ptr_new: Seq<u8>,        // the complete new content the current operation is allowed to commit
    pub ghost io_faults: nat,          // environmental I/O failures so far
    // orchestration of one `run` (unit runhandle)
    pub ghost recorded_id: int,                  // the id in <out>/tracking/run.json (0: no pointer yet)
    pub ghost wiped: Set<int>,                   // slots whose directory has been removed and recreated by this run
    pub ghost result_stored: Set<int>,           // slots holding a complete result file written by this run
    pub ghost executed: bool,                    // the plan has been executed
    pub ghost ran_groups: Seq<Seq<Seq<char>>>,   // target paths, group by group, of the plan that was executed
    pub ghost argmap_log: Seq<(Seq<char>, Seq<char>)>,  // (target, argmap file) merge attempts, in order
    pub ghost pointer_saved: Seq<int>,           // ids written to the run pointer, in order
    // the checkpoint store (unit checkpoint): None = no checkpoint file
    pub ghost cp_file: Option<(Seq<char>, Option<Map<Seq<char>, String>>)>,
    // lock (unit cli)
    pub ghost stdout_bytes: Seq<u8>,             // bytes written to the process's standard output
    pub ghost lock_held: bool,
    pub ghost midline: bool,                     // C20: some flush handed the listener a block that does not end at a line boundary
    pub ghost archives: Map<Seq<char>, Seq<u8>>,   // path of a finished zstd archive -> the bytes it decodes to
    pub ghost checked: bool,                     // C17: the configuration in use has passed Config::check
    pub ghost acted: bool,                       // C17: an API other than `config generate` has run
    pub ghost out_deleted: Set<Seq<char>>,       // C19: the directories `out delete` was pointed at (as given to the OS)
    pub ghost pointer_reads: nat,                // how often the run pointer file was read
    pub ghost shown: Seq<Seq<char>>,             // `log show`: the archives streamed to stdout, in order
    pub ghost graph_checked: bool,               // C09: the configuration's dependency graph has been built and found acyclic (Index::new returned Ok)
    pub ghost effects: nat,
    pub ghost bind_attempts: nat,                // attempts to bind the lock address
    pub ghost addr_in_use: bool,                 // another process holds the lock address right now                      // number of mutating application entry points entered
}
pub open spec fn flat(b: Seq<Vec<u8>>) -> Seq<u8> decreases b.len() { if b.len() == 0 { Seq::empty() } else { flat(b.drop_last()) + b.last()@ } }
// C08: byte conservation in process_reader - what the encoder got (beyond s0) ++ what waits for the next flush ++ the line buffer is
// exactly what was consumed from the stream, and consumed ++ rest is the stream.  Opaque: used through the lemmas below only.
#[verifier::opaque] pub open spec fn conserved(sink: Seq<u8>, pending: Seq<u8>, buf: Seq<u8>, s0: Seq<u8>, consumed: Seq<u8>, rest: Seq<u8>, stream: Seq<u8>) -> bool {
    sink + pending + buf =~= s0 + consumed && consumed + rest =~= stream
}
pub proof fn lemma_flat_empty(b: Seq<Vec<u8>>) requires b.len() == 0 ensures flat(b) == Seq::<u8>::empty() { }
pub proof fn lemma_cons_init(s0: Seq<u8>, stream: Seq<u8>) ensures conserved(s0, Seq::<u8>::empty(), Seq::<u8>::empty(), s0, Seq::<u8>::empty(), stream, stream) { reveal(conserved); }
// a read (completed or dropped) moved a chunk from the rest of the stream into the line buffer
pub proof fn lemma_cons_read(k: Seq<u8>, p: Seq<u8>, b0: Seq<u8>, b1: Seq<u8>, s0: Seq<u8>, c0: Seq<u8>, c1: Seq<u8>, r0: Seq<u8>, r1: Seq<u8>, stream: Seq<u8>)
    requires conserved(k, p, b0, s0, c0, r0, stream), b1 == b0 + read_chunk(b0, b1), c1 == c0 + read_chunk(b0, b1), r0 == read_chunk(b0, b1) + r1,
    ensures conserved(k, p, b1, s0, c1, r1, stream),
{ reveal(conserved); let ch = read_chunk(b0, b1); assert(k + p + (b0 + ch) =~= (k + p + b0) + ch); assert((c0 + ch) + r1 =~= c0 + (ch + r1)); }
// the line buffer was moved to the end of the pending buffers (mem::take leaves it empty)
pub proof fn lemma_cons_push(k: Seq<u8>, ob: Seq<Vec<u8>>, x: Vec<u8>, nb: Seq<Vec<u8>>, newbuf: Seq<u8>, s0: Seq<u8>, c: Seq<u8>, r: Seq<u8>, stream: Seq<u8>)
    requires conserved(k, flat(ob), x@, s0, c, r, stream), nb =~= ob.push(x), newbuf.len() == 0,
    ensures conserved(k, flat(nb), newbuf, s0, c, r, stream),
{ reveal(conserved); lemma_flat_push(ob, x); assert(nb == ob.push(x)); assert(k + (flat(ob) + x@) + newbuf =~= k + flat(ob) + x@); }
pub proof fn lemma_cons_stream(k: Seq<u8>, p: Seq<u8>, b: Seq<u8>, s0: Seq<u8>, c: Seq<u8>, r: Seq<u8>, stream: Seq<u8>) requires conserved(k, p, b, s0, c, r, stream) ensures c + r =~= stream { reveal(conserved); }
// a flush handed the pending bytes to the encoder
pub proof fn lemma_cons_flush(k: Seq<u8>, p: Seq<u8>, b: Seq<u8>, s0: Seq<u8>, c: Seq<u8>, r: Seq<u8>, stream: Seq<u8>)
    requires conserved(k, p, b, s0, c, r, stream),
    ensures conserved(k + p, Seq::<u8>::empty(), b, s0, c, r, stream),
{ reveal(conserved); assert((k + p) + Seq::<u8>::empty() + b =~= k + p + b); }
// at the end of the stream, after the last flush, with an empty line buffer: the encoder got s0 ++ stream
pub proof fn lemma_cons_done(k: Seq<u8>, p: Seq<u8>, b: Seq<u8>, s0: Seq<u8>, c: Seq<u8>, r: Seq<u8>, stream: Seq<u8>)
    requires conserved(k, p, b, s0, c, r, stream), r.len() == 0, b.len() == 0,
    ensures k + p == s0 + stream,
{ reveal(conserved); assert(c =~= stream); assert(k + p =~= k + p + b); }
// C20: every buffer is a complete line (ends with a newline)
#[verifier::opaque] pub open spec fn all_lines(b: Seq<Vec<u8>>) -> bool { forall|i: int| 0 <= i < b.len() ==> (#[trigger] b[i])@.len() > 0 && b[i]@.last() == 10u8 }
pub open spec fn nl_terminated(s: Seq<u8>) -> bool { s.len() == 0 || s.last() == 10u8 }
pub proof fn lemma_all_lines_empty(b: Seq<Vec<u8>>) requires b.len() == 0 ensures all_lines(b) { reveal(all_lines); }
pub proof fn lemma_all_lines_push(b: Seq<Vec<u8>>, x: Vec<u8>) requires all_lines(b), x@.len() > 0, x@.last() == 10u8 ensures all_lines(b.push(x)) {
    reveal(all_lines);
    assert forall|i: int| 0 <= i < b.push(x).len() implies (#[trigger] b.push(x)[i])@.len() > 0 && b.push(x)[i]@.last() == 10u8 by { if i < b.len() { assert(b.push(x)[i] == b[i]); } }
}
// C20: a non-empty line buffer ends where the consumed prefix of the stream ends (opaque: used through the three lemmas below)
#[verifier::opaque] pub open spec fn buf_at_end(buf: Seq<u8>, consumed: Seq<u8>) -> bool { buf.len() > 0 ==> consumed.len() > 0 && buf.last() == consumed.last() }
pub proof fn lemma_buf_at_end_empty(buf: Seq<u8>, consumed: Seq<u8>) requires buf.len() == 0 ensures buf_at_end(buf, consumed) { reveal(buf_at_end); }
// a read appended the same chunk to the line buffer and to the consumed prefix
pub proof fn lemma_after_read(b0: Seq<u8>, b1: Seq<u8>, c0: Seq<u8>, c1: Seq<u8>)
    requires b1 == b0 + read_chunk(b0, b1), c1 == c0 + read_chunk(b0, b1), buf_at_end(b0, c0),
    ensures buf_at_end(b1, c1),
{ reveal(buf_at_end); let ch = read_chunk(b0, b1); if ch.len() > 0 { assert(b1.last() == ch.last()); assert(c1.last() == ch.last()); } else { assert(b1 =~= b0); assert(c1 =~= c0); } }
// a non-empty buffer at the end of a newline-terminated stream is a complete line
pub proof fn lemma_line_at_eof(buf: Seq<u8>, consumed: Seq<u8>, rest: Seq<u8>, stream: Seq<u8>)
    requires buf_at_end(buf, consumed), consumed + rest =~= stream, rest.len() == 0, nl_terminated(stream), buf.len() > 0,
    ensures buf.last() == 10u8,
{ reveal(buf_at_end); assert(consumed =~= stream); }
pub proof fn lemma_flat_push(b: Seq<Vec<u8>>, x: Vec<u8>) ensures flat(b.push(x)) == flat(b) + x@ { assert(b.push(x).drop_last() =~= b); }

// the bytes a read appended to its buffer
pub open spec fn read_chunk(before: Seq<u8>, after: Seq<u8>) -> Seq<u8> { after.subrange(before.len() as int, after.len() as int) }
// R11: tokio::select! picks any ready branch: the choice is unconstrained
#[verifier::external_body] pub fn select_choice(n: usize) -> (r: usize) ensures r < n { unimplemented!() }
// R11: tokio::try_join!(a, b) on two evaluated results (a real, verified function)
pub fn try_join2<A, B, E>(a: Result<A, E>, b: Result<B, E>) -> (r: Result<(A, B), E>)
    ensures r is Ok <==> (a is Ok && b is Ok), r matches Ok(p) ==> a == Ok::<A, E>(p.0) && b == Ok::<B, E>(p.1),
{
    match a { Ok(x) => match b { Ok(y) => Ok((x, y)), Err(e) => Err(e) }, Err(e) => Err(e) }
}
pub mod mem {
    use vstd::prelude::*;
    // std::mem::take on a byte vector (R17 re-roots the path): returns the content, leaves it empty
    #[verifier::external_body] pub fn take(v: &mut Vec<u8>) -> (r: Vec<u8>) ensures r@ == old(v)@, final(v)@.len() == 0 { unimplemented!() }
}
pub mod sync { pub use std::sync::Arc;
    pub mod atomic {
        use vstd::prelude::*;
        pub enum Ordering { Relaxed, SeqCst }
        pub struct AtomicBool { pub x: u8 }
        // the flag may be raised at any time by another thread: the value read is unconstrained
        impl AtomicBool { #[verifier::external_body] pub fn load(&self, o: Ordering) -> bool { unimplemented!() }
            #[verifier::external_body] pub fn new(b: bool) -> AtomicBool { unimplemented!() } }
    }
}
pub mod tokio_util { pub mod sync {
    use vstd::prelude::*;
    pub struct CancellationToken { pub x: u8 }
    impl CancellationToken {
        #[verifier::external_body] pub fn new() -> CancellationToken { unimplemented!() }
        #[verifier::external_body] pub async fn cancelled(&self) { unimplemented!() }
        #[verifier::external_body] pub fn cancel(&self) { unimplemented!() }
        // whether cancel() has been called by anyone holding the token: unconstrained here
        #[verifier::external_body] pub fn is_cancelled(&self) -> bool { unimplemented!() }
    }
} }
// what a joined task reports: its index in the group, and whether its outcome counts as a failure
pub trait TaskOut { spec fn tid(&self) -> int; spec fn bad(&self) -> bool; }
// what one message does to the compressor's encoders (defined by the unit that owns the message type)
pub trait ChanMsg { spec fn apply(&self, chan: int, sink: Map<(int, int), Seq<u8>>) -> Map<(int, int), Seq<u8>>; }
pub mod tokio {
    use vstd::prelude::*;
    use super::*;
    pub mod task {
        use vstd::prelude::*;
        use super::super::*;
        pub struct Id { pub ghost i: int }
        pub struct JoinError { pub ghost i: int, pub x: u8 }
        impl JoinError {
            #[verifier::external_body] pub fn is_cancelled(&self) -> bool { unimplemented!() }
            #[verifier::external_body] pub fn id(&self) -> (r: Id) ensures r.i == self.i { unimplemented!() }
        }
        pub struct AbortHandle { pub ghost i: int }
        impl AbortHandle { #[verifier::external_body] pub fn id(&self) -> (r: Id) ensures r.i == self.i { unimplemented!() } }
        // a set of spawned tasks; `pending` are the task indices spawned and not yet joined, `ids` maps tokio ids to them
        pub struct JoinSet<T> { pub ghost pending: Set<int>, pub ghost ids: Map<int, int>, pub _t: ::std::marker::PhantomData<T> }
        impl<T: TaskOut> JoinSet<T> {
            #[verifier::external_body] pub fn new() -> (r: Self) ensures r.pending == Set::<int>::empty(), r.ids == Map::<int, int>::empty() { unimplemented!() }
            #[verifier::external_body] pub fn is_empty(&self) -> (r: bool) ensures r == (self.pending =~= Set::<int>::empty()) { unimplemented!() }
            // a task is returned only after its future completed (its process exited and its readers finished); None iff empty
            #[verifier::external_body] pub async fn join_next(&mut self, Tracked(w): Tracked<&mut World>) -> (r: Option<Result<T, JoinError>>)
                ensures
                    final(w).cur_c == old(w).cur_c, final(w).cur_g == old(w).cur_g, final(w).fail_point == old(w).fail_point,
                    final(w).grp_begin == old(w).grp_begin, final(w).sched_end == old(w).sched_end, final(self).ids == old(self).ids,
                    match r {
                        None => old(self).pending == Set::<int>::empty() && final(self).pending == old(self).pending && final(w).trace == old(w).trace && final(w).bad_joins == old(w).bad_joins,
                        Some(res) => exists|t: int| #![trigger old(self).pending.contains(t)] old(self).pending.contains(t) && final(self).pending == old(self).pending.remove(t)
                            && final(w).trace == old(w).trace.push(Ev::Exit { c: old(w).cur_c, g: old(w).cur_g, t })
                            && (res matches Ok(v) ==> v.tid() == t && final(w).bad_joins == old(w).bad_joins + (if v.bad() { 1nat } else { 0nat }))
                            && (res matches Err(e) ==> old(self).ids.dom().contains(e.i) && old(self).ids[e.i] == t && final(w).bad_joins == old(w).bad_joins),
                    }
            { unimplemented!() }
        }
    }
    pub mod time {
        use vstd::prelude::*;
        pub struct Duration { pub x: u8 }
        impl Duration { #[verifier::external_body] pub fn from_millis(ms: u64) -> Duration { unimplemented!() } }
        pub struct Interval { pub x: u8 }
        impl Interval { #[verifier::external_body] pub async fn tick(&mut self) { unimplemented!() } }
        #[verifier::external_body] pub fn interval(d: Duration) -> Interval { unimplemented!() }
        pub struct Elapsed { pub x: u8 }
        // R12 target for `timeout(d, TcpListener::bind(addr))` (unit lock): ONE attempt to bind the lock address.  ASSUMED (OS): a
        // listening socket is exclusive per address - the bind fails while another process holds it - and is released when its holder dies
        #[verifier::external_body] pub async fn timeout_bind(d: std::time::Duration, addr: &String, Tracked(w): Tracked<&mut super::super::World>) -> (r: Result<Result<super::net::TcpListener, std::io::Error>, Elapsed>)
            ensures final(w).bind_attempts == old(w).bind_attempts + 1, final(w).effects == old(w).effects,
                r matches Ok(Ok(l)) ==> !old(w).addr_in_use && final(w).lock_held,
                !(r matches Ok(Ok(l))) ==> final(w).lock_held == old(w).lock_held,
        { unimplemented!() }
    }
    pub mod io {
        use vstd::prelude::*;
        use super::super::*;
        pub trait AsyncRead { }
        // everything a reader (socket, pipe) will deliver from now until its end
        pub uninterp spec fn incoming_of<R>(r: R) -> Seq<u8>;
        // tokio::io::stdout() and AsyncWriteExt on it: bytes go to the process's standard output, in order; an error may have taken a prefix
        pub struct Stdout { pub x: u8 }
        #[verifier::external_body] pub fn stdout() -> Stdout { unimplemented!() }
        impl Stdout {
            #[verifier::external_body] pub async fn write_all(&mut self, b: &[u8], Tracked(w): Tracked<&mut World>) -> (r: Result<(), std::io::Error>)
                ensures r is Ok ==> final(w).stdout_bytes == old(w).stdout_bytes + b@, final(w).tail == old(w).tail { unimplemented!() }
            #[verifier::external_body] pub async fn flush(&mut self) -> (r: Result<(), std::io::Error>) { unimplemented!() }
        }
        // a buffered byte stream: `consumed` is what reads have taken so far, `rest` what is still to come
        pub struct BufReader<R> { pub ghost consumed: Seq<u8>, pub ghost rest: Seq<u8>, pub r: R }
        impl<R> BufReader<R> {
            // BufReader::new does no I/O; what the peer will send is unconstrained - it is whatever the underlying reader had still to deliver
            #[verifier::external_body] pub fn new(r: R) -> (b: BufReader<R>) ensures b.consumed == Seq::<u8>::empty(), b.rest == incoming_of(r) { unimplemented!() }
            // AsyncBufReadExt::read_until: a completed read appends the bytes it consumed to buf; Ok(0) only at end of stream
            #[verifier::external_body]
            pub async fn read_until(&mut self, d: u8, buf: &mut Vec<u8>) -> (res: Result<usize, std::io::Error>)
                ensures
                    final(buf)@ == old(buf)@ + read_chunk(old(buf)@, final(buf)@),
                    final(self).consumed == old(self).consumed + read_chunk(old(buf)@, final(buf)@),
                    old(self).rest == read_chunk(old(buf)@, final(buf)@) + final(self).rest,
                    res matches Ok(k) ==> read_chunk(old(buf)@, final(buf)@).len() == k && (k == 0 ==> old(self).rest.len() == 0),
                    // a completed read stops right after the delimiter, or at the end of the stream
                    res matches Ok(k) ==> k > 0 ==> (final(buf)@.last() == d || final(self).rest.len() == 0),
            { unimplemented!() }
            // the same future polled and then dropped by select!: any prefix may already have been moved into buf (tokio docs: not cancel-safe w.r.t. buf)
            #[verifier::external_body]
            pub fn read_until_dropped(&mut self, d: u8, buf: &mut Vec<u8>)
                ensures
                    final(buf)@ == old(buf)@ + read_chunk(old(buf)@, final(buf)@),
                    final(self).consumed == old(self).consumed + read_chunk(old(buf)@, final(buf)@),
                    old(self).rest == read_chunk(old(buf)@, final(buf)@) + final(self).rest,
            { unimplemented!() }
        }
    }
    pub mod sync {
        use vstd::prelude::*;
        use super::super::*;
        pub mod mpsc {
            use vstd::prelude::*;
            use super::super::super::*;
            pub struct SendError<T> { pub v: T }
            pub struct Sender<T> { pub ghost chan: int, pub _t: ::std::marker::PhantomData<T> }
            impl<T: ChanMsg> Sender<T> {
                // Ok iff the receiver is alive (which may change at any time: the result is otherwise unconstrained);
                // a delivered message has the effect `apply` on the encoders; a failed send has none and is counted
                #[verifier::external_body]
                pub async fn send(&self, v: T, Tracked(w): Tracked<&mut World>) -> (r: Result<(), SendError<T>>)
                    ensures
                        r is Ok ==> final(w).sink == v.apply(self.chan, old(w).sink) && final(w).cc_errs == old(w).cc_errs,
                        r is Err ==> final(w).sink == old(w).sink && final(w).cc_errs == old(w).cc_errs + 1,
                        final(w).tail == old(w).tail, final(w).tail_locks == old(w).tail_locks, final(w).trace == old(w).trace, final(w).fs == old(w).fs,
                { unimplemented!() }
            }
            impl<T> Clone for Sender<T> { #[verifier::external_body] fn clone(&self) -> (r: Self) ensures r.chan == self.chan { unimplemented!() } }
            // ASSUMED: blocking_recv delivers the messages in the order they were sent (`incoming` = the messages still to come, a prophecy;
            // None once every sender is gone and the queue is empty)
            pub struct Receiver<T> { pub ghost incoming: Seq<T>, pub ghost taken: Seq<T>, pub _t: ::std::marker::PhantomData<T> }
            // R12 target for mpsc::channel(n): both ends of one NEW channel - its identity differs from every identity in `used`
            #[verifier::external_body] pub fn channel_fresh<T>(n: usize, Ghost(used): Ghost<Set<int>>) -> (r: (Sender<T>, Receiver<T>)) ensures !used.contains(r.0.chan), r.1.taken == Seq::<T>::empty() { unimplemented!() }
            impl<T> Receiver<T> {
                #[verifier::external_body] pub fn blocking_recv(&mut self) -> (r: Option<T>)
                    ensures
                        r matches Some(m) ==> old(self).incoming.len() > 0 && m == old(self).incoming[0] && final(self).incoming == old(self).incoming.skip(1) && final(self).taken == old(self).taken.push(m),
                        r is None ==> final(self).incoming == old(self).incoming && final(self).taken == old(self).taken,
                { unimplemented!() }
            }
        }
        // tokio::sync::Mutex around the log tail connection
        pub struct Mutex<T> { pub t: T }
        pub struct MutexGuard<T> { pub t: T }
        impl<T> Mutex<T> {
            #[verifier::external_body] pub fn new(t: T) -> (m: Mutex<T>) { unimplemented!() }
            #[verifier::external_body] pub async fn lock(&self, Tracked(w): Tracked<&mut World>) -> (g: MutexGuard<T>)
                ensures final(w).tail_locks == old(w).tail_locks + 1, final(w).tail == old(w).tail, final(w).sink == old(w).sink, final(w).cc_errs == old(w).cc_errs { unimplemented!() }
        }
    }
    pub mod net {
        use vstd::prelude::*;
        pub struct TcpStream { pub x: u8 }
        pub struct TcpListener { pub x: u8 }
        pub struct SocketAddr { pub x: u8 }
        impl TcpListener {
            // accept: the next client of the listener, whoever it is; may fail for any reason
            #[verifier::external_body] pub async fn accept(&self) -> (r: Result<(TcpStream, SocketAddr), std::io::Error>) { unimplemented!() }
        }
        impl TcpStream {
            // connecting to the optional log listener: may fail for any reason
            #[verifier::external_body] pub async fn connect_addr(addr: &String) -> (r: Result<TcpStream, std::io::Error>) { unimplemented!() }
            // AsyncWriteExt::write_all on the (not yet shared) connection
            #[verifier::external_body] pub async fn write_all(&mut self, b: &[u8], Tracked(w): Tracked<&mut super::super::World>) -> (r: Result<(), std::io::Error>)
                ensures r is Ok ==> final(w).tail == old(w).tail + b@, final(w).tail_locks == old(w).tail_locks, final(w).sink == old(w).sink, final(w).cc_errs == old(w).cc_errs,
            { unimplemented!() }
        }
    }
    pub mod fs {
        use vstd::prelude::*;
        use super::super::*;
        // tokio::fs::remove_file applied to the checkpoint file (unit checkpoint)
        #[verifier::external_body] pub async fn remove_file(p: &path::PathBuf, Tracked(w): Tracked<&mut World>) -> (r: Result<(), std::io::Error>)
            ensures r is Ok ==> final(w).cp_file is None, r is Err ==> final(w).cp_file == old(w).cp_file { unimplemented!() }
    }
}
impl<T> From<tokio::sync::mpsc::SendError<T>> for MonorailError { #[verifier::external_body] fn from(error: tokio::sync::mpsc::SendError<T>) -> (r: Self) ensures r is ChannelSend { unimplemented!() } }
// AsyncWriteExt::write_all on the guarded connection: all bytes or an error after an arbitrary prefix
impl tokio::sync::MutexGuard<tokio::net::TcpStream> {
    #[verifier::external_body] pub async fn write_all(&mut self, b: &[u8], Tracked(w): Tracked<&mut World>) -> (r: Result<(), std::io::Error>)
        ensures r is Ok ==> final(w).tail == old(w).tail + b@,
            final(w).tail_locks == old(w).tail_locks, final(w).sink == old(w).sink, final(w).cc_errs == old(w).cc_errs,
    { unimplemented!() }
}

// ---------------- file system effects of `run` (unit tracking): every effect is a possible crash point ----------------
// `fs` maps a path to the content of the file there.  A multi-byte write is not atomic (any prefix may be on disk when it
// fails or the process dies); `rename` is atomic.  `io_faults` counts environmental failures (EIO, ENOSPC, permissions):
// an operation that fails for a reason visible in `fs` (create_new on an existing file, open of a missing file) does not count.
pub uninterp spec fn path_with_ext(p: Seq<char>, ext: Seq<char>) -> Seq<char>;
pub uninterp spec fn json_enc<T>(t: T) -> Seq<u8>;
// ASSUMED (serde: `impl Serialize for &T` delegates to T): a reference serialises as what it refers to
#[verifier::external_body] pub proof fn axiom_json_enc_ref<T>(v: &T) ensures json_enc::<&T>(v) == json_enc::<T>(*v) { }
// the run pointer is recoverable: absent or old content (as at entry), or the complete new content
pub open spec fn recoverable(w: World) -> bool {
    if w.fs.dom().contains(w.ptr) { Some(w.fs[w.ptr]) == w.last || w.fs[w.ptr] == w.ptr_new } else { w.last is None }
}
impl path::Path {
    #[verifier::external_body] pub fn with_extension(&self, ext: &str) -> (r: path::PathBuf) ensures r@ == path_with_ext(self@, ext@), r@ != self@ { unimplemented!() }
}
impl path::PathBuf {
    #[verifier::external_body] pub fn with_extension(&self, ext: &str) -> (r: path::PathBuf) ensures r@ == path_with_ext(self@, ext@), r@ != self@ { unimplemented!() }
}
pub mod fs {
    use vstd::prelude::*;
    use super::*;
    pub struct File { pub ghost p: Seq<char>, pub ghost content: Seq<u8>, pub ghost pos: int }   // content: what the file held when it was opened for reading; pos: the write offset
    // write(2) at offset pos: bytes already there are overwritten, bytes beyond the written range stay (only O_TRUNC removes them)
    pub open spec fn overwrite(s: Seq<u8>, pos: int, d: Seq<u8>) -> Seq<u8> {
        if pos == s.len() { s + d } else if pos + d.len() < s.len() { s.take(pos) + d + s.skip(pos + d.len()) } else { s.take(pos) + d }
    }
    pub struct OpenOptions { pub ghost rd: bool, pub ghost wr: bool, pub ghost tr: bool, pub ghost cr: bool, pub ghost cn: bool }
    impl OpenOptions {
        #[verifier::external_body] pub fn new() -> (r: Self) ensures !r.rd && !r.wr && !r.tr && !r.cr && !r.cn { unimplemented!() }
        #[verifier::external_body] pub fn read(self, b: bool) -> (r: Self) ensures r == (OpenOptions { rd: b, ..self }) { unimplemented!() }
        #[verifier::external_body] pub fn write(self, b: bool) -> (r: Self) ensures r == (OpenOptions { wr: b, ..self }) { unimplemented!() }
        #[verifier::external_body] pub fn truncate(self, b: bool) -> (r: Self) ensures r == (OpenOptions { tr: b, ..self }) { unimplemented!() }
        #[verifier::external_body] pub fn create(self, b: bool) -> (r: Self) ensures r == (OpenOptions { cr: b, ..self }) { unimplemented!() }
        #[verifier::external_body] pub fn create_new(self, b: bool) -> (r: Self) ensures r == (OpenOptions { cn: b, ..self }) { unimplemented!() }
        // open(2): creates an empty file (create / create_new), truncates an existing one (truncate); fails without an
        // environmental fault exactly when create_new meets an existing file or neither create flag is set and the file is missing
        #[verifier::external_body] pub fn open<P: PathLike>(self, p: P, Tracked(w): Tracked<&mut World>) -> (r: Result<File, std::io::Error>)
            requires self.wr ==> recoverable(*old(w)),
                // create_new fails on an existing file for no fault of the environment: a caller that uses it owes the argument that the
                // file cannot exist (none of the repository's writers does; each opens with create + truncate)
                self.cn ==> !old(w).fs.dom().contains(p.pview()),
            ensures
                final(w).ptr == old(w).ptr, final(w).last == old(w).last, final(w).ptr_new == old(w).ptr_new, final(w).io_faults >= old(w).io_faults,
                r matches Ok(f) ==> f.pos == 0 && f.p == p.pview() && f.content == final(w).fs[p.pview()] && final(w).io_faults == old(w).io_faults && final(w).fs == old(w).fs.insert(p.pview(),
                    if self.wr && (self.tr || !old(w).fs.dom().contains(p.pview())) { Seq::<u8>::empty() } else { old(w).fs[p.pview()] })
                    && (old(w).fs.dom().contains(p.pview()) || self.cr || self.cn) && !(self.cn && old(w).fs.dom().contains(p.pview())),
                r is Err ==> final(w).fs == old(w).fs,
                (r is Err && final(w).io_faults == old(w).io_faults) ==>
                    (self.cn && old(w).fs.dom().contains(p.pview())) || (!self.cr && !self.cn && !old(w).fs.dom().contains(p.pview())),
        { unimplemented!() }
    }
    impl File {
        // std::io::Write::write_all at the file's offset: the data replaces what was there, or (on failure / crash) an arbitrary prefix of it does
        #[verifier::external_body] pub fn write_all(&mut self, data: &[u8], Tracked(w): Tracked<&mut World>) -> (r: Result<(), std::io::Error>)
            requires recoverable(*old(w)), old(w).fs.dom().contains(old(self).p), 0 <= old(self).pos <= old(w).fs[old(self).p].len(),
            ensures
                final(self).p == old(self).p, final(w).ptr == old(w).ptr, final(w).last == old(w).last, final(w).ptr_new == old(w).ptr_new,
                final(w).fs.dom() == old(w).fs.dom(), forall|q: Seq<char>| q != old(self).p ==> final(w).fs[q] == old(w).fs[q],
                r is Ok ==> final(w).fs[old(self).p] == overwrite(old(w).fs[old(self).p], old(self).pos, data@) && final(w).io_faults == old(w).io_faults
                    && final(self).pos == old(self).pos + data@.len(),
                r is Err ==> final(w).io_faults == old(w).io_faults + 1,
                // torn write: some prefix of the data was written
                exists|k: int| 0 <= k <= data@.len() && #[trigger] final(w).fs[old(self).p] == overwrite(old(w).fs[old(self).p], old(self).pos, data@.take(k)),
        { unimplemented!() }
    }
    #[verifier::external_body] pub fn read<P: PathLike + ?Sized>(p: &P, Tracked(w): Tracked<&mut World>) -> (r: Result<Vec<u8>, std::io::Error>)
        ensures final(w).fs == old(w).fs, final(w).io_faults >= old(w).io_faults,
            r matches Ok(v) ==> old(w).fs.dom().contains(p.pview()) && v@ == old(w).fs[p.pview()] && final(w).io_faults == old(w).io_faults,
            (r is Err && final(w).io_faults == old(w).io_faults) ==> !old(w).fs.dom().contains(p.pview()),
    { unimplemented!() }
    // remove_dir_all: everything under the directory disappears; fails without an environmental fault only when there is nothing there
    pub uninterp spec fn under(dir: Seq<char>, p: Seq<char>) -> bool;   // p names something inside directory dir (whole components)
    #[verifier::external_body] pub fn remove_dir_all<P: PathLike + ?Sized>(p: &P, Tracked(w): Tracked<&mut World>) -> (r: Result<(), std::io::Error>)
        ensures
            final(w).ptr == old(w).ptr, final(w).last == old(w).last, final(w).ptr_new == old(w).ptr_new, final(w).io_faults >= old(w).io_faults,
            forall|q: Seq<char>| #![trigger under(p.pview(), q)] !under(p.pview(), q) ==> (final(w).fs.dom().contains(q) == old(w).fs.dom().contains(q) && final(w).fs[q] == old(w).fs[q]),
            r is Ok ==> final(w).io_faults == old(w).io_faults && forall|q: Seq<char>| #![trigger under(p.pview(), q)] under(p.pview(), q) ==> !final(w).fs.dom().contains(q),
            r is Err ==> final(w).fs == old(w).fs,
            (r is Err && final(w).io_faults == old(w).io_faults) ==> forall|q: Seq<char>| #![trigger under(p.pview(), q)] under(p.pview(), q) ==> !old(w).fs.dom().contains(q),
    { unimplemented!() }
    // remove_dir: removes an EMPTY directory only - succeeds only when nothing is inside; the file map never changes
    #[verifier::external_body] pub fn remove_dir<P: PathLike + ?Sized>(p: &P, Tracked(w): Tracked<&mut World>) -> (r: Result<(), std::io::Error>)
        ensures
            final(w).ptr == old(w).ptr, final(w).last == old(w).last, final(w).ptr_new == old(w).ptr_new, final(w).io_faults >= old(w).io_faults,
            final(w).fs == old(w).fs,
            r is Ok ==> final(w).io_faults == old(w).io_faults && forall|q: Seq<char>| #![trigger under(p.pview(), q)] under(p.pview(), q) ==> !old(w).fs.dom().contains(q),
    { unimplemented!() }
    // create_dir_all: directories are not files; the file map is unchanged
    #[verifier::external_body] pub fn create_dir_all<P: PathLike + ?Sized>(p: &P, Tracked(w): Tracked<&mut World>) -> (r: Result<(), std::io::Error>)
        ensures final(w).fs == old(w).fs, final(w).ptr == old(w).ptr, final(w).last == old(w).last, final(w).ptr_new == old(w).ptr_new, final(w).io_faults >= old(w).io_faults,
            r is Err ==> final(w).io_faults > old(w).io_faults,
    { unimplemented!() }
    // rename(2): atomic replacement
    #[verifier::external_body] pub fn rename<P: PathLike, Q: PathLike>(from: P, to: Q, Tracked(w): Tracked<&mut World>) -> (r: Result<(), std::io::Error>)
        requires recoverable(*old(w)),
        ensures
            final(w).ptr == old(w).ptr, final(w).last == old(w).last, final(w).ptr_new == old(w).ptr_new,
            r is Ok ==> old(w).fs.dom().contains(from.pview()) && final(w).fs == old(w).fs.remove(from.pview()).insert(to.pview(), old(w).fs[from.pview()]) && final(w).io_faults == old(w).io_faults,
            r is Err ==> final(w).fs == old(w).fs && (final(w).io_faults == old(w).io_faults + 1 || (final(w).io_faults == old(w).io_faults && !old(w).fs.dom().contains(from.pview()))),
    { unimplemented!() }
}

// ---------------- BufWriter -> zstd encoder -> file (units tracking, compress; ASSUMED library behaviour) ----------------
pub uninterp spec fn zstd_frame(b: Seq<u8>) -> Seq<u8>;        // the complete zstd stream an encoder emits for input b (level fixed)
pub mod iow {
    use vstd::prelude::*;
    use super::*;
    pub struct BufWriter { pub f: fs::File }
    // BufWriter::new does no I/O
    impl BufWriter { #[verifier::external_body] pub fn new(f: fs::File) -> (r: BufWriter) ensures r.f == f { unimplemented!() } }
}
pub mod zstdw {
    use vstd::prelude::*;
    use super::*;
    pub struct Encoder { pub bw: iow::BufWriter, pub ghost input: Seq<u8>, pub ghost finished: bool }
    impl Encoder {
        // Encoder::new writes nothing yet (ASSUMED: the frame header is buffered until the first flush, which here is finish())
        #[verifier::external_body] pub fn new(bw: iow::BufWriter, level: i32) -> (r: Result<Encoder, std::io::Error>)
            ensures r matches Ok(e) ==> e.bw == bw && e.input == Seq::<u8>::empty() && !e.finished { unimplemented!() }
        // finish(): the complete stream for everything written so far goes to the file AT ITS OFFSET (nothing is truncated here);
        // on failure some prefix of it may have been written
        #[verifier::external_body] pub fn finish(self, Tracked(w): Tracked<&mut World>) -> (r: Result<iow::BufWriter, std::io::Error>)
            requires recoverable(*old(w)), old(w).fs.dom().contains(self.bw.f.p), 0 <= self.bw.f.pos <= old(w).fs[self.bw.f.p].len(),
            ensures
                final(w).ptr == old(w).ptr, final(w).last == old(w).last, final(w).ptr_new == old(w).ptr_new,
                final(w).fs.dom() == old(w).fs.dom(), forall|q: Seq<char>| q != self.bw.f.p ==> final(w).fs[q] == old(w).fs[q],
                r is Ok ==> final(w).fs[self.bw.f.p] == fs::overwrite(old(w).fs[self.bw.f.p], self.bw.f.pos, zstd_frame(self.input)) && final(w).io_faults == old(w).io_faults,
                r is Err ==> final(w).io_faults == old(w).io_faults + 1,
        { unimplemented!() }
        // std::io::Write::write_all into the encoder (compressor thread): the encoder's input grows; an error may have taken a prefix
        #[verifier::external_body] pub fn write_all(&mut self, data: &Vec<u8>) -> (r: Result<(), std::io::Error>)
            ensures final(self).bw == old(self).bw, final(self).finished == old(self).finished,
                r is Ok ==> final(self).input == old(self).input + data@,
        { unimplemented!() }
        // std::io::Write::write: takes SOME prefix of the data (possibly all, possibly less) and says how much
        #[verifier::external_body] pub fn write(&mut self, data: &Vec<u8>) -> (r: Result<usize, std::io::Error>)
            ensures final(self).bw == old(self).bw, final(self).finished == old(self).finished,
                r matches Ok(n) ==> n <= data@.len() && final(self).input == old(self).input + data@.take(n as int),
        { unimplemented!() }
        // do_finish(): ends the stream - the archive at the encoder's path now decodes to everything written so far (w.archives);
        // ASSUMED (zstd crate): finishing an already finished encoder does nothing
        #[verifier::external_body] pub fn do_finish(&mut self, Tracked(w): Tracked<&mut World>) -> (r: Result<(), std::io::Error>)
            ensures final(self).bw == old(self).bw, final(self).input == old(self).input,
                r is Ok ==> final(self).finished,
                (r is Ok && !old(self).finished) ==> final(w).archives == old(w).archives.insert(old(self).bw.f.p, old(self).input),
                (r is Ok && old(self).finished) ==> final(w).archives == old(w).archives,
                forall|q: Seq<char>| q != old(self).bw.f.p ==> (final(w).archives.dom().contains(q) == old(w).archives.dom().contains(q) && final(w).archives[q] == old(w).archives[q]),
        { unimplemented!() }
    }
}
// serde_json::to_writer into the encoder: the encoder's input grows by the JSON text of the value; no file I/O yet
#[verifier::external_body] pub fn to_writer_enc<T>(e: &mut zstdw::Encoder, v: &T) -> (r: Result<(), serde_json::Error>)
    ensures final(e).bw == old(e).bw, r is Ok ==> final(e).input == old(e).input + json_enc(*v) { unimplemented!() }

// ---------------- reading files, hashing, decoding (units config, index) ----------------
pub uninterp spec fn sha256(b: Seq<u8>) -> Seq<u8>;
pub uninterp spec fn hex(d: Seq<u8>) -> Seq<char>;
pub uninterp spec fn utf8_ok(b: Seq<u8>) -> bool;
pub uninterp spec fn json_parse<T>(b: Seq<u8>) -> Option<T>;   // serde_json: a function of the input bytes only
pub uninterp spec fn path_exists_spec(p: Seq<char>, fs: Map<Seq<char>, Seq<u8>>) -> bool;
impl fs::File {
    // File::open(p): read-only open; fails without an environmental fault exactly when there is no file
    #[verifier::external_body] pub fn open<P: PathLike + ?Sized>(p: &P, Tracked(w): Tracked<&mut World>) -> (r: Result<fs::File, std::io::Error>)
        ensures final(w).fs == old(w).fs, final(w).io_faults >= old(w).io_faults, final(w).stdout_bytes == old(w).stdout_bytes,
            r matches Ok(f) ==> f.p == p.pview() && old(w).fs.dom().contains(p.pview()) && f.content == old(w).fs[p.pview()] && final(w).io_faults == old(w).io_faults,
            (r is Err && final(w).io_faults == old(w).io_faults) ==> !old(w).fs.dom().contains(p.pview()),
    { unimplemented!() }
    // std::io::Read::read_to_end on a freshly opened file: appends the whole content
    #[verifier::external_body] pub fn read_to_end(&mut self, buf: &mut Vec<u8>, Tracked(w): Tracked<&mut World>) -> (r: Result<usize, std::io::Error>)
        ensures final(w).fs == old(w).fs, final(self).p == old(self).p, final(w).io_faults >= old(w).io_faults,
            r is Ok ==> final(buf)@ == old(buf)@ + old(w).fs[old(self).p] && final(w).io_faults == old(w).io_faults,
            r is Err ==> final(w).io_faults > old(w).io_faults,
    { unimplemented!() }
}
impl path::Path {
    // Path::try_exists: like exists, but an environmental failure is an error
    #[verifier::external_body] pub fn try_exists(&self, Tracked(w): Tracked<&mut World>) -> (r: Result<bool, std::io::Error>)
        ensures *final(w) == *old(w) || final(w).io_faults > old(w).io_faults, final(w).fs == old(w).fs, final(w).pointer_reads == old(w).pointer_reads, final(w).shown == old(w).shown, final(w).recorded_id == old(w).recorded_id,
            r matches Ok(b) ==> b == old(w).fs.dom().contains(self@) && *final(w) == *old(w) { unimplemented!() }
    #[verifier::external_body] pub fn exists(&self, Tracked(w): Tracked<&mut World>) -> (r: bool)
        ensures *final(w) == *old(w), r == old(w).fs.dom().contains(self@) { unimplemented!() }
}
pub mod strs {
    use vstd::prelude::*;
    use super::*;
    // std::str::from_utf8 (R17 re-roots the path)
    #[verifier::external_body] pub fn from_utf8(b: &[u8]) -> (r: Result<&str, std::str::Utf8Error>)
        ensures r is Ok <==> utf8_ok(b@), r matches Ok(s) ==> str_bytes(s@) == b@ { unimplemented!() }
}
pub mod sha2 {
    use vstd::prelude::*;
    use super::*;
    pub struct Sha256 { pub ghost fed: Seq<u8> }
    pub struct Output { pub ghost d: Seq<u8> }
    impl Sha256 {
        #[verifier::external_body] pub fn new() -> (r: Sha256) ensures r.fed == Seq::<u8>::empty() { unimplemented!() }
        #[verifier::external_body] pub fn update<B: BytesLike>(&mut self, b: B) ensures final(self).fed == old(self).fed + b.bytes() { unimplemented!() }
        #[verifier::external_body] pub fn finalize(self) -> (r: Output) ensures r.d == sha256(self.fed) { unimplemented!() }
        #[verifier::external_body] pub fn finalize_reset(&mut self) -> (r: Output) ensures r.d == sha256(old(self).fed), final(self).fed == Seq::<u8>::empty() { unimplemented!() }
    }
    // R12 target for `format!("{:x}", digest)`: lower-case hex of the digest
    #[verifier::external_body] pub fn hex_of(o: Output) -> (r: String) ensures r@ == hex(o.d) { unimplemented!() }
}

// std::io::BufReader over a file: fill_buf returns SOME non-empty prefix of what remains (std's real contract: at most the
// internal buffer, 8 KiB by default), not the whole file
pub struct BufReader { pub ghost p: Seq<char>, pub ghost pos: int }
impl BufReader {
    #[verifier::external_body] pub fn new(f: fs::File) -> (r: BufReader) ensures r.p == f.p, r.pos == 0 { unimplemented!() }
    #[verifier::external_body] pub fn fill_buf(&mut self, Tracked(w): Tracked<&mut World>) -> (r: Result<&[u8], std::io::Error>)
        ensures final(w).fs == old(w).fs, final(self).p == old(self).p, final(self).pos == old(self).pos, final(w).io_faults >= old(w).io_faults,
            r matches Ok(b) ==> final(w).io_faults == old(w).io_faults && old(self).pos + b@.len() <= old(w).fs[old(self).p].len()
                && b@ == old(w).fs[old(self).p].subrange(old(self).pos, old(self).pos + b@.len())
                && (old(self).pos < old(w).fs[old(self).p].len() ==> b@.len() > 0),
            r is Err ==> final(w).io_faults > old(w).io_faults,
    { unimplemented!() }
}

// ---------------- byte-level string operations and path prefixes (units index, analyze) ----------------
pub mod strx {
    use vstd::prelude::*;
    use super::*;
    // R12 targets inside is_path_prefix: str::starts_with(&str), str::len, str::ends_with(char), str::as_bytes over the UTF-8 bytes
    #[verifier::external_body] pub fn starts_with(s: &str, p: &str) -> (r: bool) ensures r == bp(p@, s@) { unimplemented!() }
    #[verifier::external_body] pub fn ends_with_char(s: &str, c: char) -> (r: bool)
        ensures c == '/' ==> r == (str_bytes(s@).len() > 0 && str_bytes(s@)[str_bytes(s@).len() - 1] == 47u8) { unimplemented!() }
    #[verifier::external_body] pub fn len(s: &str) -> (r: usize) ensures r == str_bytes(s@).len() { unimplemented!() }
    #[verifier::external_body] pub fn as_bytes(s: &str) -> (r: &[u8]) ensures r@ == str_bytes(s@) { unimplemented!() }
}
// byte prefix, and whole-component path prefix (DESIGN.md section 5)
pub open spec fn bp(a: Seq<char>, b: Seq<char>) -> bool { str_bytes(a).len() <= str_bytes(b).len() && str_bytes(b).subrange(0, str_bytes(a).len() as int) == str_bytes(a) }
pub open spec fn pp(a: Seq<char>, b: Seq<char>) -> bool {
    bp(a, b) && (str_bytes(a).len() == str_bytes(b).len() || (str_bytes(a).len() > 0 && str_bytes(a)[str_bytes(a).len() - 1] == 47u8) || str_bytes(b)[str_bytes(a).len() as int] == 47u8)
}
// trie-rs: a set of keys; common_prefix_search(q) yields exactly the stored keys that are BYTE prefixes of q, each once
pub mod trie_rs {
    use vstd::prelude::*;
    use super::*;
    pub struct Trie<T> { pub ghost keys: Set<Seq<char>>, pub _t: ::std::marker::PhantomData<T> }
    pub struct TrieBuilder<T> { pub ghost keys: Set<Seq<char>>, pub _t: ::std::marker::PhantomData<T> }
    impl<T> TrieBuilder<T> {
        #[verifier::external_body] pub fn new() -> (r: Self) ensures r.keys == Set::<Seq<char>>::empty() { unimplemented!() }
        #[verifier::external_body] pub fn push<K: PathLike>(&mut self, k: K) ensures final(self).keys == old(self).keys.insert(k.pview()) { unimplemented!() }
        #[verifier::external_body] pub fn build(self) -> (r: Trie<T>) ensures r.keys == self.keys { unimplemented!() }
    }
    impl<T> Trie<T> {
        // R12 target: the iterator returned by common_prefix_search, collected
        #[verifier::external_body] pub fn common_prefix_search_vec(&self, q: &str) -> (r: Vec<String>)
            ensures
                forall|i: int| 0 <= i < r@.len() ==> self.keys.contains(#[trigger] r@[i]@) && bp(r@[i]@, q@),
                forall|k: Seq<char>| self.keys.contains(k) && bp(k, q@) ==> exists|i: int| 0 <= i < r@.len() && #[trigger] r@[i]@ == k,
                forall|i: int, j: int| #![trigger r@[i], r@[j]] 0 <= i < j < r@.len() ==> r@[i]@ != r@[j]@,
        { unimplemented!() }
    }
}

// ---------------- directory listings and file names (unit file): one fixed snapshot during a call ----------------
pub uninterp spec fn dir_listing(dir: Seq<char>) -> Seq<Seq<char>>;      // paths of the entries of a readable directory
pub uninterp spec fn is_file_spec(p: Seq<char>) -> bool;
pub uninterp spec fn unreadable_dir(dir: Seq<char>) -> bool;
pub uninterp spec fn file_stem_of(p: Seq<char>) -> Option<Seq<char>>;   // Path::file_stem: the file name up to its LAST dot
// entry i of the directory is a regular file whose stem is the command name
pub open spec fn stem_hit(dir: Seq<char>, name: Seq<char>, i: int) -> bool {
    0 <= i < dir_listing(dir).len() && is_file_spec(dir_listing(dir)[i]) && file_stem_of(dir_listing(dir)[i]) == Some(name)
}
pub struct ReadDir { pub ghost dir: Seq<char> }
pub struct DirEntry { pub ghost p: Seq<char> }
pub struct OsStr { pub ghost s: Seq<char> }
impl ReadDir {
    // R12 target for `entries.flatten()`: the entries of the directory, each exactly once, in listing order
    #[verifier::external_body] pub fn flatten_vec(self) -> (r: Vec<DirEntry>)
        ensures r@.len() == dir_listing(self.dir).len(), forall|i: int| 0 <= i < r@.len() ==> (#[trigger] r@[i]).p == dir_listing(self.dir)[i] { unimplemented!() }
}
// a directory entry always has a final component
impl DirEntry { #[verifier::external_body] pub fn path(&self) -> (r: path::PathBuf) ensures r@ == self.p, file_name_of(r@) is Some { unimplemented!() } }
pub uninterp spec fn file_name_of(p: Seq<char>) -> Option<Seq<char>>;   // Path::file_name: the final component
pub uninterp spec fn utf8_name(n: Seq<char>) -> bool;                    // the OS string is valid UTF-8
pub uninterp spec fn is_dir_spec(p: Seq<char>) -> bool;
impl OsStr { #[verifier::external_body] pub fn to_str(&self) -> (r: Option<&str>) ensures (r is Some) == utf8_name(self.s), r matches Some(t) ==> t@ == self.s { unimplemented!() } }
impl ReadDir {
    // R12 target for `for e in dir.read_dir()?`: every entry once, in listing order, each possibly an error
    #[verifier::external_body] pub fn results_vec(self) -> (r: Vec<Result<DirEntry, std::io::Error>>)
        ensures r@.len() == dir_listing(self.dir).len(), forall|i: int| 0 <= i < r@.len() ==> ((#[trigger] r@[i]) matches Ok(e) ==> e.p == dir_listing(self.dir)[i]) { unimplemented!() }
}
// R12 target for `a == b` on &str
#[verifier::external_body] pub fn str_eq(a: &str, b: &str) -> (r: bool) ensures r == (a@ == b@) { unimplemented!() }
pub mod fs_dir {
    use vstd::prelude::*;
    use super::*;
    #[verifier::external_body] pub fn read_dir<P: PathLike + ?Sized>(p: &P) -> (r: Result<ReadDir, std::io::Error>) ensures r matches Ok(rd) ==> rd.dir == p.pview(), r is Err ==> unreadable_dir(p.pview()) { unimplemented!() }
}
impl path::Path {
    #[verifier::external_body] pub fn file_name(&self) -> (r: Option<&OsStr>) ensures (r is Some) == (file_name_of(self@) is Some), r matches Some(s) ==> Some(s.s) == file_name_of(self@) { unimplemented!() }
    #[verifier::external_body] pub fn is_dir(&self) -> (r: bool) ensures r == is_dir_spec(self@) { unimplemented!() }
    #[verifier::external_body] pub fn read_dir(&self) -> (r: Result<ReadDir, std::io::Error>) ensures r matches Ok(rd) ==> rd.dir == self@, r is Err ==> unreadable_dir(self@) { unimplemented!() }
    #[verifier::external_body] pub fn is_file(&self) -> (r: bool) ensures r == is_file_spec(self@) { unimplemented!() }
    #[verifier::external_body] pub fn file_stem(&self) -> (r: Option<&OsStr>) ensures (r is Some) == (file_stem_of(self@) is Some), r matches Some(s) ==> Some(s.s) == file_stem_of(self@) { unimplemented!() }
}
// R12 target for `stem == name` (OsStr == str)
#[verifier::external_body] pub fn os_eq(a: &OsStr, b: &str) -> (r: bool) ensures r == (a.s == b@) { unimplemented!() }

// ---------------- synchronous buffered reading, zstd decoding, stdout (log show) ----------------
pub uninterp spec fn zstd_dec(b: Seq<u8>) -> Seq<u8>;     // zstd: the decoded stream is a function of the file's bytes (round trip ASSUMED)
pub trait ByteSource { spec fn source_bytes(&self) -> Seq<u8>; }
impl ByteSource for fs::File { open spec fn source_bytes(&self) -> Seq<u8> { self.content } }
pub mod iox {
    use vstd::prelude::*;
    use super::*;
    pub struct BufReader<T> { pub ghost consumed: Seq<u8>, pub ghost rest: Seq<u8>, pub t: T }
    impl<T: ByteSource> BufReader<T> {
        #[verifier::external_body] pub fn new(t: T) -> (r: BufReader<T>) ensures r.consumed == Seq::<u8>::empty(), r.rest == t.source_bytes() { unimplemented!() }
        // std::io::BufRead::read_until: appends the bytes it consumed (up to and including the delimiter, or to the end); Ok(0) only at the end
        #[verifier::external_body] pub fn read_until(&mut self, d: u8, buf: &mut Vec<u8>) -> (res: Result<usize, std::io::Error>)
            ensures
                final(buf)@ == old(buf)@ + read_chunk(old(buf)@, final(buf)@),
                final(self).consumed == old(self).consumed + read_chunk(old(buf)@, final(buf)@),
                old(self).rest == read_chunk(old(buf)@, final(buf)@) + final(self).rest,
                res matches Ok(k) ==> read_chunk(old(buf)@, final(buf)@).len() == k && (k == 0 ==> old(self).rest.len() == 0),
        { unimplemented!() }
    }
    pub struct Stdout { pub x: u8 }
    #[verifier::external_body] pub fn stdout() -> Stdout { unimplemented!() }
    impl Stdout {
        #[verifier::external_body] pub fn write_all(&mut self, b: &[u8], Tracked(w): Tracked<&mut World>) -> (r: Result<(), std::io::Error>)
            ensures r is Ok ==> final(w).stdout_bytes == old(w).stdout_bytes + b@, final(w).fs == old(w).fs { unimplemented!() }
    }
}
impl<T: ByteSource> ByteSource for iox::BufReader<T> { open spec fn source_bytes(&self) -> Seq<u8> { self.rest } }
pub mod zstd { pub mod stream { pub mod read {
    use vstd::prelude::*;
    use super::super::super::*;
    pub struct Decoder<T> { pub ghost decoded: Seq<u8>, pub t: T }
    impl<T: ByteSource> Decoder<T> {
        #[verifier::external_body] pub fn new(t: T) -> (r: Result<Decoder<T>, std::io::Error>) ensures r matches Ok(d) ==> d.decoded == zstd_dec(t.source_bytes()) { unimplemented!() }
    }
} } }
// serde_json::from_reader over the zstd decoder: the value the decoded bytes denote
#[verifier::external_body] pub fn from_reader_dec<T, S>(d: &mut zstd::stream::read::Decoder<S>) -> (r: Result<T, serde_json::Error>)
    ensures r matches Ok(v) ==> json_parse::<T>(old(d).decoded) == Some(v) { unimplemented!() }
impl<T> ByteSource for zstd::stream::read::Decoder<T> { open spec fn source_bytes(&self) -> Seq<u8> { self.decoded } }
