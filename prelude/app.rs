// ==== prelude/app.rs: the shared ASSUMED world of the application-level units ====
// Every `external_body` item and every `uninterp spec fn` below is an assumed contract on something outside the
// verified text (std / tokio / serde_json / sha2 / trie-rs / the OS).  Type definitions inside `//!type` regions are
// extracted from /repo on every run (R9: attributes dropped).  Nothing here mentions repository *code*.
use std::{io, num, str};

#[verifier::external_type_specification] #[verifier::external_body] pub struct ExUtf8Error(std::str::Utf8Error);
#[verifier::external_type_specification] #[verifier::external_body] pub struct ExParseIntError(std::num::ParseIntError);

// R16 replaces every `format!(..)` by this call: an arbitrary string (formatting has no other effect)
#[verifier::external_body] pub fn fmt_opaque() -> (r: String) { unimplemented!() }

pub mod serde_json {
    use vstd::prelude::*;
    pub mod error { pub struct Error { pub x: u8 } }
    pub use error::Error;
}
pub mod tokio {
    pub mod task { pub struct JoinError { pub x: u8 } }
}
pub mod server {
    use vstd::prelude::*;
    pub struct ServerError { pub x: u8 }
//!type src/core/server.rs LogServerConfig
pub(crate) struct LogServerConfig {
    pub(crate) host: String,
    pub(crate) port: usize,
    pub(crate) bind_timeout_ms: u64,
}
//!end
//!type src/core/server.rs LockServerConfig
pub(crate) struct LockServerConfig {
    pub(crate) host: String,
    pub(crate) port: usize,
    pub(crate) bind_timeout_ms: u64,
}
//!end
}
pub mod graph {
    use vstd::prelude::*;
//!type src/core/graph.rs GraphError
pub enum GraphError {
    DotFileIo(std::io::Error),
    LabelNotFound(usize),
    Cycle(usize, String),
    Connected,
    DuplicateLabel(String),
    LabelNodeNotFound(String),
}
//!end
}

//!type src/core/error.rs MonorailError
pub enum MonorailError {
    Generic(String),
    Git(String),
    Io(io::Error),
    PathDNE(String),
    SerdeJSON(serde_json::error::Error),
    Utf8(str::Utf8Error),
    ParseInt(num::ParseIntError),
    Graph(graph::GraphError),
    Join(tokio::task::JoinError),
    TrackingCheckpointNotFound(io::Error),
    TrackingRunNotFound(io::Error),
    MissingArg(String),
    TaskCancelled,
    ChannelSend(String),
    ChannelRecv(String),
    Server(server::ServerError),
}
//!end
// conversions used by `?` — mirror core/error.rs (ASSUMED: not extracted)
impl From<graph::GraphError> for MonorailError { #[verifier::external_body] fn from(error: graph::GraphError) -> (r: Self) ensures r is Graph { MonorailError::Graph(error) } }
impl From<String> for MonorailError { #[verifier::external_body] fn from(error: String) -> (r: Self) ensures r is Generic { MonorailError::Generic(error) } }
impl From<&str> for MonorailError { #[verifier::external_body] fn from(error: &str) -> (r: Self) ensures r is Generic { unimplemented!() } }
impl From<std::io::Error> for MonorailError { #[verifier::external_body] fn from(error: std::io::Error) -> (r: Self) ensures r is Io { MonorailError::Io(error) } }
impl From<serde_json::error::Error> for MonorailError { #[verifier::external_body] fn from(error: serde_json::error::Error) -> (r: Self) ensures r is SerdeJSON { MonorailError::SerdeJSON(error) } }

// ---------------- paths: a path is its string ----------------
pub uninterp spec fn path_join(a: Seq<char>, b: Seq<char>) -> Seq<char>;
pub trait PathLike { spec fn pview(&self) -> Seq<char>; }
impl PathLike for String { open spec fn pview(&self) -> Seq<char> { self@ } }
impl PathLike for str { open spec fn pview(&self) -> Seq<char> { self@ } }
impl<'a, T: PathLike + ?Sized> PathLike for &'a T { open spec fn pview(&self) -> Seq<char> { (**self).pview() } }
pub mod path {
    use vstd::prelude::*;
    use super::*;
    pub struct Path { pub s: String }
    pub struct PathBuf { pub s: String }
    impl View for Path { type V = Seq<char>; open spec fn view(&self) -> Seq<char> { self.s@ } }
    impl View for PathBuf { type V = Seq<char>; open spec fn view(&self) -> Seq<char> { self.s@ } }
    impl PathLike for Path { open spec fn pview(&self) -> Seq<char> { self@ } }
    impl PathLike for PathBuf { open spec fn pview(&self) -> Seq<char> { self@ } }
    impl Path {
        #[verifier::external_body] pub fn new<'a, S: PathLike + ?Sized>(s: &'a S) -> (r: &'a Path) ensures r@ == s.pview() { unimplemented!() }
        #[verifier::external_body] pub fn display(&self) -> (r: String) { unimplemented!() }
        #[verifier::external_body] pub fn join<S: PathLike>(&self, rel: S) -> (r: PathBuf) ensures r@ == path_join(self@, rel.pview()) { unimplemented!() }
        #[verifier::external_body] pub fn to_path_buf(&self) -> (r: PathBuf) ensures r@ == self@ { unimplemented!() }
    }
    impl std::ops::Deref for PathBuf { type Target = Path;
        #[verifier::external_body] fn deref(&self) -> (r: &Path) ensures r@ == self@ { unimplemented!() } }
}

// ---------------- configuration data types (extracted) ----------------
//!type src/core/mod.rs ChangeProviderKind
pub(crate) enum ChangeProviderKind {
    Git,
}
//!end
//!type src/core/mod.rs ChangeProvider
pub(crate) struct ChangeProvider {
    pub(crate) r#use: ChangeProviderKind,
}
//!end
//!type src/core/mod.rs AlgorithmKind
pub(crate) enum AlgorithmKind {
    Sha256,
}
//!end
//!type src/core/mod.rs ConfigSource
pub(crate) struct ConfigSource {
    pub(crate) path: String,
    pub(crate) algorithm: Option<AlgorithmKind>,
    pub(crate) checksum: Option<String>,
}
//!end
//!type src/core/mod.rs ServerConfig
pub(crate) struct ServerConfig {
    pub(crate) log: server::LogServerConfig,
    pub(crate) lock: server::LockServerConfig,
}
//!end
//!type src/core/mod.rs FileDefinition
pub(crate) struct FileDefinition {
    pub(crate) path: String,
}
//!end
//!type src/core/mod.rs TargetCommands
pub(crate) struct TargetCommands {
    pub(crate) path: Option<String>,
    pub(crate) definitions: Option<HashMap<String, FileDefinition>>,
}
//!end
//!type src/core/mod.rs TargetArgMaps
pub(crate) struct TargetArgMaps {
    pub(crate) path: Option<String>,
    pub(crate) definitions: Option<HashMap<String, FileDefinition>>,
}
//!end
//!type src/core/mod.rs Target
pub(crate) struct Target {
    pub(crate) path: String,
    pub(crate) uses: Option<Vec<String>>,
    pub(crate) ignores: Option<Vec<String>>,
    pub(crate) commands: TargetCommands,
    pub(crate) argmaps: TargetArgMaps,
}
//!end
//!type src/core/mod.rs Config
pub(crate) struct Config {
    pub(crate) source: Option<ConfigSource>,
    pub(crate) out_dir: String,
    pub(crate) max_retained_runs: usize,
    pub(crate) change_provider: ChangeProvider,
    pub(crate) targets: Vec<Target>,
    pub(crate) sequences: Option<HashMap<String, Vec<String>>>,
    pub(crate) server: ServerConfig,
    pub(crate) checksum: String,
}
//!end
//!type src/core/mod.rs ConfigLockfile
pub(crate) struct ConfigLockfile {
    pub(crate) checksum: String,
}
//!end
