// ---- prelude/fmt.rs: R16 replaces every `format!(..)` by this call: an arbitrary string (ASSUMED: formatting has no other effect) ----
#[verifier::external_body] pub fn fmt_opaque() -> (r: String) { unimplemented!() }
