// ==== prelude/run_world.rs: ASSUMED contracts for process execution (tokio::task / process / thread), unit runexec ====
// Events are appended to the ghost trace only by these stubs.  Start{c,g,t}: the OS process of task t of group g of
// command c has been started; Exit{c,g,t}: its task has been joined (the process and its log readers have finished).
// The coordinates (c, g) are the ghost fields w.cur_c / w.cur_g, assigned by spliced proof statements in process_plan.
// C15: the cause of an error value.  from_listener(e): e was produced by the optional log listener's connection (connect / handshake /
// write to the listener socket).  Every other assumed producer of errors in this unit states !from_listener; the listener's own stubs
// state nothing, so their errors may be of either kind.
pub uninterp spec fn from_listener(e: MonorailError) -> bool;
pub mod time {
    use vstd::prelude::*;
    pub struct Instant { pub x: u8 }
    pub struct Duration { pub x: u8 }
    impl Instant {
        #[verifier::external_body] pub fn now() -> Instant { unimplemented!() }
        #[verifier::external_body] pub fn elapsed(&self) -> Duration { unimplemented!() }
    }
    impl Duration { #[verifier::external_body] pub fn as_secs_f32(&self) -> f32 { unimplemented!() } }
}
pub mod process {
    use vstd::prelude::*;
    pub struct ExitStatus { pub x: u8 }
    impl ExitStatus {
        pub uninterp spec fn ok(&self) -> bool;               // the process ran to completion with exit code 0
        pub uninterp spec fn code_spec(&self) -> Option<i32>;
        #[verifier::external_body] pub fn success(&self) -> (r: bool) ensures r == self.ok() { unimplemented!() }
        #[verifier::external_body] pub fn code(&self) -> (r: Option<i32>) ensures r == self.code_spec(), self.ok() ==> r == Some(0i32) { unimplemented!() }
    }
}
pub mod tokio_process { pub struct Child { pub x: u8 } }
impl KeyV for tokio::task::Id { type KV = int; open spec fn kv(&self) -> int { self.i } }
pub mod thread {
    use vstd::prelude::*;
    use super::*;
    pub struct JoinHandle<T> { pub t: ::std::marker::PhantomData<T> }
    pub struct ThreadResult<T> { pub t: T }
    impl<T> ThreadResult<T> {
        pub uninterp spec fn val(&self) -> T;
        #[verifier::external_body] pub fn unwrap(self) -> (r: T) ensures r == self.val() { unimplemented!() } }
    impl<T> JoinHandle<T> {
        pub uninterp spec fn will(&self) -> T;                // what the thread's closure returns
        #[verifier::external_body] pub fn join(self) -> (r: ThreadResult<T>) ensures r.val() == self.will() { unimplemented!() } }
    // R12: `thread::spawn(move || compressor.run())`.  ASSUMED (Compressor::run, not verified): its errors are archive-file / channel
    // errors, never the log listener's
    #[verifier::external_body] pub fn spawn_compressor_run(c: log::Compressor) -> (h: JoinHandle<Result<(), MonorailError>>)
        ensures h.will() matches Err(e) ==> !from_listener(e) { unimplemented!() }
}
