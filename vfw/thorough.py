"""thorough tier: vacuity canaries, solver-seed stability, run-time cross-checks (finders), Kani kernels."""
import os
import re

import unit as U
import finders


def canary_variants(b, scratch):
    """one variant per extracted function with an `ensures`: `false` becomes an additional postcondition of that
    function ONLY (callers of a canaried function would otherwise verify vacuously); each variant must FAIL"""
    outs = []
    for (label, a, z, props, exact) in b.regions:
        info = [f for f in b.functions if f["item"] == label][0]
        if info["kind"] != "fn":
            continue
        lines = list(b.lines)
        hit = False
        for i in range(a - 1, z):
            ln = lines[i]
            if ln.lstrip().startswith(splice_tag()) and re.search(r"\bensures\b", ln.split("//")[0]):
                lines[i] = re.sub(r"\bensures\b", "ensures false,", ln, count=1)
                hit = True
                break
        if not hit:
            continue
        c = U.Built()
        c.__dict__.update(b.__dict__)
        c.lines = lines
        c.text = "\n".join(lines) + "\n"
        c.path = os.path.join(scratch, "%s_canary_%d.rs" % (b.unit.replace("-", "_"), len(outs)))
        with open(c.path, "w", encoding="utf-8") as fh:
            fh.write(c.text)
        outs.append((label, c))
    return outs


def module_path(b, label):
    """the `mod` nesting of an extracted region in the emitted file (Verus' --verify-function needs the module)"""
    start = [a for (l, a, z, props, exact) in b.regions if l == label][0]
    stack, depth = [], 0
    for ln in b.lines[:start - 1]:
        code = ln.split("//")[0]
        m = re.search(r"\bmod\s+(\w+)\s*\{", code)
        opens, closes = code.count("{"), code.count("}")
        if m:
            stack.append((m.group(1), depth))
        depth += opens - closes
        while stack and depth <= stack[-1][1]:
            stack.pop()
    return [n for n, d in stack]


def splice_tag():
    import splice
    return splice.LTAG


def run(b, scratch, pid, seed, failures):
    out = {"undecided": [], "violations": []}
    # 1. vacuity canaries (one Verus run per function, in parallel)
    from concurrent.futures import ThreadPoolExecutor
    variants = canary_variants(b, scratch)

    def one(lc):
        label, c = lc
        name = label
        if "#" in label:
            # a lifted closure: the function is named in the unit's `lift` header
            hdr = (getattr(b, "cfg", {}) or {}).get("lift", {}).get(label, {}).get("header", "")
            m = re.search(r"\bfn\s+(\w+)", hdr)
            name = m.group(1) if m else label.split("#")[0]
        mods = module_path(b, label)
        # inside a nested module Verus' --verify-function does not find the function: the whole (small) module is verified instead
        r = U.run_verus(c, extra=(["--verify-module", "::".join(mods)] if mods else ["--verify-root", "--verify-function", "*" + name]))
        vr = (r["json"] or {}).get("verification-results") or {}
        raw = " ".join(r.get("raw", [])) + " ".join(d.get("message", "") for d in r.get("diags", []))
        if "could not find function" in raw or "more than one" in raw or not vr:
            return label, None, vr
        return label, vr.get("errors", 0) > 0, vr

    vacuous, notrun = [], []
    with ThreadPoolExecutor(max_workers=8) as ex:
        for label, failed, vr in ex.map(one, variants):
            if failed is None:
                notrun.append(label)
            elif not failed:
                vacuous.append(label)
    out["canaries"] = {"functions": len(variants), "refuted_as_expected": len(variants) - len(vacuous) - len(notrun), "vacuous": vacuous, "canary_could_not_be_run": notrun,
                       "meaning": "`ensures false` added to one function at a time must be refuted; a pass would mean contradictory preconditions/invariants or an unreachable exit"}
    if vacuous and not failures:
        out["undecided"].append("vacuous contract (ensures false verifies) for: %s" % ", ".join(vacuous))
    # 2. stability under two further solver seeds
    stab = []
    for k in (1, 2):
        s = (seed * 7919 + k * 104729) % 1000003
        r = U.run_verus(b, seed=s)
        f2, u2 = U.classify(b, r)
        stab.append({"random_seed": s, "failures": [f["obligation"] for f in f2], "undecided": u2})
        if not failures and (f2 or u2):
            out["undecided"].append("proof not stable under z3 random_seed=%d: %s" % (s, [f["obligation"] for f in f2] + u2))
    out["stability"] = stab
    # 3. run-time cross-check of the contract on the real compiled code
    if b.unit == "graph":
        try:
            exe = finders.build_graph_finder(scratch)
            r1 = finders.run_graph_finder(exe, ["all", "4"])
            r2 = finders.run_graph_finder(exe, ["random", str(seed + 1), "30000", "40"])
            out["cross_check"] = {"exhaustive_n<=4": {k: r1[k] for k in ("checked", "nontrivial", "bad")}, "random_n<=40": {k: r2[k] for k in ("checked", "nontrivial", "bad")},
                                  "label": "bounded / sampled run-time check, NOT counted as proved"}
            for r in (r1, r2):
                for f in r["failures"][:1]:
                    out["violations"].append({"obligation": "graph/executable-contract (run-time cross-check): " + f["why"], "unit": "graph", "fn": "Dag", "kind": "runtime", "message": f["why"],
                                              "clause": f["why"], "at": f["case"], "spans": [], "input": {"case": f["case"], "rerun": "./check --replay-graph-case '%s'" % f["case"]}, "props": ["C03", "C09"]})
        except Exception as e:
            out["cross_check"] = {"error": str(e)}
    return out
