"""thorough tier: vacuity canaries, solver-seed stability, run-time cross-checks (finders), Kani kernels."""
import os
import re

import unit as U
import finders


def canary_variant(b, scratch):
    """every extracted function with an `ensures` gets `false` as an additional postcondition; each must FAIL"""
    lines = list(b.lines)
    targets = []
    for (label, a, z, props, exact) in b.regions:
        info = [f for f in b.functions if f["item"] == label][0]
        if info["kind"] != "fn":
            continue
        for i in range(a - 1, z):
            ln = lines[i]
            if ln.lstrip().startswith(splice_tag()) and re.search(r"\bensures\b", ln.split("//")[0]):
                lines[i] = re.sub(r"\bensures\b", "ensures false,", ln, count=1)
                targets.append(label)
                break
            if ln.lstrip().startswith("{") and not ln.lstrip().startswith(splice_tag()):
                break
    c = U.Built()
    c.__dict__.update(b.__dict__)
    c.lines = lines
    c.text = "\n".join(lines) + "\n"
    c.path = os.path.join(scratch, b.unit.replace("-", "_") + "_canary.rs")
    with open(c.path, "w", encoding="utf-8") as fh:
        fh.write(c.text)
    return c, targets


def splice_tag():
    import splice
    return splice.LTAG


def run(b, scratch, pid, seed, failures):
    out = {"undecided": [], "violations": []}
    # 1. vacuity canaries
    c, targets = canary_variant(b, scratch)
    res = U.run_verus(c)
    fb = U.function_breakdown(res, c)
    failed_fns = set(x["function"].split("::")[-1] for x in fb if x["success"] is False)
    vacuous = []
    for label in targets:
        nm = label.split("::")[-1]
        if nm not in failed_fns:
            vacuous.append(label)
    out["canaries"] = {"functions": len(targets), "refuted_as_expected": len(targets) - len(vacuous), "vacuous": vacuous}
    if vacuous and not failures:
        out["undecided"].append("vacuous contract (ensures false verifies) for: %s" % ", ".join(vacuous))
    # 2. stability under two further solver seeds
    stab = []
    for k in (1, 2):
        s = (seed * 7919 + k * 104729) % 1000003
        r = U.run_verus(b, seed=s)
        f2, u2 = U.classify(b, r)
        stab.append({"random_seed": s, "failures": [f["obligation"] for f in f2], "undecided": u2})
        if not failures and (f2 or u2):
            out["undecided"].append("proof not stable under z3 random_seed=%d: %s" % (s, [f["obligation"] for f in f2] + u2))
    out["stability"] = stab
    # 3. run-time cross-check of the contract on the real compiled code
    if b.unit == "graph":
        try:
            exe = finders.build_graph_finder(scratch)
            r1 = finders.run_graph_finder(exe, ["all", "4"])
            r2 = finders.run_graph_finder(exe, ["random", str(seed + 1), "30000", "40"])
            out["cross_check"] = {"exhaustive_n<=4": {k: r1[k] for k in ("checked", "nontrivial", "bad")}, "random_n<=40": {k: r2[k] for k in ("checked", "nontrivial", "bad")},
                                  "label": "bounded / sampled run-time check, NOT counted as proved"}
            for r in (r1, r2):
                for f in r["failures"][:1]:
                    out["violations"].append({"obligation": "graph/executable-contract (run-time cross-check): " + f["why"], "unit": "graph", "fn": "Dag", "kind": "runtime", "message": f["why"],
                                              "clause": f["why"], "at": f["case"], "spans": [], "input": {"case": f["case"], "rerun": "./check --replay-graph-case '%s'" % f["case"]}, "props": ["C03", "C09"]})
        except Exception as e:
            out["cross_check"] = {"error": str(e)}
    return out
