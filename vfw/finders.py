"""Bounded replay finders: run the REAL compiled code against the executable form of a unit's contract.
Never the deciding step: they attach a concrete failing input to a violation, and in `thorough` cross-check that
the contract proved about the extracted text also holds at run time on the compiled original."""
import json
import os
import time
import re
import subprocess

import unit as U


def build_graph_finder(scratch):
    src = open(os.path.join(U.VERIF, "units", "graph", "finder.rs"), encoding="utf-8").read()
    src = src.replace("@GRAPH_RS@", os.path.join(U.REPO, "src", "core", "graph.rs"))
    p = os.path.join(scratch, "graph_finder.rs")
    with open(p, "w", encoding="utf-8") as fh:
        fh.write(src)
    exe = os.path.join(scratch, "graph_finder")
    r = subprocess.run(["rustc", "--edition", "2021", "-O", "-A", "warnings", "-o", exe, p], capture_output=True, text=True, timeout=300)
    if r.returncode != 0:
        raise RuntimeError("rustc failed on the graph finder: " + r.stderr[-400:])
    return exe


def run_graph_finder(exe, args, timeout=600):
    r = subprocess.run([exe] + args, capture_output=True, text=True, timeout=timeout)
    fails = re.findall(r"^FAIL case=(\S+) why=(.*)$", r.stdout, re.M)
    m = re.search(r"checked=(\d+) nontrivial=(\d+) bad=(\d+)", r.stdout)
    return {"args": args, "checked": int(m.group(1)) if m else 0, "nontrivial": int(m.group(2)) if m else 0, "bad": int(m.group(3)) if m else -1,
            "failures": [{"case": c, "why": w} for c, w in fails], "rc": r.returncode}


def graph_finder(scratch, failure):
    exe = build_graph_finder(scratch)
    res = run_graph_finder(exe, ["all", "4"])
    out = {"finder": "units/graph/finder.rs: every digraph on <= 4 nodes x every root list of size <= 2, real core/graph.rs compiled with rustc", "result": res}
    if res["failures"]:
        c = res["failures"][0]
        out["input"] = {"case": c["case"], "format": "<n>;<adjacency rows separated by |>;<roots>", "why": c["why"],
                        "rerun": "./check --replay-graph-case '%s'" % c["case"]}
    return out


CRATE_FINDERS = {
    # unit -> (host source file whose child module the finder becomes, finder test file)
    "runplan": ("src/app/run.rs", "units/runplan/finder_test.rs"),
    "log": ("src/app/log.rs", "units/log/finder_test.rs"),
    "tracking": ("src/core/tracking.rs", "units/tracking/finder_test.rs"),
    "config": ("src/core/mod.rs", "units/config/finder_test.rs"),
    "index": ("src/core/mod.rs", "units/index/finder_test.rs"),
    "analyze": ("src/app/analyze.rs", "units/analyze/finder_test.rs"),
    "runexec": ("src/app/run.rs", "units/runexec/finder_test.rs"),
    "file": ("src/core/file.rs", "units/file/finder_test.rs"),
    "lock": ("src/core/server.rs", "units/lock/finder_test.rs"),
    "plan": ("src/app/run.rs", "units/plan/finder_test.rs"),
    "checkpoint": ("src/app/analyze.rs", "units/checkpoint/finder_test.rs"),
    "git": ("src/core/git.rs", "units/git/finder_test.rs"),
    "runhandle": ("src/app/run.rs", "units/runhandle/finder_test.rs"),
}
# further finders of a unit (integration tests driving the binary)
EXTRA_FINDERS = {"log": [("tests/", "units/log/finder_show_test.rs"), ("tests/", "units/log/finder_tail_test.rs")], "config": [("tests/", "units/config/finder_generate_test.rs")],
                 "tracking": [("src/app/run.rs", "units/tracking/finder_setup_test.rs"), ("src/app/analyze.rs", "units/checkpoint/finder_test.rs")]}
# units whose only finder is an integration test
CRATE_FINDERS["cli"] = ("tests/", "units/cli/finder_outdelete_test.rs")
CRATE_FINDERS["show"] = ("tests/", "units/show/finder_test.rs")
CACHE = os.path.join(U.VERIF, ".cache")


def _sync_mtimes(dst, cache_dir):
    """cargo decides freshness by mtime.  The scratch copy keeps /repo's mtimes (rsync -a), so a file whose CONTENT differs from what
    the shared target directory was last built from, but whose mtime is old (a tree restored from a snapshot, another tree given through
    VERIF_REPO, a host file that carried another unit's finder last time), would be taken for unchanged and a stale binary would be
    tested.  Every file whose content differs from the last build's content is therefore touched; identical files keep their mtimes."""
    import hashlib
    man_path = os.path.join(cache_dir, "src_manifest.json")
    try:
        with open(man_path) as fh:
            old = json.load(fh)
    except Exception:
        old = {}
    new = {}
    now = time.time()
    for root, dirs, files in os.walk(dst):
        dirs[:] = [d for d in dirs if d not in ("target", ".git")]
        for fn in files:
            p = os.path.join(root, fn)
            rel = os.path.relpath(p, dst)
            try:
                with open(p, "rb") as fh:
                    h = hashlib.sha256(fh.read()).hexdigest()
            except OSError:
                continue
            new[rel] = h
            if old.get(rel) != h:
                os.utime(p, (now, now))
    if set(old) - set(new):
        # something the last build saw is gone: make the manifest of the crate look changed as well
        os.utime(os.path.join(dst, "Cargo.toml"), (now, now))
    with open(man_path, "w") as fh:
        json.dump(new, fh)


def run_crate_finder(unit_name, scratch, only=None, spec=None):
    """append the unit's finder module to a scratch copy of /repo and run it with `cargo test` (real compiled code)"""
    import fcntl
    import shutil
    spec = spec or CRATE_FINDERS[unit_name]
    host, test = spec
    dst = os.path.join(scratch, "crate_" + unit_name)
    tdir = os.path.join(CACHE, "target-finder")
    os.makedirs(tdir, exist_ok=True)
    lock = open(os.path.join(CACHE, "finder.lock"), "w")
    fcntl.flock(lock, fcntl.LOCK_EX)   # one finder build/run at a time: the target directory and its source manifest are shared
    try:
        if os.path.exists(dst):
            shutil.rmtree(dst)
        subprocess.run(["rsync", "-a", "--exclude", "target", "--exclude", ".git", U.REPO + "/", dst + "/"], check=True)
        tpath = os.path.join(U.VERIF, test)
        env = dict(os.environ, CARGO_TARGET_DIR=tdir, CARGO_NET_OFFLINE="true")
        if host == "tests/":
            # an integration test that drives the real binary
            os.makedirs(os.path.join(dst, "tests"), exist_ok=True)
            tname = "verif_%s_%s" % (unit_name, os.path.basename(test)[:-3])
            shutil.copy(tpath, os.path.join(dst, "tests", tname + ".rs"))
            cmd = ["cargo", "test", "--offline", "--test", tname] + ([only] if only else []) + ["--", "--nocapture", "--test-threads", "1"]
        else:
            # the finder becomes a child module of the host file (it sees the private items); the module file sits next to the host
            shutil.copy(tpath, os.path.join(dst, os.path.dirname(host), "verif_finder_mod.rs"))
            with open(os.path.join(dst, host), "a", encoding="utf-8") as fh:
                fh.write('\n#[cfg(test)]\n#[path = "verif_finder_mod.rs"]\nmod verif_finder;\n')
            cmd = ["cargo", "test", "--offline", "--lib", "verif_finder::" + (only or "vf_"), "--", "--nocapture", "--test-threads", "1"]
        _sync_mtimes(dst, tdir)
        r = subprocess.run(cmd, cwd=dst, env=env, capture_output=True, text=True, timeout=1800)
    finally:
        fcntl.flock(lock, fcntl.LOCK_UN)
        lock.close()
    fails = re.findall(r"VF-FAIL (.*?) :: (.*)$", r.stdout, re.M)
    sums = re.findall(r"VF-SUMMARY test=(\S+) checked=(\d+) nontrivial=(\d+) bad=(\d+)", r.stdout, re.M)
    built = "Running unittests" in r.stderr or "running " in r.stdout
    panics = re.findall(r"^test (\S+) \.\.\. FAILED", r.stdout, re.M)
    shutil.rmtree(dst, ignore_errors=True)
    # every `vf_` test must have reported a summary: a test that aborted the process (stack overflow, abort) leaves none, and the tests
    # after it never ran - that is a harness failure, never "nothing found"
    try:
        with open(tpath, encoding="utf-8") as fh:
            declared = re.findall(r"\bfn\s+(vf_\w+)\s*\(\s*\)", fh.read())
    except OSError:
        declared = []
    if built and not only and len(sums) < len(declared):
        done = set(t for t, *_ in sums)
        panics = panics + ["%s (no summary: the test did not finish - aborted?)" % d for d in declared if d[3:] not in done and not any(d in x for x in panics)]
    return {"cmd": " ".join(cmd), "built": built, "build_error": None if built else r.stderr[-600:],
            "summaries": [{"test": t, "checked": int(c), "nontrivial": int(n), "bad": int(b)} for t, c, n, b in sums],
            "failures": [{"case": c, "why": w} for c, w in fails], "panicked_tests": panics}


def crate_finder(unit_name):
    def f(scratch, failure):
        res = run_crate_finder(unit_name, scratch)
        for extra in EXTRA_FINDERS.get(unit_name, []):
            r2 = run_crate_finder(unit_name, scratch, spec=extra)
            res["summaries"] += r2["summaries"]
            res["failures"] += r2["failures"]
            res["panicked_tests"] += r2["panicked_tests"]
            res["built"] = res["built"] and r2["built"]
            res["build_error"] = res["build_error"] or r2["build_error"]
        out = {"finder": "%s appended to a scratch copy of the crate as a child module of %s; `cargo test`; real compiled functions against the executable contract (bounded enumeration)" % (CRATE_FINDERS[unit_name][1], CRATE_FINDERS[unit_name][0]), "result": res}
        if res["failures"]:
            c = res["failures"][0]
            out["input"] = {"case": c["case"], "why": c["why"], "rerun": "./check --run-finder %s" % unit_name}
        return out
    return f


FINDERS = {"graph": graph_finder}
for _u in CRATE_FINDERS:
    FINDERS[_u] = crate_finder(_u)
