"""Bounded replay finders: run the REAL compiled code against the executable form of a unit's contract.
Never the deciding step: they attach a concrete failing input to a violation, and in `thorough` cross-check that
the contract proved about the extracted text also holds at run time on the compiled original."""
import os
import re
import subprocess

import unit as U


def build_graph_finder(scratch):
    src = open(os.path.join(U.VERIF, "units", "graph", "finder.rs"), encoding="utf-8").read()
    src = src.replace("@GRAPH_RS@", os.path.join(U.REPO, "src", "core", "graph.rs"))
    p = os.path.join(scratch, "graph_finder.rs")
    with open(p, "w", encoding="utf-8") as fh:
        fh.write(src)
    exe = os.path.join(scratch, "graph_finder")
    r = subprocess.run(["rustc", "--edition", "2021", "-O", "-A", "warnings", "-o", exe, p], capture_output=True, text=True, timeout=300)
    if r.returncode != 0:
        raise RuntimeError("rustc failed on the graph finder: " + r.stderr[-400:])
    return exe


def run_graph_finder(exe, args, timeout=600):
    r = subprocess.run([exe] + args, capture_output=True, text=True, timeout=timeout)
    fails = re.findall(r"^FAIL case=(\S+) why=(.*)$", r.stdout, re.M)
    m = re.search(r"checked=(\d+) nontrivial=(\d+) bad=(\d+)", r.stdout)
    return {"args": args, "checked": int(m.group(1)) if m else 0, "nontrivial": int(m.group(2)) if m else 0, "bad": int(m.group(3)) if m else -1,
            "failures": [{"case": c, "why": w} for c, w in fails], "rc": r.returncode}


def graph_finder(scratch, failure):
    exe = build_graph_finder(scratch)
    res = run_graph_finder(exe, ["all", "4"])
    out = {"finder": "units/graph/finder.rs: every digraph on <= 4 nodes x every root list of size <= 2, real core/graph.rs compiled with rustc", "result": res}
    if res["failures"]:
        c = res["failures"][0]
        out["input"] = {"case": c["case"], "format": "<n>;<adjacency rows separated by |>;<roots>", "why": c["why"],
                        "rerun": "./check --replay-graph-case '%s'" % c["case"]}
    return out


FINDERS = {"graph": graph_finder}
