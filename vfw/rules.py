"""Rewrite rules (DESIGN.md section 3).  Each rule works on the token stream of one extracted item,
edits the text, and logs every application.  Anything a rule meets that is outside its stated
shape raises RuleError (the unit becomes undecided, exit 2)."""
import re
from rscan import tokenize, match_brackets, ScanError


class RuleError(Exception):
    pass


class Frag:
    """a piece of source text with edit support"""

    def __init__(self, text, origin=""):
        self.text = text
        self.origin = origin
        self.log = []
        self.retok()

    def retok(self):
        self.code = tokenize(self.text)
        self.br = match_brackets(self.code)

    def apply(self, edits, rule):
        for (a, b, rep) in sorted(edits, key=lambda e: (-e[0], -e[1])):
            self.log.append({"rule": rule, "at": self.origin, "before": " ".join(self.text[a:b].split())[:120], "after": " ".join(rep.split())[:120]})
            self.text = self.text[:a] + rep + self.text[b:]
        self.retok()

    def tok_text(self, a, b):
        """source text of code tokens a..b inclusive"""
        return self.text[self.code[a].pos:self.code[b].end]


TRACING = {"trace!", "debug!", "info!", "warn!", "error!"}
_SIDE_EFFECT_FREE = re.compile(r"^[\w\s\.\,\:\&\*\(\)\"\'\{\}\?\=\%\#\[\]\-\>\<\!/\\\+\|;@$^~`]*$")


def _macro_args_pure(f, o, c):
    """arguments of a dropped logging macro must not call anything but field reads / .as_str() / .len() / .display() / to_string"""
    k = o + 1
    while k < c:
        t = f.code[k]
        if t.kind == "macro":
            return False
        if t.kind == "ident" and k + 1 < c and f.code[k + 1].text == "(" and f.code[k - 1].text == ".":
            if t.text not in ("as_str", "len", "display", "to_string", "clone", "as_ref", "to_str", "unwrap_or", "unwrap_or_default", "iter", "is_some", "is_none", "as_deref", "to_string_lossy", "id", "code", "join", "address", "as_secs_f32", "elapsed", "as_millis"):
                return False
        if t.text in ("=", "+=", "-=") and f.code[k - 1].kind == "ident" and f.code[k + 1].text != "=" and f.code[k - 1].text not in ():
            # `name = expr` is the tracing field syntax; allowed
            pass
        k += 1
    return True


def r1_drop_tracing(f):
    """R1: drop tracing macro statements and #[instrument]/#[allow] attributes"""
    edits = []
    c = f.code
    for i, t in enumerate(c):
        if t.kind == "macro" and t.text in TRACING and c[i + 1].text in ("(", "[", "{"):
            # `tracing::debug!(..)`: the path-qualified form of the same macro
            if i > 1 and c[i - 1].text == "::" and c[i - 2].text == "tracing":
                first = c[i - 2]
                prev = c[i - 3].text if i > 2 else "{"
            else:
                first = t
                prev = c[i - 1].text if i > 0 else "{"
            if prev not in ("{", "}", ";", "=>"):
                raise RuleError("R1: logging macro in expression position at line %d" % t.line)
            close = f.br[i + 1]
            if not _macro_args_pure(f, i + 1, close):
                raise RuleError("R1: logging macro with possibly effectful argument at line %d" % t.line)
            end = c[close].end
            if close + 1 < len(c) and c[close + 1].text == ";":
                end = c[close + 1].end
            elif prev == "=>":
                # match arm whose whole body is a logging call: keep a unit value
                edits.append((first.pos, end, "()"))
                continue
            edits.append((first.pos, end, ""))
        if t.text == "#" and c[i + 1].text == "[":
            close = f.br[i + 1]
            name = c[i + 2].text
            if name in ("instrument", "allow") or (name == "tracing" and c[i + 4].text == "instrument"):
                edits.append((t.pos, c[close].end, ""))
    if edits:
        f.apply(edits, "R1")


def loop_keywords(f):
    return [i for i, t in enumerate(f.code) if t.kind == "ident" and t.text in ("for", "while", "loop") and not (i > 0 and f.code[i - 1].text in ("impl", "'")) and not _is_hrtb(f, i)]


def _is_hrtb(f, i):
    return f.code[i].text == "for" and i + 1 < len(f.code) and f.code[i + 1].text == "<"


def for_parts(f, i):
    """for PAT in EXPR { BODY } -> (pat_a, pat_b, expr_a, expr_b, body_open, body_close) as code indices"""
    c = f.code
    j = i + 1
    depth = 0
    while not (c[j].kind == "ident" and c[j].text == "in" and depth == 0):
        if c[j].text in ("(", "[", "{"):
            depth += 1
        if c[j].text in (")", "]", "}"):
            depth -= 1
        j += 1
    k = j + 1
    depth = 0
    while True:
        if c[k].text == "{" and depth == 0:
            break
        if c[k].text in ("(", "["):
            depth += 1
        if c[k].text in (")", "]"):
            depth -= 1
        k += 1
    return i + 1, j - 1, j + 1, k - 1, k, f.br[k]


def r3_r4_for_heads(f):
    """R3: `for (i, x) in E.iter().enumerate()` / `for x in E.iter().rev()`;  R4: reference patterns in for heads"""
    changed = True
    while changed:
        changed = False
        c = f.code
        for i in loop_keywords(f):
            if c[i].text != "for":
                continue
            pa, pb, ea, eb, bo, bc = for_parts(f, i)
            pat = f.tok_text(pa, pb)
            expr = f.tok_text(ea, eb)
            m = re.match(r"^(.*)\.iter\(\)\.enumerate\(\)$", expr, re.S)
            mp = re.match(r"^\(\s*(\w+)\s*,\s*(&?)\s*(\w+)\s*\)$", pat)
            if m:
                if not mp:
                    raise RuleError("R3: unsupported enumerate pattern `%s`" % pat)
                base, idx, amp, var = m.group(1), mp.group(1), mp.group(2), mp.group(3)
                bind = ("let %s = %s[%s];" if amp else "let %s = &%s[%s];") % (var, base, idx)
                f.apply([(c[pa].pos, c[bo].end, "%s in 0..%s.len() { %s" % (idx, base, bind))], "R3")
                changed = True
                break
            m = re.match(r"^(.*)\.iter\(\)\.rev\(\)$", expr, re.S)
            if m and re.match(r"^\w+$", pat):
                base = m.group(1)
                f.apply([(c[pa].pos, c[bo].end, "%s__i in 0..%s.len() { let %s = &%s[%s.len() - 1 - %s__i];" % (pat, base, pat, base, base, pat))], "R3")
                changed = True
                break
            mr = re.match(r"^&\s*(\w+)$", pat)
            if mr:
                var = mr.group(1)
                f.apply([(c[pa].pos, c[pb].end, var + "__r"), (c[bo].pos, c[bo].end, "{ let %s = *%s__r;" % (var, var))], "R4")
                changed = True
                break


def r7_mut_params(f):
    """R7: `fn f(mut x: T)` -> `fn f(x__0: T) { let mut x = x__0; ...` (the initial value stays nameable in contracts)"""
    c = f.code
    i = 0
    while c[i].text != "fn":
        i += 1
    po = i + 2
    if c[po].text == "<":
        d = 0
        while True:
            if c[po].text == "<":
                d += 1
            if c[po].text == ">":
                d -= 1
                if d == 0:
                    break
            po += 1
        po += 1
    if c[po].text != "(":
        raise RuleError("R7: parameter list not found")
    pc = f.br[po]
    names, edits = [], []
    self_renamed = False
    k = po + 1
    depth = 0
    first = True
    while k < pc:
        if c[k].text in ("(", "[", "<", "{"):
            depth += 1
        if c[k].text in (")", "]", ">", "}"):
            depth -= 1
        if (first or (c[k - 1].text == "," and depth == 0)) and c[k].text == "mut" and c[k + 1].kind == "ident" and c[k + 2].text == ":":
            names.append(c[k + 1].text)
            edits.append((c[k].pos, c[k + 1].end, c[k + 1].text + "__0"))
        if first and c[k].text == "mut" and c[k + 1].text == "self" and c[k + 2].text in (",", ")"):
            # `mut self` (by value): Verus has no `mut self`; the receiver becomes the ordinary parameter `self__0: Self` and the body's
            # `self` is renamed `self_` (a local cannot be called `self`)
            self_renamed = True
            edits.append((c[k].pos, c[k + 1].end, "self__0: Self"))
        first = False
        k += 1
    if not names and not self_renamed:
        return
    j = pc
    while c[j].text != "{":
        j += 1
    if self_renamed:
        for m in range(j + 1, f.br[j]):
            if c[m].text == "self" and c[m].kind == "ident":
                edits.append((c[m].pos, c[m].end, "self_"))
        edits.append((c[j].end, c[j].end, " let mut self_ = self__0;"))
    edits.append((c[j].end, c[j].end, " " + " ".join("let mut %s = %s__0;" % (n, n) for n in names)))
    f.apply(edits, "R7")


def _closure_level_has(f, a, b, words):
    """does token range (a,b) contain one of `words` outside nested closures/fns? (conservative: anywhere)"""
    for k in range(a, b + 1):
        t = f.code[k]
        if t.kind == "ident" and t.text in words:
            return True
        if t.text == "?" and "?" in words:
            return True
    return False


def r5_r6_for_each(f):
    """R5: `E.for_each(|p| { B });` -> `for p in E { B }` ;  R6: `E.try_for_each(|p| { B; Ok::<(), T>(()) })?;`"""
    changed = True
    while changed:
        changed = False
        c = f.code
        for i, t in enumerate(c):
            if t.kind == "ident" and t.text in ("for_each", "try_for_each") and c[i - 1].text == "." and c[i + 1].text == "(" and c[i + 2].text == "|":
                po, pc = i + 1, f.br[i + 1]
                # statement start: walk back to previous `;` `{` `}` at same depth
                s = i - 1
                depth = 0
                while s > 0:
                    x = c[s - 1].text
                    if x in (")", "]", "}"):
                        if depth == 0 and x == "}":
                            break
                        depth += 1
                    elif x in ("(", "[", "{"):
                        if depth == 0:
                            break
                        depth -= 1
                    elif x == ";" and depth == 0:
                        break
                    s -= 1
                recv = f.tok_text(s, i - 2)
                k = po + 2
                while c[k].text != "|":
                    k += 1
                pat = f.tok_text(po + 2, k - 1)
                # a closure parameter may carry a type (`|m: String|`); a for pattern may not
                if ":" in pat and not pat.strip().startswith("("):
                    pat = pat.split(":", 1)[0].strip()
                # `for x in E.into_iter()` is `for x in E` (IntoIterator is what `for` calls)
                recv = re.sub(r"\s*\.\s*into_iter\s*\(\s*\)\s*$", "", recv)
                if c[k + 1].text != "{" or f.br[k + 1] != pc - 1:
                    raise RuleError("R5/R6: closure body is not a block at line %d" % t.line)
                bo, bc = k + 1, pc - 1
                if t.text == "for_each":
                    if c[pc + 1].text != ";":
                        raise RuleError("R5: for_each not in statement position")
                    if _closure_level_has(f, bo + 1, bc - 1, ("return", "break", "continue", "?")):
                        raise RuleError("R5: control flow inside for_each closure at line %d" % t.line)
                    body = f.tok_text(bo, bc)
                    f.apply([(c[s].pos, c[pc + 1].end, "for %s in %s %s" % (pat, recv, body))], "R5")
                else:
                    if not (c[pc + 1].text == "?" and c[pc + 2].text == ";"):
                        raise RuleError("R6: try_for_each(..) must be followed by `?;`")
                    # body must end with Ok::<(), T>(()) or Ok(())
                    e = bc - 1
                    tail = f.tok_text(bo + 1, e)
                    m = re.search(r"Ok\s*(::\s*<\s*\(\s*\)\s*,\s*[\w:]+\s*>)?\s*\(\s*\(\s*\)\s*\)\s*$", tail)
                    if not m:
                        raise RuleError("R6: closure does not end in Ok(()) at line %d" % t.line)
                    if _closure_level_has(f, bo + 1, bc - 1, ("return", "break", "continue")):
                        raise RuleError("R6: control flow inside try_for_each closure at line %d" % t.line)
                    body = "{" + tail[:m.start()] + "}"
                    f.apply([(c[s].pos, c[pc + 2].end, "for %s in %s %s" % (pat, recv, body))], "R6")
                changed = True
                break


def block_open_after(f, k):
    """index of the first `{` after code token k that is not inside ( or ["""
    c = f.code
    j, d = k + 1, 0
    while not (c[j].text == "{" and d == 0):
        if c[j].text in ("(", "["):
            d += 1
        if c[j].text in (")", "]"):
            d -= 1
        j += 1
    return j


def r13_continue(f):
    """R13: inside a `for` body, `if C { A; continue; } REST` -> `if C { A } else { REST }`"""
    changed = True
    while changed:
        changed = False
        c = f.code
        for i in loop_keywords(f):
            if c[i].text != "for":
                continue
            pa, pb, ea, eb, bo, bc = for_parts(f, i)
            # top-level statements of the body
            k = bo + 1
            while k < bc:
                if c[k].text == "if":
                    j = block_open_after(f, k)
                    ic = f.br[j]
                    if c[ic - 1].text == ";" and c[ic - 2].text == "continue" and (ic + 1 >= len(c) or c[ic + 1].text != "else"):
                        # rest = ic+1 .. bc-1
                        if ic + 1 <= bc - 1:
                            rest = f.tok_text(ic + 1, bc - 1)
                            f.apply([(c[ic - 2].pos, c[bc - 1].end, "} else { " + rest + " }")], "R13")
                        else:
                            f.apply([(c[ic - 2].pos, c[ic - 1].end, "")], "R13")
                        changed = True
                        break
                    k = ic + 1
                    continue
                # skip to end of this statement
                if c[k].text in ("{", "(", "["):
                    k = f.br[k] + 1
                    continue
                k += 1
            if changed:
                break
    # any remaining `continue` inside a for loop is outside the rule's shape
    c = f.code
    for i in loop_keywords(f):
        if c[i].text != "for":
            continue
        pa, pb, ea, eb, bo, bc = for_parts(f, i)
        for k in range(bo, bc):
            if c[k].text == "continue":
                # allowed when it belongs to an inner while/loop
                inner = [x for x in loop_keywords(f) if bo < x < k and c[x].text in ("while", "loop")]
                ok = False
                for x in inner:
                    y = x
                    while c[y].text != "{":
                        y += 1
                    if y < k < f.br[y]:
                        ok = True
                if not ok:
                    raise RuleError("R13: `continue` in a for body outside the supported shape at line %d" % c[k].line)


SEEN_RANGE_SHA = {}


def subst(f, pairs, rule):
    """anchored substitution (R12 and friends): each `before` token sequence must occur exactly `count` times"""
    for p in pairs:
        if "from" in p:
            # range form: everything from the first anchor through the second (each must occur exactly once, in this order)
            c = f.code
            def find(txt, start=0):
                w = [t.text for t in tokenize(txt)]
                return [i for i in range(start, len(c) - len(w) + 1) if [t.text for t in c[i:i + len(w)]] == w], len(w)
            h1, n1 = find(p["from"])
            if len(h1) != 1:
                raise RuleError("%s: range start `%s` found %d times (expected 1)" % (rule, p["from"][:60], len(h1)))
            h2, n2 = find(p["to"], h1[0] + n1)
            if len(h2) != 1:
                raise RuleError("%s: range end `%s` found %d times after the start (expected 1)" % (rule, p["to"][:60], len(h2)))
            # the replaced text is ASSUMED to behave like `after`: its fingerprint is recorded in unit.json, and a change of the text
            # makes the unit undecided (the finder decides) instead of leaving a stale assumption in place
            import hashlib
            fp = hashlib.sha256(" ".join(t.text for t in c[h1[0]:h2[0] + n2]).encode()).hexdigest()[:16]
            SEEN_RANGE_SHA[p["from"]] = fp
            if p.get("sha256") and p["sha256"] != fp:
                raise RuleError("%s: the text between `%s` and `%s`, which the unit replaces by an assumed call, has changed (fingerprint %s, recorded %s): the assumption may no longer describe it" % (rule, p["from"][:40], p["to"][:30], fp, p["sha256"]))
            f.apply([(c[h1[0]].pos, c[h2[0] + n2 - 1].end, p["after"])], p.get("rule", rule))
            continue
        want = [t.text for t in tokenize(p["before"])]
        c = f.code
        hits = []
        n = len(want)
        # an identifier of the form __ANY_x__ in `before` stands for any one identifier (the same one at every occurrence); it is
        # carried over into `after`: anchors that have to mention a local variable do not break when the variable is renamed
        wild = [re.match(r"^__ANY_(\w+)__$", w) for w in want]
        binds = {}
        for i in range(len(c) - n + 1):
            b, ok = {}, True
            for k in range(n):
                t = c[i + k]
                if wild[k]:
                    if t.kind != "ident" or b.setdefault(wild[k].group(1), t.text) != t.text:
                        ok = False
                        break
                elif t.text != want[k]:
                    ok = False
                    break
            if ok:
                hits.append(i)
                binds[i] = b
        cnt = p.get("count", 1)
        if cnt == "any":
            if not hits and not p.get("optional"):
                raise RuleError("%s: anchored text `%s` not found" % (rule, " ".join(want)[:80]))
        elif len(hits) != cnt:
            if p.get("optional") and not hits:
                continue
            raise RuleError("%s: anchored text `%s` found %d times (expected %d)" % (rule, " ".join(want)[:80], len(hits), cnt))
        def inst(i):
            a = p["after"]
            for k, v in binds.get(i, {}).items():
                a = a.replace("__ANY_%s__" % k, v)
            return a
        edits = [(c[i].pos, c[i + n - 1].end, inst(i)) for i in hits]
        f.apply(edits, p.get("rule", rule))


def r16_format(f):
    """R16: `format!(..)` -> `fmt_opaque()` (an arbitrary String); the arguments must be side-effect free"""
    while True:
        c = f.code
        hit = None
        for i, t in enumerate(c):
            if t.kind == "macro" and t.text == "format!" and c[i + 1].text == "(":
                hit = i
                break
        if hit is None:
            return
        i = hit
        close = f.br[i + 1]
        if not _macro_args_pure(f, i + 1, close):
            raise RuleError("R16: format! with a possibly effectful argument at line %d" % c[i].line)
        f.apply([(c[i].pos, c[close].end, "fmt_opaque()")], "R16")


def r19_underscore_assign(f):
    """R19: the statement `_ = E;` -> `let _ = E;` (definitional; Verus' parser rejects the former)"""
    c = f.code
    edits = []
    for i, t in enumerate(c):
        if t.kind == "ident" and t.text == "_" and i + 1 < len(c) and c[i + 1].text == "=" and (i == 0 or c[i - 1].text in ("{", "}", ";")):
            edits.append((t.pos, t.pos, "let "))
    if edits:
        f.apply(edits, "R19")


_CTX = {}


def r15_block_on(f):
    """R15: the synchronous cli handlers are verified as async fns: `rt.block_on(E)` -> `E.await`;
    `rt.block_on(async { S; E })?` -> `{ S; (E)? }` (the outer `?` makes every inner `?` a return from the handler);
    `let rt = Runtime::new()?;` is dropped; `fn` becomes `async fn`"""
    while True:
        c = f.code
        hit = None
        for i, t in enumerate(c):
            if t.kind == "ident" and t.text == "block_on" and c[i - 1].text == "." and c[i + 1].text == "(":
                hit = i
                break
        if hit is None:
            break
        i = hit
        o, cl = i + 1, f.br[i + 1]
        recv_a = i - 2
        if c[recv_a].kind != "ident":
            raise RuleError("R15: block_on receiver is not a simple name")
        if c[o + 1].text == "async":
            k = o + 2
            if c[k].text == "move":
                k += 1
            if c[k].text != "{" or f.br[k] != cl - 1:
                raise RuleError("R15: block_on(async ..) is not a single block")
            bo, bc = k, cl - 1
            if not (cl + 1 < len(c) and c[cl + 1].text == "?"):
                # `rt.block_on(async { E1?; ..; En?; T })` whose value is used as a Result: an inner `?` leaves the BLOCK, not the handler.
                # Each `Ei?;` becomes `let r = Ei; match r { Err(e) => Err(From::from(e)), Ok(v) => { <v is dropped: end of the statement>; .. } }`
                # (when Ei produces a lock guard - R21's guard_calls - the drop releases the lock: `lock_dropped`)
                parts, start, depth = [], bo + 1, 0
                for q in range(bo + 1, bc):
                    if c[q].text in ("(", "[", "{"):
                        depth += 1
                    elif c[q].text in (")", "]", "}"):
                        depth -= 1
                    elif c[q].text == ";" and depth == 0:
                        parts.append((start, q))
                        start = q + 1
                if start >= bc:
                    raise RuleError("R15: async block without a trailing expression")
                tail = f.tok_text(start, bc - 1)
                out = "(%s)" % tail
                for (a, z) in reversed(parts):
                    if c[z - 1].text != "?" or c[a].text == "let":
                        raise RuleError("R15: block_on(async { .. }) without `?`: every statement of the block must have the form `EXPR?;`")
                    expr = f.tok_text(a, z - 2)
                    guard = any(c[q].kind == "ident" and c[q].text in (_CTX.get("guard_calls") or []) and c[q - 1].text == "." for q in range(a, z))
                    n = len(parts) - parts.index((a, z))
                    out = "{ let r__%d = %s; match r__%d { Err(e__) => Err(::core::convert::From::from(e__)), Ok(v__) => { drop_stmt_value(v__);%s %s } } }" % (
                        n, expr, n, " lock_dropped(Tracked(w));" if guard else "", out)
                f.apply([(c[recv_a].pos, c[cl].end, out)], "R15")
                continue
            # trailing expression: after the last `;` at depth 0 inside the block
            last = bo
            depth = 0
            for q in range(bo + 1, bc):
                if c[q].text in ("(", "[", "{"):
                    depth += 1
                elif c[q].text in (")", "]", "}"):
                    depth -= 1
                elif c[q].text == ";" and depth == 0:
                    last = q
            if last + 1 >= bc:
                raise RuleError("R15: async block without a trailing expression")
            stmts = f.tok_text(bo + 1, last) if last > bo else ""
            tail = f.tok_text(last + 1, bc - 1)
            f.apply([(c[recv_a].pos, c[cl + 1].end, "{ %s (%s)? }" % (stmts, tail))], "R15")
        else:
            inner = f.tok_text(o + 1, cl - 1)
            f.apply([(c[recv_a].pos, c[cl].end, "%s.await" % inner)], "R15")
    c = f.code
    edits = []
    for i, t in enumerate(c):
        if t.text == "let" and c[i + 1].text == "rt" and c[i + 2].text == "=" and c[i + 3].text == "Runtime":
            j = i
            while c[j].text != ";":
                j += 1
            edits.append((t.pos, c[j].end, ""))
    k = 0
    while c[k].text != "fn":
        k += 1
    if not (k > 0 and c[k - 1].text == "async"):
        edits.append((c[k].pos, c[k].pos, "async "))
    f.apply(edits, "R15")


def r21_guard_drop(f, guard_calls):
    """R21 (drop elaboration for lock guards): a value produced by one of `guard_calls` that is not bound to a named variable
    (`let _ = ..;`, or an expression statement) is dropped at the end of its statement: `lock_dropped(Tracked(w));` is inserted
    right after it.  A named binding (`let _guard = ..;`) lives to the end of its block (Rust's drop order)"""
    c = f.code
    edits = []
    for i, t in enumerate(c):
        if t.kind == "ident" and t.text in guard_calls and c[i - 1].text == "." and c[i + 1].text == "(":
            # statement start
            s = i
            depth = 0
            while s > 0:
                x = c[s - 1].text
                if x in (")", "]", "}"):
                    if depth == 0 and x == "}":
                        break
                    depth += 1
                elif x in ("(", "[", "{"):
                    if depth == 0:
                        break
                    depth -= 1
                elif x == ";" and depth == 0:
                    break
                s -= 1
            # statement end
            e = i
            depth = 0
            while not (c[e].text == ";" and depth == 0):
                if c[e].text in ("(", "[", "{"):
                    depth += 1
                elif c[e].text in (")", "]", "}"):
                    depth -= 1
                    if depth < 0:
                        break
                e += 1
            named = c[s].text == "let" and c[s + 1].kind == "ident" and c[s + 1].text not in ("_",) and c[s + 2].text in ("=", ":")
            if c[s].text == "let" and c[s + 1].text == "mut":
                named = True
            if not named and c[e].text == ";":
                edits.append((c[e].end, c[e].end, " lock_dropped(Tracked(w));"))
    if edits:
        f.apply(edits, "R21")


REROOT = [("std::io::BufReader", "iox::BufReader"), ("std::io::BufWriter", "iow::BufWriter"), ("std::io::Stdout", "iox::Stdout"), ("std::str::from_utf8", "strs::from_utf8"), ("std::fs::read_dir", "fs_dir::read_dir"), ("std::fs::", "fs::"), ("std::mem::", "mem::"), ("std::thread::", "thread::"), ("std::path::", "path::"), ("std::env::", "env::"), ("std::process::", "process::")]


def r17_reroot(f):
    """R17: paths into std modules that the prelude models (`std::fs::X`, `std::mem::take`, ..) are re-rooted onto the stub modules"""
    edits = []
    c = f.code
    taken = set()
    for a, b in sorted(REROOT, key=lambda ab: -len(ab[0])):
        want = [t.text for t in tokenize(a)]
        n = len(want)
        for i in range(len(c) - n + 1):
            if c[i].text == want[0] and [t.text for t in c[i:i + n]] == want and not (i > 0 and c[i - 1].text == "::") and i not in taken:
                edits.append((c[i].pos, c[i + n - 1].end, b))
                taken.add(i)
    if edits:
        f.apply(edits, "R17")


def _split_args(f, o, c_):
    """top-level comma separated token ranges inside brackets o..c_ -> [(a, b)] inclusive"""
    c = f.code
    out, depth, start = [], 0, o + 1
    for k in range(o + 1, c_):
        t = c[k].text
        if t in ("(", "[", "{"):
            depth += 1
        elif t in (")", "]", "}"):
            depth -= 1
        elif t == "," and depth == 0:
            out.append((start, k - 1))
            start = k + 1
    if start <= c_ - 1:
        out.append((start, c_ - 1))
    return out


CANCEL_SAFE = {"cancelled", "tick"}        # documented cancel-safe futures: dropping them loses nothing
PARTIAL = {"read_until": "read_until_dropped"}  # dropping this future may have made partial progress (tokio docs)


def r11_select_try_join(f):
    """R11: tokio::select! -> match on an unconstrained choice, with the documented drop semantics of the losing futures;
    tokio::try_join!(a, b) -> sequential evaluation joined by the verified prelude function try_joinN, async-block locals inlined"""
    # ---- try_join!
    while True:
        c = f.code
        hit = None
        for i, t in enumerate(c):
            if t.kind == "macro" and t.text == "try_join!" and i >= 2 and c[i - 1].text == "::" and c[i - 2].text == "tokio":
                hit = i
                break
        if hit is None:
            break
        i = hit
        o, cl = i + 1, f.br[i + 1]
        args = _split_args(f, o, cl)
        if len(args) not in (2, 3):
            raise RuleError("R11: try_join! with %d operands" % len(args))
        edits = []
        texts = []
        for (a, b) in args:
            if a == b and c[a].kind == "ident":
                name = c[a].text
                # `let name = async { .. };` used nowhere else
                uses = [k for k, t in enumerate(c) if t.kind == "ident" and t.text == name]
                decl = [k for k in uses if k >= 1 and c[k - 1].text == "let" and c[k + 1].text == "=" and c[k + 2].text == "async" and c[k + 3].text == "{"]
                if len(decl) != 1 or len(uses) != 2:
                    raise RuleError("R11: try_join! operand `%s` is not a single-use async block local" % name)
                k = decl[0]
                bo, bc = k + 3, f.br[k + 3]
                if c[bc + 1].text != ";":
                    raise RuleError("R11: async block local `%s` not terminated by `;`" % name)
                texts.append(f.tok_text(bo, bc))
                edits.append((c[k - 1].pos, c[bc + 1].end, ""))
            else:
                texts.append(f.tok_text(a, b))
        edits.append((c[i - 2].pos, c[cl].end, "try_join%d(%s)" % (len(args), ", ".join(texts))))
        f.apply(edits, "R11")
    # ---- select!
    while True:
        c = f.code
        hit = None
        for i, t in enumerate(c):
            if t.kind == "macro" and t.text == "select!" and i >= 2 and c[i - 1].text == "::" and c[i - 2].text == "tokio":
                hit = i
                break
        if hit is None:
            break
        i = hit
        o, cl = i + 1, f.br[i + 1]
        if c[o].text != "{":
            raise RuleError("R11: select! must use braces")
        arms = []
        k = o + 1
        while k < cl:
            # PAT = EXPR => BLOCK [,]
            a = k
            while c[k].text != "=":
                k += 1
            pat = f.tok_text(a, k - 1)
            e0 = k + 1
            depth = 0
            while not (c[k].text == "=>" and depth == 0):
                if c[k].text in ("(", "[", "{"):
                    depth += 1
                if c[k].text in (")", "]", "}"):
                    depth -= 1
                k += 1
            expr = (e0, k - 1)
            if c[k + 1].text != "{":
                raise RuleError("R11: select! arm body must be a block")
            bo, bc = k + 1, f.br[k + 1]
            arms.append((pat, expr, (bo, bc)))
            k = bc + 1
            if k < cl and c[k].text == ",":
                k += 1
        n = len(arms)
        # classify each arm's future by its method name
        kinds = []
        for (pat, (ea, eb), blk) in arms:
            if c[eb].text != ")" :
                raise RuleError("R11: select! operand is not a method call")
            po = f.br[eb]
            m = c[po - 1].text
            recv = f.tok_text(ea, po - 3) if c[po - 2].text == "." else None
            if recv is None:
                raise RuleError("R11: select! operand is not a method call")
            argt = f.tok_text(po, eb)
            if m in CANCEL_SAFE:
                kinds.append(("safe", m, recv, argt))
            elif m in PARTIAL:
                kinds.append(("partial", m, recv, argt))
            else:
                raise RuleError("R11: select! over a future of unknown cancellation behaviour: .%s()" % m)
        out = ["match select_choice(%d) {" % n]
        for idx, (pat, (ea, eb), (bo, bc)) in enumerate(arms):
            head = ("%d" % idx) if idx < n - 1 else "_"
            drops = ""
            for j, kd in enumerate(kinds):
                if j != idx and kd[0] == "partial":
                    drops += " %s.%s%s;" % (kd[2], PARTIAL[kd[1]], kd[3])
            body = f.tok_text(bo + 1, bc - 1) if bc - 1 >= bo + 1 else ""
            out.append("%s => { let %s = %s.await;%s %s }" % (head, pat, f.tok_text(ea, eb), drops, body))
        out.append("}")
        f.apply([(c[i - 2].pos, c[cl].end, "\n".join(out))], "R11")


def r10_world(f, fn_names):
    """R10: thread the ghost world: the extracted function gets a trailing `Tracked(w): Tracked<&mut World>` parameter and
    every call to one of `fn_names` (functions / methods, by last path segment) gets a trailing `Tracked(w)` argument"""
    c = f.code
    edits = []
    # own parameter list
    i = 0
    while c[i].text != "fn":
        i += 1
    po = i + 2
    if c[po].text == "<":
        d = 0
        while True:
            if c[po].text == "<":
                d += 1
            if c[po].text == ">":
                d -= 1
                if d == 0:
                    break
            po += 1
        po += 1
    pc = f.br[po]
    last = pc - 1
    sep = "" if c[last].text in (",", "(") else ","
    edits.append((c[pc].pos, c[pc].pos, "%s Tracked(w): Tracked<&mut World>" % sep))
    for k in range(pc + 1, len(c) - 1):
        t = c[k]
        hit = False
        if t.kind == "ident" and c[k + 1].text == "(" and c[k - 1].text != "fn":
            if t.text in fn_names:
                hit = True
            elif c[k - 1].text == "::" and k >= 2 and (c[k - 2].text + "::" + t.text) in fn_names:
                hit = True
        if hit:
            cl = f.br[k + 1]
            sep = "" if c[cl - 1].text in (",", "(") else ", "
            edits.append((c[cl].pos, c[cl].pos, "%sTracked(w)" % sep))
    f.apply(edits, "R10")


def r23_byte_strings(f):
    """R23: a byte-string literal `b"ab\\n"` -> `&[b'a', b'b', b'\\n']` (same value, same type &[u8; N]; Verus knows the length of a
    byte-string literal but not its bytes)"""
    edits = []
    for t in f.code:
        if t.kind == "str" and t.text.startswith('b"'):
            body = t.text[2:-1]
            out, i = [], 0
            while i < len(body):
                ch = body[i]
                if ch == "\\":
                    if body[i + 1] == "x":
                        out.append("b'" + body[i:i + 4] + "'")
                        i += 4
                    elif body[i + 1] in "nrt\\0\"'":
                        esc = body[i + 1]
                        out.append("b'\\%s'" % ("\"" if esc == "\"" else esc) if esc != "\"" else "b'\"'")
                        i += 2
                    else:
                        raise RuleError("R23: unsupported escape in byte string at line %d" % t.line)
                elif ch == "'":
                    out.append("b'\\''")
                    i += 1
                elif 32 <= ord(ch) < 127:
                    out.append("b'%s'" % ch)
                    i += 1
                else:
                    raise RuleError("R23: non-ASCII byte string at line %d" % t.line)
            edits.append((t.pos, t.end, "&[" + ", ".join(out) + "]"))
    if edits:
        f.apply(edits, "R23")


RULES = {
    "R23": r23_byte_strings,
    "R1": r1_drop_tracing,
    "R3": r3_r4_for_heads,
    "R4": r3_r4_for_heads,
    "R5": r5_r6_for_each,
    "R6": r5_r6_for_each,
    "R7": r7_mut_params,
    "R13": r13_continue,
    "R16": r16_format,
    "R17": r17_reroot,
    "R11": r11_select_try_join,
    "R19": r19_underscore_assign,
    "R15": r15_block_on,
}
ORDER = ["R1", "R23", "R19", "R15", "R16", "R17", "R11", "R7", "R5", "R6", "R3", "R4", "R13"]


def rewrite(text, origin, rules, substs=None, world_calls=None, guard_calls=None):
    f = Frag(text, origin)
    done = set()
    _CTX["guard_calls"] = guard_calls
    if substs:
        pre = [s for s in substs if s.get("when") == "pre"]
        if pre:
            subst(f, pre, "R12")
    for r in ORDER:
        # R1 is definitional (a logging statement with effect-free arguments has no effect on the program state) and applies everywhere:
        # a log line added to any function under contract must not put the unit out of reach
        if (r in rules or r == "R1") and RULES[r] not in done:
            RULES[r](f)
            done.add(RULES[r])
    if world_calls is not None:
        r10_world(f, world_calls)
    if guard_calls:
        r21_guard_drop(f, guard_calls)
    if substs:
        post = [s for s in substs if s.get("when") != "pre"]
        if post:
            subst(f, post, "R12")
    return f
