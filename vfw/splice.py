"""Unit templates: annotated function texts whose executable tokens must equal (or are transplanted onto)
the rewritten real source.

Template syntax inside a `//!fn` / `//!type` region:
  * a line whose first non-blank character is `@` is a whole-line annotation (contract clause, ghost code);
  * `⟦ … ⟧` is an inline annotation (type ascription R2, loop binder R8, named return, `Tracked(w)` R10);
  * everything else is executable text and must be, token for token, the rewritten repository text.
Emitted form: annotation lines start with the tag `/*@*/`, inline annotations are wrapped in `/*[*/ … /*]*/`,
so that `erase()` can recover the executable token stream from the emitted file alone (erasure check)."""
import re
import difflib
from rscan import tokenize, ScanError

LTAG = "/*@*/"
IOPEN, ICLOSE = "/*[*/", "/*]*/"


class SpliceError(Exception):
    pass


def norm_tokens(toks):
    out = []
    for t in toks:
        if t.text == ">>":
            out += [">", ">"]
        elif t.text == ">>=":
            out += [">", ">="]
        else:
            out.append(t.text)
    return out


class Region:
    def __init__(self, kind, file, path, opts, lineno):
        self.kind, self.file, self.path, self.opts, self.lineno = kind, file, path, opts, lineno
        self.lines = []
        parts = path.split("::")
        self.name = parts[-1]
        self.impl = parts[0] if len(parts) > 1 else None
        self.trait = opts.get("trait")
        self.props = [p for p in opts.get("props", "").split(",") if p]
        self.rules = [r for r in opts.get("rules", "").split(",") if r]
        self.label = opts.get("label") or path

    def items(self):
        """[('tok', text) | ('ann', text, 'line'|'inline')] in template order"""
        out = []
        for ln in self.lines:
            s = ln.lstrip()
            if s.startswith("@"):
                i = ln.index("@")
                out.append(("ann", ln[:i] + " " + ln[i + 1:], "line"))
                continue
            pos = 0
            while True:
                a = ln.find("⟦", pos)
                if a < 0:
                    seg = ln[pos:]
                    for t in norm_tokens(tokenize(seg)):
                        out.append(("tok", t))
                    break
                b = ln.find("⟧", a)
                if b < 0:
                    raise SpliceError("unclosed ⟦ in template %s line: %s" % (self.label, ln))
                for t in norm_tokens(tokenize(ln[pos:a])):
                    out.append(("tok", t))
                out.append(("ann", ln[a + 1:b], "inline"))
                pos = b + 1
        return out

    def emit_exact(self):
        out = []
        for ln in self.lines:
            s = ln.lstrip()
            if s.startswith("@"):
                i = ln.index("@")
                out.append(LTAG + ln[:i] + " " + ln[i + 1:])
            else:
                out.append(ln.replace("⟦", IOPEN).replace("⟧", ICLOSE))
        return "\n".join(out)


def expand_includes(text, root):
    """textual `//!include <path>`: the included file may itself contain regions; its lines are tagged as prelude"""
    import os
    out = []
    for ln in text.split("\n"):
        m = re.match(r"^\s*//!include\s+(\S+)\s*$", ln)
        if m:
            with open(os.path.join(root, m.group(1)), encoding="utf-8") as fh:
                out.append("//!prelude-begin " + m.group(1))
                out.append(expand_includes(fh.read().rstrip("\n"), root))
                out.append("//!prelude-end")
        else:
            out.append(ln)
    return "\n".join(out)


def parse_unit(text, fname):
    """-> list of ('text', str, first_line) | ('region', Region) | ('include', path)"""
    segs = []
    cur = []
    region = None
    start = 1
    for n, ln in enumerate(text.split("\n"), 1):
        m = re.match(r"^\s*//!(fn|type|const)\s+(\S+)\s+(\S+)(.*)$", ln)
        if m and region is None:
            if cur:
                segs.append(("text", "\n".join(cur), start))
                cur = []
            opts = dict(kv.split("=", 1) for kv in m.group(4).split() if "=" in kv)
            region = Region(m.group(1), m.group(2), m.group(3), opts, n)
            continue
        if re.match(r"^\s*//!end\s*$", ln):
            if region is None:
                raise SpliceError("%s:%d: //!end without region" % (fname, n))
            segs.append(("region", region))
            region = None
            start = n + 1
            continue
        m = re.match(r"^\s*//!stub\s+(\S+)\s+(\S+)\s*$", ln)
        if m and region is None:
            if cur:
                segs.append(("text", "\n".join(cur), start))
                cur = []
            segs.append(("stub", m.group(1), m.group(2)))
            start = n + 1
            continue
        m = re.match(r"^\s*//!serde\s+(\S+)\s+(\S+)\s*$", ln)
        if m and region is None:
            # the unit relies on the serde round trip of this repository type (json_parse(json_enc(x)) == x) without extracting it:
            # its serde attributes and derives are compared with the recorded fingerprint (prelude/type_attrs.json)
            if cur:
                segs.append(("text", "\n".join(cur), start))
                cur = []
            segs.append(("serde", m.group(1), m.group(2)))
            start = n + 1
            continue
        m = re.match(r"^\s*//!assumed\s+(\S+)\s+(\S+)\s+sha=(\S+)\s*$", ln)
        if m and region is None:
            # the hand-written contract that follows describes a repository function that is not under contract anywhere: its text is
            # fingerprinted, and a change of it makes the unit undecided instead of leaving a stale assumption in place
            if cur:
                segs.append(("text", "\n".join(cur), start))
                cur = []
            segs.append(("assumed", m.group(1), m.group(2), m.group(3)))
            start = n + 1
            continue
        m = re.match(r"^\s*//!include\s+(\S+)\s*$", ln)
        if m and region is None:
            if cur:
                segs.append(("text", "\n".join(cur), start))
                cur = []
            segs.append(("include", m.group(1)))
            start = n + 1
            continue
        if region is not None:
            region.lines.append(ln)
        else:
            if not cur:
                start = n
            cur.append(ln)
    if region is not None:
        raise SpliceError("%s: region %s not closed" % (fname, region.label))
    if cur:
        segs.append(("text", "\n".join(cur), start))
    return segs


def moved_here(k, e2r, ne):
    """the annotation's neighbours in the template did not both survive next to each other"""
    if 0 < k < ne:
        return not ((k - 1) in e2r and k in e2r and e2r[k] == e2r[k - 1] + 1)
    return False


def transplant(region, real_text):
    """put the region's annotations onto `real_text` (the rewritten repository text), by token alignment"""
    items = region.items()
    e_toks = [x[1] for x in items if x[0] == "tok"]
    anns = []  # (k = number of exec tokens before, text, kind)
    k = 0
    for x in items:
        if x[0] == "tok":
            k += 1
        else:
            anns.append((k, x[1], x[2]))
    rt = tokenize(real_text)
    # normalised real tokens with a back pointer to (token index, offset inside a split token)
    r_norm, r_back = [], []
    for i, t in enumerate(rt):
        if t.text == ">>":
            r_norm += [">", ">"]
            r_back += [(i, 0), (i, 1)]
        elif t.text == ">>=":
            r_norm += [">", ">="]
            r_back += [(i, 0), (i, 1)]
        else:
            r_norm.append(t.text)
            r_back.append((i, 0))
    sm = difflib.SequenceMatcher(None, e_toks, r_norm, autojunk=False)
    e2r = {}
    for a, b, n in sm.get_matching_blocks():
        for d in range(n):
            e2r[a + d] = b + d
    ne = len(e_toks)
    # alpha-renaming: a local / parameter whose name changed and nothing else.  A rename is accepted for one scope - from the first
    # renamed occurrence to the end of the block that holds the last one - only when every occurrence of the old name in that scope is
    # replaced by the same new name (aligned one to one), the old name no longer occurs in the corresponding real text, and the new name
    # is new to that part of the template and to its annotations; the annotations inside the scope then follow the rename.  Anything
    # less is not a rename and is left to the ordinary alignment.
    renamed = []  # (first, scope_end, old, new)
    cand = {}
    KW = {"let", "mut", "fn", "if", "else", "match", "for", "in", "while", "loop", "return", "break", "continue", "self", "Self", "as", "ref", "move", "async", "await", "pub", "crate", "super", "true", "false", "Some", "None", "Ok", "Err"}
    IDENT = re.compile(r"^[A-Za-z_]\w*$")
    for tag, i1, i2, j1, j2 in sm.get_opcodes():
        if tag == "replace" and i2 - i1 == j2 - j1:
            for d in range(i2 - i1):
                x, y = e_toks[i1 + d], r_norm[j1 + d]
                if x != y and IDENT.match(x) and IDENT.match(y) and x not in KW and y not in KW:
                    cand.setdefault(x, {})[i1 + d] = (j1 + d, y)
    if cand:
        # matching braces of the template's executable tokens
        close_of, stack = {}, []
        for idx, t in enumerate(e_toks):
            if t == "{":
                stack.append(idx)
            elif t == "}" and stack:
                close_of[stack.pop()] = idx
        def nocomment(text):
            return re.sub(r"//.*", "", text)
        for x, occ in cand.items():
            pos = [i for i, t in enumerate(e_toks) if t == x]
            runs, cur = [], []
            for i in pos:
                if i in occ and (not cur or occ[cur[-1]][1] == occ[i][1]):
                    cur.append(i)
                else:
                    if cur:
                        runs.append(cur)
                    cur = [i] if i in occ else []
            if cur:
                runs.append(cur)
            for run in runs:
                first, last, y = run[0], run[-1], occ[run[0]][1]
                opens = [o for o in close_of if o < last and close_of[o] > last]
                scope_end = close_of[max(opens)] if opens else ne - 1
                later = [i for i in pos if i > last and i <= scope_end]
                if later:
                    scope_end = later[0] - 1
                rf, rl = occ[first][0], occ[last][0]
                if y in e_toks[first:scope_end + 1] or x in r_norm[rf:rl + 1] or r_norm[rf:rl + 1].count(y) != len(run):
                    continue
                if any(first < k <= scope_end + 1 and re.search(r"\b%s\b" % re.escape(y), nocomment(text)) for (k, text, _) in anns):
                    continue
                renamed.append((first, scope_end, x, y))
                for i in run:
                    e2r[i] = occ[i][0]
    if renamed:
        def _ren(k, text):
            for (first, scope_end, x, y) in renamed:
                if first < k <= scope_end + 1:
                    text = re.sub(r"(?<![\.\w:])%s\b" % re.escape(x), y, text)
            return text
        anns = [(k, _ren(k, text), kind) for (k, text, kind) in anns]
    inserts = {}  # char position in real_text -> list of (text, kind)
    moved = 0
    dropped = 0
    # index of the body's opening brace among the template's executable tokens: annotations at or before it are the
    # function header (requires / ensures) and are NEVER dropped
    body_k = None
    depth = 0
    seen_fn = False
    for idx, t in enumerate(e_toks):
        if t == "fn":
            seen_fn = True
        if t in ("(", "["):
            depth += 1
        elif t in (")", "]"):
            depth -= 1
        elif t == "{" and depth == 0 and (seen_fn or region.kind != "fn"):
            body_k = idx
            break
    LOOP_KW = ("invariant", "invariant_except_break", "decreases", "ensures")
    drop_group_at = set()
    for (k, text, kind) in anns:
        if kind != "line" or body_k is None or k <= body_k:
            continue
        m = re.match(r"\s*([A-Za-z_]+)", text)
        first = m.group(1) if m else ""
        if first.rstrip(",") in LOOP_KW:
            # loop clauses sit between the loop head and its `{`: both must still be there, next to each other
            ok = (k < ne and e_toks[k] == "{" and k in e2r and (k - 1) in e2r and e2r[k] == e2r[k - 1] + 1)
            if not ok:
                drop_group_at.add(k)
    # the named return of the header - `-> ⟦(r: ⟧T⟦)⟧` - is a pair: it is placed around whatever return type the real header has
    # (both halves or neither), like the header contract it is never dropped while the function still returns something
    named_ret = {}
    if body_k is not None:
        for ai, (k, text, kind) in enumerate(anns):
            if kind == "inline" and 0 < k <= body_k and e_toks[k - 1] == "->" and re.match(r"^\(\w+: ?$", text):
                for aj in range(ai + 1, len(anns)):
                    k2, text2, kind2 = anns[aj]
                    if kind2 == "inline" and k2 <= body_k and text2.strip() == ")":
                        # real header: `->` at depth 0 before the body's `{`
                        d, arrow, rb = 0, None, None
                        seen = False
                        for j, t in enumerate(rt):
                            if t.text == "fn":
                                seen = True
                            if t.text in ("(", "["):
                                d += 1
                            elif t.text in (")", "]"):
                                d -= 1
                            elif t.text == "->" and d == 0 and seen and arrow is None:
                                arrow = j
                            elif d == 0 and seen and t.text in ("{", "where"):
                                rb = j
                                break
                        if arrow is not None and rb is not None and arrow < rb:
                            named_ret[ai] = rt[arrow].end
                            named_ret[aj] = rt[rb - 1].end
                        else:
                            named_ret[ai] = named_ret[aj] = None
                        break
                break
    for ai, (k, text, kind) in enumerate(anns):
        if ai in named_ret:
            if named_ret[ai] is None:
                dropped += 1
            else:
                inserts.setdefault(named_ret[ai], []).append((text, kind))
            continue
        if kind == "line" and body_k is not None and k > body_k:
            if k in drop_group_at and (k < ne and e_toks[k] == "{"):
                dropped += 1
                continue
            # an annotation whose two neighbouring tokens both vanished belongs to code that no longer exists
            if 0 < k < ne and (k - 1) not in e2r and k not in e2r:
                dropped += 1
                continue
        if kind == "inline":
            # an inline annotation (type ascription, binder, named return) only makes sense between the two tokens it
            # was written between; if that spot no longer exists in the real text it is dropped, never moved
            left_ok = (k == 0) or ((k - 1) in e2r)
            right_ok = (k >= ne) or (k in e2r)
            adjacent = not (0 < k < ne) or (left_ok and right_ok and e2r[k] == e2r[k - 1] + 1)
            if not (left_ok and right_ok and adjacent):
                dropped += 1
                continue
        if k < ne and k in e2r:
            j = e2r[k]
            ti, off = r_back[j]
            pos = rt[ti].pos + off
        elif k > 0 and (k - 1) in e2r:
            j = e2r[k - 1]
            ti, off = r_back[j]
            pos = rt[ti].pos + 1 if (rt[ti].text in (">>", ">>=") and off == 0) else rt[ti].end
            moved += 1
        else:
            kk = k
            while kk < ne and kk not in e2r:
                kk += 1
            if kk < ne:
                ti, off = r_back[e2r[kk]]
                pos = rt[ti].pos + off
            else:
                pos = len(real_text.rstrip())
                # keep inside the item: before the final closing brace
                if rt and rt[-1].text == "}":
                    pos = rt[-1].pos
            moved += 1
        if kind == "line" and (moved_here(k, e2r, ne)):
            # a statement-level annotation that lost its exact anchor is snapped forward to a statement boundary
            # (after `;` `{` `}`, or before `{` `}`), never left in the middle of an expression
            j = 0
            while j < len(rt) and rt[j].pos < pos:
                j += 1
            while j < len(rt) and not (j == 0 or rt[j - 1].text in (";", "{", "}") or rt[j].text in ("{", "}")):
                j += 1
            if j < len(rt):
                pos = rt[j].pos
        inserts.setdefault(pos, []).append((text, kind))
    out = []
    last = 0
    for pos in sorted(inserts):
        out.append(real_text[last:pos])
        for (text, kind) in inserts[pos]:
            if kind == "line":
                out.append("\n" + LTAG + text + "\n")
            else:
                out.append(" " + IOPEN + text + ICLOSE + " ")
        last = pos
    out.append(real_text[last:])
    changed = sum(1 for tag, *_ in sm.get_opcodes() if tag != "equal")
    return "".join(out), {"template_tokens": ne, "real_tokens": len(r_norm), "diff_hunks": changed, "annotations_moved": moved, "annotations_dropped": dropped, "locals_renamed": ["%s -> %s" % (x, y) for (_, _, x, y) in renamed]}


def erase(emitted):
    """drop every annotation from an emitted region"""
    lines = []
    for ln in emitted.split("\n"):
        if ln.lstrip().startswith(LTAG):
            continue
        while True:
            a = ln.find(IOPEN)
            if a < 0:
                break
            b = ln.find(ICLOSE, a)
            if b < 0:
                raise SpliceError("unbalanced inline tag in emitted text")
            ln = ln[:a] + " " + ln[b + len(ICLOSE):]
        lines.append(ln)
    return "\n".join(lines)


def erasure_check(emitted, real_text):
    a = norm_tokens(tokenize(erase(emitted)))
    b = norm_tokens(tokenize(real_text))
    return a == b


def stub_of(region):
    """the contract of a region proved in another unit, as an external_body stub: signature + header annotations
    (everything up to the body's opening brace), body replaced by unimplemented!()"""
    items = region.items()
    out = []
    depth = 0
    seen_fn = False
    for x in items:
        if x[0] == "tok":
            t = x[1]
            if t == "fn":
                seen_fn = True
            if seen_fn and t == "{" and depth == 0:
                break
            if t in ("(", "["):
                depth += 1
            elif t in (")", "]"):
                depth -= 1
            out.append(t)
        else:
            txt = x[1]
            if x[2] == "line":
                if txt.strip().startswith("#["):
                    continue
                out.append("\n" + txt + "\n")
            else:
                out.append(txt)
    return "#[verifier::external_body] " + " ".join(out) + "\n{ unimplemented!() }"
