"""Small Rust-aware scanner: tokens (strings, raw strings, chars vs lifetimes, nested comments),
bracket matching, and an item finder that returns exact source spans.  Fails closed (ScanError)."""
import re


class ScanError(Exception):
    pass


class Tok:
    __slots__ = ("kind", "text", "pos", "end", "line")

    def __init__(self, kind, text, pos, end, line):
        self.kind, self.text, self.pos, self.end, self.line = kind, text, pos, end, line

    def __repr__(self):
        return "%s(%r@%d)" % (self.kind, self.text, self.line)


PUNCT3 = ["<<=", ">>=", "...", "..="]
PUNCT2 = ["::", "->", "=>", "==", "!=", "<=", ">=", "&&", "||", "+=", "-=", "*=", "/=", "%=", "^=", "&=", "|=", "<<", ">>", ".."]
_RAW = re.compile(r'(b?r)(#*)"')
_CHAR = re.compile(r"'(\\.[^']*|[^\\'])'")
_LIFE = re.compile(r"'[A-Za-z_][A-Za-z0-9_]*")
_IDENT = re.compile(r"[A-Za-z_][A-Za-z0-9_]*!?")
_NUM = re.compile(r"[0-9][0-9A-Za-z_]*(\.[0-9][0-9A-Za-z_]*)?")


def tokenize(src, keep_comments=False):
    toks = []
    i, n, line = 0, len(src), 1
    while i < n:
        c = src[i]
        if c == "\n":
            line += 1
            i += 1
            continue
        if c.isspace():
            i += 1
            continue
        if src.startswith("//", i):
            j = src.find("\n", i)
            j = n if j < 0 else j
            if keep_comments:
                toks.append(Tok("comment", src[i:j], i, j, line))
            i = j
            continue
        if src.startswith("/*", i):
            depth, j = 1, i + 2
            while j < n and depth:
                if src.startswith("/*", j):
                    depth += 1
                    j += 2
                elif src.startswith("*/", j):
                    depth -= 1
                    j += 2
                else:
                    j += 1
            if keep_comments:
                toks.append(Tok("comment", src[i:j], i, j, line))
            line += src.count("\n", i, j)
            i = j
            continue
        m = _RAW.match(src, i)
        if m:
            close = '"' + m.group(2)
            j = src.find(close, m.end())
            if j < 0:
                raise ScanError("unterminated raw string at line %d" % line)
            j += len(close)
            toks.append(Tok("str", src[i:j], i, j, line))
            line += src.count("\n", i, j)
            i = j
            continue
        if c == '"' or (c == "b" and src.startswith('b"', i)):
            j = i + (2 if c == "b" else 1)
            while j < n and src[j] != '"':
                j += 2 if src[j] == "\\" else 1
            if j >= n:
                raise ScanError("unterminated string at line %d" % line)
            j += 1
            toks.append(Tok("str", src[i:j], i, j, line))
            line += src.count("\n", i, j)
            i = j
            continue
        if c == "'" or (c == "b" and src.startswith("b'", i)):
            k = i + (1 if c == "b" else 0)
            m = _CHAR.match(src, k)
            if m:
                j = m.end()
                toks.append(Tok("char", src[i:j], i, j, line))
                i = j
                continue
            m = _LIFE.match(src, k)
            if not m:
                raise ScanError("bad quote at line %d" % line)
            j = m.end()
            toks.append(Tok("lifetime", src[i:j], i, j, line))
            i = j
            continue
        m = _IDENT.match(src, i)
        if m:
            t = m.group(0)
            if t.endswith("!"):
                rest = src[i + len(t):i + len(t) + 40].lstrip()
                if src[i + len(t):i + len(t) + 1] == "=" or rest[:1] not in ("(", "[", "{"):
                    t = t[:-1]
            toks.append(Tok("macro" if t.endswith("!") else "ident", t, i, i + len(t), line))
            i += len(t)
            continue
        m = _NUM.match(src, i)
        if m:
            t = m.group(0)
            # `0..n`: do not swallow the range dots
            if ".." in src[i:i + len(t) + 1] and "." in t:
                t = t.split(".")[0]
            toks.append(Tok("num", t, i, i + len(t), line))
            i += len(t)
            continue
        for p in PUNCT3 + PUNCT2:
            if src.startswith(p, i):
                toks.append(Tok("punct", p, i, i + len(p), line))
                i += len(p)
                break
        else:
            toks.append(Tok("punct", c, i, i + 1, line))
            i += 1
    return toks


OPEN = {"(": ")", "[": "]", "{": "}"}
CLOSE = {")", "]", "}"}


def match_brackets(toks):
    """dict open_index -> close_index and close_index -> open_index"""
    stack, m = [], {}
    for i, t in enumerate(toks):
        if t.kind != "punct":
            continue
        if t.text in OPEN:
            stack.append(i)
        elif t.text in CLOSE:
            if not stack:
                raise ScanError("unbalanced %s at line %d" % (t.text, t.line))
            o = stack.pop()
            if OPEN[toks[o].text] != t.text:
                raise ScanError("mismatched %s at line %d" % (t.text, t.line))
            m[o] = i
            m[i] = o
    if stack:
        raise ScanError("unclosed bracket at line %d" % toks[stack[-1]].line)
    return m


class Source:
    """a parsed source file"""

    def __init__(self, text, path="<mem>"):
        self.text = text
        self.path = path
        self.toks = tokenize(text)
        self.br = match_brackets(self.toks)

    def _item_start(self, i):
        """walk back from keyword index i over visibility / qualifiers"""
        t = self.toks
        s = i
        while s > 0:
            p = t[s - 1]
            if p.kind == "ident" and p.text in ("pub", "async", "const", "unsafe", "default"):
                s -= 1
            elif p.text == ")" and s >= 4 and t[s - 4].text == "pub":
                s -= 4
            elif p.kind == "str" and s >= 2 and t[s - 2].text == "extern":
                s -= 2
            else:
                break
        return s

    def _attrs_start(self, s):
        """include preceding #[...] attributes"""
        t = self.toks
        while s >= 2 and t[s - 1].text == "]" and (s - 1) in self.br and self.br[s - 1] >= 1 and t[self.br[s - 1] - 1].text == "#":
            s = self.br[s - 1] - 1
        return s

    def impl_blocks(self, name, trait=None):
        """(open, close) token indices of `impl [<..>] [Trait for] name [<..>] {` blocks (trait=None: inherent only)"""
        t = self.toks
        out = []
        for i, tk in enumerate(t):
            if tk.kind == "ident" and tk.text == "impl" and (i == 0 or t[i - 1].text in ("}", ";", "]") or t[i - 1].kind == "ident" and t[i - 1].text in ("unsafe",) or i == 0):
                j = i + 1
                hdr = []
                depth = 0
                while j < len(t) and not (t[j].text == "{" and depth == 0):
                    if t[j].text == "<":
                        depth += 1
                    elif t[j].text == ">":
                        depth -= 1
                    hdr.append(t[j].text)
                    j += 1
                if j >= len(t):
                    continue
                if "for" in hdr:
                    k = hdr.index("for")
                    tr, ty = hdr[:k], hdr[k + 1:]
                    if trait is None or trait not in tr:
                        continue
                    if name in ty:
                        out.append((j, self.br[j]))
                else:
                    if trait is None and name in hdr:
                        out.append((j, self.br[j]))
        return out

    def find_fn(self, name, impl=None, trait=None):
        """(start_tok, body_open_tok, end_tok) of the unique `fn name` (optionally inside `impl <impl>`), attributes excluded"""
        t = self.toks
        if impl:
            ranges = self.impl_blocks(impl, trait)
            if not ranges:
                raise ScanError("impl %s not found in %s" % (impl, self.path))
        else:
            ranges = [(-1, len(t))]
        hits = []
        for lo, hi in ranges:
            i = lo + 1
            depth_base = None
            while i < hi:
                tk = t[i]
                if tk.text == "{" and not impl and i in self.br and False:
                    pass
                if tk.kind == "ident" and tk.text == "fn" and i + 1 < hi and t[i + 1].text == name:
                    # for free functions insist on top level (not nested in an impl / mod tests)
                    if not impl and self._depth(i) != 0:
                        i += 1
                        continue
                    if impl and self._depth(i) != self._depth(lo) + 1:
                        i += 1
                        continue
                    s = self._item_start(i)
                    j = i
                    while j < hi and not (t[j].text == "{" and self._paren_free(i, j)) and t[j].text != ";":
                        j += 1
                    if j >= hi or t[j].text == ";":
                        i += 1
                        continue
                    hits.append((s, j, self.br[j]))
                    i = self.br[j]
                i += 1
        if len(hits) != 1:
            raise ScanError("fn %s%s: %d hits in %s" % ((impl + "::") if impl else "", name, len(hits), self.path))
        return hits[0]

    def _depth(self, i):
        """brace depth of token i"""
        if not hasattr(self, "_depths"):
            d, out = 0, []
            for tk in self.toks:
                if tk.kind == "punct" and tk.text == "}":
                    d -= 1
                out.append(d)
                if tk.kind == "punct" and tk.text == "{":
                    d += 1
            self._depths = out
        return self._depths[i]

    def _paren_free(self, a, b):
        """token b is not inside a ( [ opened at/after a"""
        d = 0
        for k in range(a, b):
            x = self.toks[k].text
            if self.toks[k].kind != "punct":
                continue
            if x in ("(", "["):
                d += 1
            elif x in (")", "]"):
                d -= 1
        return d == 0

    def find_type(self, name):
        """(start_tok, end_tok) of the unique top-level `struct|enum name`, attributes excluded"""
        t = self.toks
        hits = []
        for i, tk in enumerate(t):
            if tk.kind == "ident" and tk.text in ("struct", "enum") and t[i + 1].text == name and self._depth(i) == 0:
                s = self._item_start(i)
                j = i
                while t[j].text not in ("{", ";", "("):
                    j += 1
                if t[j].text == ";":
                    e = j
                elif t[j].text == "(":
                    e = self.br[j]
                    while t[e].text != ";":
                        e += 1
                else:
                    e = self.br[j]
                hits.append((s, e))
        if len(hits) != 1:
            raise ScanError("type %s: %d hits in %s" % (name, len(hits), self.path))
        return hits[0]

    def find_const(self, name):
        t = self.toks
        hits = []
        for i, tk in enumerate(t):
            if tk.kind == "ident" and tk.text in ("const", "static") and t[i + 1].text == name:
                s = self._item_start(i)
                e = i
                while t[e].text != ";":
                    e += 1
                hits.append((s, e))
        if len(hits) != 1:
            raise ScanError("const %s: %d hits in %s" % (name, len(hits), self.path))
        return hits[0]

    def span_text(self, a, b):
        return self.text[self.toks[a].pos:self.toks[b].end]

    def span_lines(self, a, b):
        return self.toks[a].line, self.toks[b].line + self.toks[b].text.count("\n")
