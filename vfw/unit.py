"""Build the single-file Verus input of one unit from /repo's current working tree, run Verus, classify."""
import hashlib
import json
import os
import re
import subprocess
import time

import rscan
import rules as rules_mod
import splice

VERIF = os.path.dirname(os.path.dirname(os.path.abspath(__file__)))
REPO = os.environ.get("VERIF_REPO", "/repo")

VERIFICATION_MESSAGES = [
    ("postcondition not satisfied", "ensures"),
    ("precondition not satisfied", "requires@call"),
    ("assertion failed", "assert"),
    ("invariant not satisfied at end of loop body", "invariant(preserve)"),
    ("invariant not satisfied before loop", "invariant(init)"),
    ("loop invariant not satisfied", "invariant"),
    ("loop ensures not satisfied", "loop-ensures"),
    ("possible arithmetic underflow/overflow", "safety(arith)"),
    ("possible division by zero", "safety(div)"),
    ("possible bit shift underflow/overflow", "safety(shift)"),
    ("decreases not satisfied", "decreases"),
    ("could not prove termination", "decreases"),
    ("unreachable code", "unreachable"),
    ("not all errors may have been reported", None),
    ("cannot show invariant holds", "invariant"),
    ("failed to satisfy", "ensures"),
    ("unable to prove", "assert"),
    ("assert_by", "assert"),
    ("recommendation not met", None),
    ("constructed value may fail to meet its declared type invariant", "type-invariant"),
]
UNDECIDED_MESSAGES = ["Resource limit (rlimit) exceeded", "rlimit", "z3 process", "timed out", "could not complete"]


class UnitError(Exception):
    """the unit is undecided (exit 2): extraction / rewrite / splice / tool problem"""


class Built:
    pass


_src_cache = {}


def load_source(rel):
    p = os.path.join(REPO, rel)
    if p not in _src_cache:
        try:
            with open(p, encoding="utf-8") as fh:
                _src_cache[p] = rscan.Source(fh.read(), rel)
        except (OSError, rscan.ScanError) as e:
            raise UnitError("cannot scan %s: %s" % (rel, e))
    return _src_cache[p]


def strip_attrs(text):
    """R9: drop #[...] attributes inside an extracted type definition; returns the dropped attributes (normalised)"""
    toks = rscan.tokenize(text)
    br = rscan.match_brackets(toks)
    edits = []
    attrs = []
    for i, t in enumerate(toks):
        if t.text == "#" and i + 1 < len(toks) and toks[i + 1].text == "[":
            edits.append((t.pos, toks[br[i + 1]].end))
            attrs.append(" ".join(x.text for x in toks[i:br[i + 1] + 1]))
    for a, b in sorted(edits, reverse=True):
        text = text[:a] + text[b:]
    return text, attrs


def outer_attrs(src, s_tok):
    """attributes written in front of an item (they are outside the extracted span)"""
    t = src.toks
    out = []
    k = s_tok
    while k >= 2 and t[k - 1].text == "]" and (k - 1) in src.br and src.br[k - 1] >= 1 and t[src.br[k - 1] - 1].text == "#":
        a = src.br[k - 1] - 1
        out.append(" ".join(x.text for x in t[a:k]))
        k = a
    return list(reversed(out))


def make_pub(f):
    c = f.code
    edits = []
    # item visibility
    k = 0
    if c[0].text == "pub":
        if c[1].text == "(":
            edits.append((c[0].pos, c[f.br[1]].end, "pub"))
            k = f.br[1] + 1
        else:
            k = 1
    else:
        edits.append((c[0].pos, c[0].pos, "pub "))
    if c[k].text == "struct":
        j = k
        while j < len(c) and c[j].text not in ("{", ";", "("):
            j += 1
        if j < len(c) and c[j].text == "{":
            close = f.br[j]
            i = j + 1
            start = True
            depth = 0
            while i < close:
                t = c[i]
                if start and depth == 0:
                    if t.text == "pub":
                        if c[i + 1].text == "(":
                            edits.append((t.pos, c[f.br[i + 1]].end, "pub"))
                    else:
                        edits.append((t.pos, t.pos, "pub "))
                    start = False
                if t.text in ("(", "[", "{", "<"):
                    depth += 1
                elif t.text in (")", "]", "}", ">"):
                    depth -= 1
                elif t.text == ">>":
                    depth -= 2
                elif t.text == "," and depth == 0:
                    start = True
                i += 1
    if edits:
        f.apply(edits, "R9")


SEEN_ASSUMED = {}
SEEN_SERDE = {}


def assumed_fingerprint(file, name):
    """fingerprint (whitespace- and comment-insensitive) of a repository function that a unit describes by a hand-written contract"""
    src = load_source(file)
    impl = None
    if "::" in name:
        impl, name = name.split("::", 1)
    try:
        s, bo, e = src.find_fn(name, impl, None)
    except rscan.ScanError as ex:
        raise UnitError("assumed %s %s: %s" % (file, name, ex))
    toks = rscan.tokenize(src.span_text(s, e))
    return hashlib.sha256(" ".join(t.text for t in toks).encode()).hexdigest()[:16]


def extract(region, unit_cfg):
    src = load_source(region.file)
    lift = "#" in region.name
    try:
        if region.kind == "fn":
            s, bo, e = src.find_fn(region.name.split("#")[0], region.impl, region.trait)
        elif region.kind == "type":
            s, e = src.find_type(region.name)
        else:
            s, e = src.find_const(region.name)
    except rscan.ScanError as ex:
        raise UnitError("extract %s: %s" % (region.label, ex))
    text = src.span_text(s, e)
    l0, l1 = src.span_lines(s, e)
    info = {"item": region.label, "file": region.file, "lines": [l0, l1], "sha256": hashlib.sha256(text.encode()).hexdigest()}
    substs = unit_cfg.get("subst", {}).get(region.label)
    lift_log = None
    if lift:
        # R22 closure lifting: the body of ONE closure of the function (the first closure after the anchor text) is verified as a
        # function of its captured variables, which the unit names as parameters; the closure's block is taken verbatim
        spec = unit_cfg.get("lift", {}).get(region.label)
        if not spec:
            raise UnitError("extract %s: no `lift` entry in unit.json" % region.label)
        toks = rscan.tokenize(text)
        br = rscan.match_brackets(toks)
        anchor = [t.text for t in rscan.tokenize(spec["anchor"])]
        hits = [i for i in range(len(toks) - len(anchor) + 1) if [t.text for t in toks[i:i + len(anchor)]] == anchor]
        if len(hits) != 1:
            raise UnitError("extract %s: R22 anchor `%s` found %d times (expected 1)" % (region.label, spec["anchor"], len(hits)))
        k = hits[0] + len(anchor)
        while k < len(toks) and toks[k].text != "{":
            if toks[k].text not in ("|", "||", "move", ",", ":", "&", "mut", "_") and toks[k].kind != "ident":
                raise UnitError("extract %s: R22 expected the closure's block after the anchor" % region.label)
            k += 1
        if k >= len(toks) or k not in br:
            raise UnitError("extract %s: R22 closure block not found" % region.label)
        block = text[toks[k].pos:toks[br[k]].end]
        lift_log = {"rule": "R22", "at": "%s:%d" % (region.file, l0), "before": "closure after `%s` in %s" % (spec["anchor"], region.label.split("#")[0]), "after": spec["header"], "why": spec.get("why", "closure body verified as a function of its captured variables")}
        text = spec["header"] + " " + block
        info["sha256"] = hashlib.sha256(text.encode()).hexdigest()
        info["lifted_closure"] = spec["anchor"]
    try:
        if region.kind == "type":
            text2, inner = strip_attrs(text)
            f = rules_mod.Frag(text2, "%s:%d" % (region.file, l0))
            allattrs = outer_attrs(src, s) + inner
            # what the ASSUMED decoding / default contracts of this type depend on: serde attributes and serde/Default derives
            info["attrs"] = [a for a in allattrs if "serde" in a or ("derive" in a and ("Serialize" in a or "Deserialize" in a or "Default" in a))]
            if inner:
                f.log.append({"rule": "R9", "at": f.origin, "before": "%d attribute(s)" % len(inner), "after": ""})
            # R9: inside the single-file unit every extracted type and every struct field is `pub` (visibility has no
            # meaning there; Verus needs it for spec functions that read the fields)
            make_pub(f)
            rules_mod.r17_reroot(f)
            if substs:
                rules_mod.subst(f, substs, "R12")
        elif region.kind == "const":
            # R9: visibility has no meaning in the single-file unit; a `pub(crate) const` would not be usable from spec contexts
            text = re.sub(r"^(\s*)pub\s*\(\s*crate\s*\)\s+const\b", r"\1pub const", text, count=1)
            f = rules_mod.rewrite(text, "%s:%d" % (region.file, l0), region.rules, substs, None, None)
        else:
            wc = None
            if "R10" in region.rules:
                wc = set(unit_cfg.get("world_calls", []))
            f = rules_mod.rewrite(text, "%s:%d" % (region.file, l0), region.rules, substs, wc, unit_cfg.get("guard_calls") if "R21" in region.rules else None)
    except (rules_mod.RuleError, rscan.ScanError) as ex:
        raise UnitError("rewrite %s: %s" % (region.label, ex))
    if lift_log:
        f.log.insert(0, lift_log)
    return f.text, f.log, info


def build_unit(unit, scratch):
    """-> Built with .path (emitted file), .regions [(label, first_line, last_line, props, exact)], .log, .functions"""
    udir = os.path.join(VERIF, "units", unit)
    tpl = os.path.join(udir, "unit.rs")
    cfg_path = os.path.join(udir, "unit.json")
    cfg = json.load(open(cfg_path)) if os.path.exists(cfg_path) else {}
    ab = os.path.join(VERIF, "prelude", "type_attrs.json")
    attr_base = json.load(open(ab)) if os.path.exists(ab) else None
    try:
        segs = splice.parse_unit(splice.expand_includes(open(tpl, encoding="utf-8").read(), VERIF), tpl)
    except (OSError, splice.SpliceError) as e:
        raise UnitError("template %s: %s" % (unit, e))
    out_lines = []
    b = Built()
    b.unit, b.regions, b.log, b.functions, b.origin = unit, [], [], [], []
    b.stubs = []
    b.cfg = cfg

    cur_prelude = [None]

    def add(text, origin):
        for ln in text.split("\n"):
            m = re.match(r"^//!prelude-begin (\S+)", ln)
            if m:
                cur_prelude[0] = m.group(1)
                ln = "// ---- begin " + m.group(1)
            elif ln.startswith("//!prelude-end"):
                cur_prelude[0] = None
                ln = "// ---- end include"
            out_lines.append(ln)
            b.origin.append(("prelude", cur_prelude[0]) if (cur_prelude[0] and origin[0] == "vocab") else origin)

    for seg in segs:
        if seg[0] == "text":
            add(seg[1], ("vocab", unit))
        elif seg[0] == "stub":
            other = os.path.join(VERIF, "units", seg[1], "unit.rs")
            try:
                osegs = splice.parse_unit(splice.expand_includes(open(other, encoding="utf-8").read(), VERIF), other)
            except (OSError, splice.SpliceError) as e:
                raise UnitError("stub %s %s: %s" % (seg[1], seg[2], e))
            hit = [x[1] for x in osegs if x[0] == "region" and x[1].label == seg[2]]
            if len(hit) != 1:
                raise UnitError("stub %s %s: region not found" % (seg[1], seg[2]))
            add("// contract proved in unit `%s` on the real text of %s; ASSUMED here" % (seg[1], seg[2]), ("vocab", unit))
            add(splice.stub_of(hit[0]), ("stub", "%s/%s" % (seg[1], seg[2])))
            b.stubs.append("%s/%s" % (seg[1], seg[2]))
        elif seg[0] == "serde":
            src = load_source(seg[1])
            try:
                s0, e0 = src.find_type(seg[2])
            except rscan.ScanError as ex:
                raise UnitError("serde %s %s: %s" % (seg[1], seg[2], ex))
            _, inner = strip_attrs(src.span_text(s0, e0))
            allattrs = outer_attrs(src, s0) + inner
            have = [a for a in allattrs if "serde" in a or ("derive" in a and ("Serialize" in a or "Deserialize" in a or "Default" in a))]
            SEEN_SERDE[seg[1] + "::" + seg[2]] = have
            want = (attr_base or {}).get(seg[1] + "::" + seg[2])
            if want is not None and want != have:
                raise UnitError("the serde attributes of type %s changed (%s -> %s): the ASSUMED round trip of this type (what is stored is what is read back) no longer describes it" % (seg[2], want, have))
            add("// ASSUMED serde round trip of the repository type %s (%s): attributes fingerprinted" % (seg[2], seg[1]), ("vocab", unit))
        elif seg[0] == "assumed":
            fp = assumed_fingerprint(seg[1], seg[2])
            SEEN_ASSUMED[(seg[1], seg[2])] = fp
            if seg[3] != "?" and seg[3] != fp:
                raise UnitError("assumed contract of %s (%s): the function's text has changed (fingerprint %s, recorded %s); the hand-written contract may no longer describe it" % (seg[2], seg[1], fp, seg[3]))
            add("// ASSUMED contract of the repository function %s (%s), text fingerprint %s" % (seg[2], seg[1], fp), ("vocab", unit))
            b.assumed_repo_fns = getattr(b, "assumed_repo_fns", []) + ["%s::%s" % (seg[1], seg[2])]
        elif seg[0] == "include":
            p = os.path.join(VERIF, seg[1])
            try:
                add(open(p, encoding="utf-8").read().rstrip("\n"), ("prelude", seg[1]))
            except OSError as e:
                raise UnitError("include %s: %s" % (seg[1], e))
        else:
            region = seg[1]
            real, log, info = extract(region, cfg)
            b.log += log
            if region.kind == "type" and attr_base is not None:
                want = attr_base.get(region.file + "::" + region.label)
                if want is not None and want != info.get("attrs"):
                    raise UnitError("the serde attributes of type %s changed (%s -> %s): the ASSUMED decoding contract of this type no longer describes it" % (region.label, want, info.get("attrs")))
            e_toks = [x[1] for x in region.items() if x[0] == "tok"]
            r_toks = splice.norm_tokens(rscan.tokenize(real))
            if e_toks == r_toks:
                emitted = region.emit_exact()
                info["match"] = "exact"
            else:
                try:
                    emitted, stats = splice.transplant(region, real)
                except (splice.SpliceError, rscan.ScanError) as e:
                    raise UnitError("splice %s: %s" % (region.label, e))
                info["match"] = "transplanted"
                info["transplant"] = stats
            if not splice.erasure_check(emitted, real):
                raise UnitError("erasure check failed for %s (tool error)" % region.label)
            info["props"] = region.props
            info["kind"] = region.kind
            first = len(out_lines) + 2
            add("//@@begin %s" % region.label, ("marker", region.label))
            add(emitted, ("region", region.label))
            add("//@@end %s" % region.label, ("marker", region.label))
            info["emitted_lines"] = [first, len(out_lines) - 1]
            b.regions.append((region.label, first, len(out_lines) - 1, region.props, info["match"] == "exact"))
            b.functions.append(info)
    b.text = "\n".join(out_lines) + "\n"
    b.lines = out_lines
    b.path = os.path.join(scratch, unit.replace("-", "_") + ".rs")
    with open(b.path, "w", encoding="utf-8") as fh:
        fh.write(b.text)
    return b


def referenced_names(b):
    """identifiers used by the extracted functions, closed (two rounds) under the contracts of the stubs they mention:
    the part of the shared prelude this unit actually depends on"""
    import rscan as _r
    region_text = "\n".join(ln for i, ln in enumerate(b.lines) if b.origin[i][0] in ("region", "stub") or b.origin[i] == ("vocab", b.unit))
    names = set(t.text for t in _r.tokenize(region_text) if t.kind in ("ident", "macro"))
    # items of the prelude: name -> text of the item line(s)
    items = {}
    for i, ln in enumerate(b.lines):
        if b.origin[i][0] != "prelude":
            continue
        m = re.search(r"\bfn\s+(\w+)", ln) or re.search(r"\b(?:struct|enum|trait|mod)\s+(\w+)", ln)
        if m:
            items.setdefault(m.group(1), []).append("\n".join(b.lines[i:i + 12]))
    for _ in range(2):
        extra = set()
        for n in list(names):
            for txt in items.get(n, []):
                extra |= set(t.text for t in _r.tokenize(txt) if t.kind == "ident")
        names |= extra
    return names


def scan_trusted(b):
    """mechanical scan of the emitted file for everything that is assumed rather than proved"""
    res = {"external_body": [], "assume_specification": [], "assume": [], "admit": [], "external": [], "no_decreases": [], "uninterp": [], "axiom": [], "unreferenced_prelude_stubs": 0}
    refs = referenced_names(b)
    in_region = lambda i: b.origin[i][0] == "region"
    # enclosing `impl .. Type` / `mod name` of every line (brace counting; good enough for the prelude's layout)
    ctx_stack = []
    depth = 0
    ctx_of = []
    for ln in b.lines:
        code0 = ln.split("//")[0]
        m = re.match(r"\s*(?:pub(?:\([a-z]+\))?\s+)?(?:unsafe\s+)?impl\b(?:<[^{]*?>)?\s*(?:[\w:<>, '&]+?\s+for\s+)?([\w:]+)", code0)
        m2 = re.match(r"\s*(?:pub(?:\([a-z]+\))?\s+)?mod\s+(\w+)\s*\{", code0)
        opened = code0.count("{") - code0.count("}")
        if m and "{" in code0:
            ctx_stack.append((depth, m.group(1).split("::")[-1]))
        elif m2:
            ctx_stack.append((depth, m2.group(1)))
        ctx_of.append([c[1] for c in ctx_stack])
        depth += opened
        while ctx_stack and depth <= ctx_stack[-1][0]:
            ctx_stack.pop()
    for i, ln in enumerate(b.lines):
        code = ln.split("//")[0]
        where = "%s:%d" % (b.origin[i][1], i + 1)
        if "external_body" in code:
            # name of the item that follows
            nm = None
            for j in range(i, min(i + 4, len(b.lines))):
                m = re.search(r"\bfn\s+(\w+)", b.lines[j])
                if m:
                    nm = m.group(1)
                    break
                m = re.search(r"\b(struct|enum)\s+(\w+)", b.lines[j])
                if m:
                    nm = m.group(2)
                    break
            ctx = ctx_of[i]
            qual = "::".join(ctx + [nm]) if nm else where
            owner = ctx[-1] if ctx else None
            if b.origin[i][0] == "prelude" and nm and (nm not in refs or (owner and owner not in refs and owner not in ("app",))):
                res["unreferenced_prelude_stubs"] += 1
            else:
                res["external_body"].append(qual)
        if "assume_specification" in code:
            m = re.search(r"\[\s*(.+?)\s*\]", code)
            res["assume_specification"].append(m.group(1) if m else where)
        if re.search(r"\bassume\s*\(", code):
            res["assume"].append(where + (" IN-EXTRACTED-BODY" if in_region(i) else ""))
        if re.search(r"\badmit\s*\(", code):
            res["admit"].append(where)
        if "verifier::external]" in code or "verifier::external)" in code:
            res["external"].append(where)
        if "exec_allows_no_decreases_clause" in code:
            res["no_decreases"].append(where)
        if re.search(r"\buninterp\s+spec\s+fn\s+(\w+)", code):
            un = re.search(r"\buninterp\s+spec\s+fn\s+(\w+)", code).group(1)
            if b.origin[i][0] != "prelude" or un in refs:
                res["uninterp"].append(un)
        m = re.search(r"\b(?:broadcast\s+)?axiom\s+fn\s+(\w+)", code)
        if m:
            res["axiom"].append(m.group(1))
    return res


def clause_counts(b):
    kinds = {"requires": 0, "ensures": 0, "invariant": 0, "decreases": 0, "assert": 0}
    for i, ln in enumerate(b.lines):
        if b.origin[i][0] != "region":
            continue
        code = ln.split("//")[0]
        for k in kinds:
            kinds[k] += len(re.findall(r"\b%s\b" % k, code))
    return kinds


def run_verus(b, seed=None, extra=None, timeout=600):
    cmd = ["verus", b.path, "--output-json", "--time-expanded", "--error-format=json", "--multiple-errors", "30"]
    if seed is not None:
        cmd += ["--smt-option", "random_seed=%d" % seed]
    if extra:
        cmd += extra
    t0 = time.time()
    try:
        p = subprocess.run(cmd, cwd=os.path.dirname(b.path), capture_output=True, text=True, timeout=timeout)
    except subprocess.TimeoutExpired:
        raise UnitError("verus timed out after %ds on unit %s" % (timeout, b.unit))
    wall = time.time() - t0
    out = None
    try:
        out = json.loads(p.stdout)
    except Exception:
        pass
    diags = []
    raw = []
    for ln in p.stderr.split("\n"):
        ln = ln.strip()
        if not ln:
            continue
        if ln.startswith("{"):
            try:
                diags.append(json.loads(ln))
                continue
            except Exception:
                pass
        raw.append(ln)
    return {"cmd": " ".join(cmd), "rc": p.returncode, "json": out, "diags": diags, "raw": raw, "wall_s": wall}


def region_of(b, line):
    for (label, a, z, props, exact) in b.regions:
        if a <= line <= z:
            return label, props
    return None, None


TAG = re.compile(r"//\s*\[((?:C\d+)(?:\s*,\s*C\d+)*)\]")


def classify(b, res):
    """-> (failures, undecided) ; failure = dict(obligation, fn, kind, message, props, line, text, spans)"""
    failures, undecided = [], []
    vr = (res["json"] or {}).get("verification-results") if res["json"] else None
    if res["json"] is None:
        undecided.append("verus produced no JSON result (rc=%s): %s" % (res["rc"], " | ".join(res["raw"][:5])))
    for d in res["diags"]:
        if d.get("level") != "error":
            continue
        msg = d.get("message", "")
        if msg.startswith("aborting due to"):
            continue
        kind = None
        known = False
        for pat, k in VERIFICATION_MESSAGES:
            if pat in msg:
                kind, known = k, True
                break
        if any(u in msg for u in UNDECIDED_MESSAGES):
            undecided.append("solver limit: " + msg)
            continue
        spans = d.get("spans", [])
        prim = [s for s in spans if s.get("is_primary")] or spans
        if not known:
            loc = "%s" % (prim[0]["line_start"] if prim else "?")
            where = region_of(b, prim[0]["line_start"])[0] if prim else None
            undecided.append("verus/rustc rejected the emitted text (not a verification verdict) at emitted line %s%s: %s" % (loc, " in " + where if where else "", msg))
            continue
        if kind is None:
            continue
        if not prim:
            undecided.append("failure without span: " + msg)
            continue
        line = prim[0]["line_start"]
        label, props = region_of(b, line)
        if label is None:
            # a failure whose primary span is in vocabulary / prelude text: cannot be caused by /repo
            undecided.append("failure located outside extracted code (emitted line %d, %s): %s" % (line, b.origin[line - 1], msg))
            continue
        # clause = the span labelled "failed ..." (postcondition / precondition / invariant), else the primary span;
        # location = the other one
        lab = [s for s in spans if s.get("label") and "failed" in s["label"]]
        cl = lab[0] if lab else prim[0]
        others = [s for s in spans if s is not cl]
        if lab and others:
            inreg = [s for s in others if region_of(b, s["line_start"])[0]]
            loc = (inreg or others)[0]
            if region_of(b, line)[0] is None or cl is prim[0]:
                line = loc["line_start"]
                label, props = region_of(b, line)
                if label is None:
                    label, props = region_of(b, prim[0]["line_start"])
        ctext = " ".join(b.lines[cl["line_start"] - 1].split())
        ctext = re.sub(r"/\*[@\[\]]\*/", "", ctext).strip()
        tags = set()
        for s in spans:
            for ln_no in range(s["line_start"], s["line_end"] + 1):
                m = TAG.search(b.lines[ln_no - 1])
                if m:
                    tags |= set(x.strip() for x in m.group(1).split(","))
        # a failed clause that lives outside the region (callee precondition) carries the caller's props
        fprops = sorted(tags) if tags else list(props)
        short = re.sub(r"//.*$", "", ctext).strip()[:90]
        # Is this failure a statement of the contract, or only a step of the proof?  Untagged `assert`s are hints for the
        # solver: when one fails (for instance because it now sits next to different code) nothing is known yet about the
        # contract itself - worse, Verus ASSUMES a failed assert afterwards, which can hide the clause that really fails.
        # Header clauses, loop invariants, preconditions of callees and lemmas (they relate abstract states), safety
        # conditions and every clause carrying a [Cxx] tag are statements of the contract.  See neutralise_asserts().
        step = kind in ("assert",) and not tags
        failures.append({
            "proof_step_only": step,
            "primary": {"line": prim[0]["line_start"], "col": prim[0].get("column_start", 1)},
            "obligation": "%s/%s/%s: %s" % (b.unit, label, kind, short),
            "unit": b.unit, "fn": label, "kind": kind, "message": msg, "props": fprops,
            "emitted_line": line, "at": " ".join(b.lines[line - 1].split())[:160],
            "clause": ctext[:300],
            "spans": [{"line": s["line_start"], "label": s.get("label"), "primary": s.get("is_primary")} for s in spans],
        })
    if vr is not None:
        if vr.get("encountered-vir-error"):
            undecided.append("verus reported a VIR (mode/type) error")
        if vr.get("errors", 0) > 0 and not failures and not undecided:
            undecided.append("verus reports %d failed function(s) but no classified diagnostic" % vr["errors"])
        if not vr.get("success") and vr.get("errors", 0) == 0 and not undecided and not failures:
            undecided.append("verus did not succeed: " + " | ".join(res["raw"][:3]))
    return failures, undecided


def neutralise_asserts(b, fails):
    """rewrite the emitted file so that the given failed `assert` statements are neither checked nor assumed
    (`if false { assert... }`, on the same lines: every line number stays valid); returns how many were rewritten"""
    text = "\n".join(b.lines)
    starts = [0]
    for ln in b.lines:
        starts.append(starts[-1] + len(ln) + 1)
    toks = rscan.tokenize(text)
    br = rscan.match_brackets(toks)
    edits = []
    for f in fails:
        off = starts[f["primary"]["line"] - 1] + f["primary"]["col"] - 1
        # the `assert` keyword at or before the primary span, in the same annotation
        k = None
        for i, t in enumerate(toks):
            if t.pos > off:
                break
            if t.text == "assert" and t.kind == "ident":
                k = i
        if k is None or off - toks[k].pos > 4000:
            continue
        # statement end: the first `;` at depth 0, or the `}` closing a `by { }` block (plus a `;` right after it)
        j = k + 1
        end = None
        while j < len(toks):
            t = toks[j]
            if t.text in ("(", "[", "{"):
                close = br.get(j)
                if close is None:
                    break
                if t.text == "{":
                    end = toks[close].end
                    if close + 1 < len(toks) and toks[close + 1].text == ";":
                        end = toks[close + 1].end
                    break
                j = close + 1
                continue
            if t.text == ";":
                end = t.end
                break
            if t.text in (")", "]", "}"):
                break
            j += 1
        if end is None:
            continue
        edits.append((toks[k].pos, end))
    edits = sorted(set(edits))
    # drop nested / overlapping ranges
    keep = []
    for a, z in edits:
        if keep and a < keep[-1][1]:
            continue
        keep.append((a, z))
    for a, z in reversed(keep):
        text = text[:a] + "if false { " + text[a:z] + " }" + text[z:]
    if keep:
        b.lines = text.split("\n")
        with open(b.path, "w", encoding="utf-8") as fh:
            fh.write(text)
    return len(keep)


def function_breakdown(res, b):
    """[(function, mode, success, time_us, rlimit)] for this unit's own items"""
    out = []
    j = res["json"] or {}
    smt = j.get("times-ms", {}).get("smt", {})
    for m in smt.get("smt-run-module-times", []):
        for fb in m.get("function-breakdown", []):
            out.append({"function": fb["function"], "mode": fb.get("mode:") or fb.get("mode"), "success": fb.get("success"), "time_us": fb.get("time-micros"), "rlimit": fb.get("rlimit")})
    return out
